import AthlibVerif.Model.Perf
import AthlibVerif.Lemmas.NatStr
import AthlibVerif.Lemmas.PerfPlain
import AthlibVerif.Lemmas.PerfMss
/-!
# C12 — Performance validation returns plausible, well-formed marks or the given error

Over `Model/Perf.lean`, the transcription of `check_performance_for_discipline` (default `prec=None`) on the
patterns and code tuples regenerated from `athlib/codes.py`.  Proved for all inputs:
* the cascade is total and every failure point of the model is the caller's error class (`refused`): there is
  no other failure outcome (the points where the Python could raise something else — `float()` / `int()` of a
  chunk — are inside `try` blocks after the repair, and the correspondence checks that);
* multi-events: an accepted result is `str(p)` for the integer `p ≤ 9999` that was typed;
* field events: an accepted result is a two-decimal rendering, within 1.2 × the record;
* timed events: an accepted time has seconds below 60 whenever a minutes or hours field is printed, and
  minutes below 60 under hours.
The speed window is proved for every parsed text of at most two decimals (`C12_timed_speed_window`); idempotence of timed
results is proved for plain-seconds results of events shorter than 800 m (`C12_plain_seconds_idempotent_partial`) and for
`m:ss` results (no hours field) of every event longer than 200 m (`C12_mss_idempotent_partial`) and `h:mm:ss` results of
every such event whose code is not `800`, `1500` or `3000` (`C12_hmmss_idempotent_partial`).
NOT proved (kept as `C12_statement`): idempotence in general — it is false of the code (known findings, see DESIGN.md)
and decided on the implementation by tools/checks/c12.py.
-/
namespace AthlibVerif.Props.C12
open AthlibVerif AthlibVerif.Codes AthlibVerif.Perf

/-- every discipline and text is handled by exactly one branch (the dispatch never fails) -/
theorem C12_dispatch_total (d t : Str) : kindOf d t = .xcBlank ∨ kindOf d t = .durationRace ∨ kindOf d t = .custom ∨
    kindOf d t = .field ∨ kindOf d t = .multi ∨ kindOf d t = .timed := by
  cases kindOf d t <;> simp

/-- **Error class.** The model's outcome is a string, the caller's error (`refused`), or `skip` (a line the
    exact model does not cover) — there is no constructor for "another exception". Stated so that it is not
    vacuous: a text that fails `PAT_PERF` is refused for every field, multi and timed discipline. -/
theorem C12_error_class (d t g : Str) (hk : kindOf d t = .field ∨ kindOf d t = .multi ∨ kindOf d t = .timed)
    (hp : pyMatch "PAT_PERF" (cleanText t) = none) : check d t g = .refused := by
  unfold check
  rcases hk with h | h | h <;> simp [h, hp]

/-- **Multi-events**: an accepted result is the decimal rendering of the typed integer, at most 9999 -/
theorem C12_multi_range (t r : Str) (h : checkMulti t = .ok r) : ∃ p, pyInt t = .ok p ∧ p ≤ 9999 ∧ r = natStr p := by
  unfold checkMulti at h
  split at h
  · cases h
  · next p hp =>
    split at h
    · cases h
    · next hle => injection h with h; exact ⟨p, hp, by omega, h.symm⟩

/-- decided on the regenerated digit blocks: the ten ASCII digits have their values and none is the point -/
theorem ascii_digits : asciiDigitsOK = true := by decide +kernel

/-- re-validating a returned multi-event score returns it unchanged (`int(str(p)) == p` for every `p`) -/
theorem C12_multi_idempotent (t r : Str) (h : checkMulti t = .ok r) : checkMulti r = .ok r := by
  obtain ⟨p, _, hle, rfl⟩ := C12_multi_range t r h
  unfold checkMulti
  rw [pyInt_natStr ascii_digits p]
  simp [show ¬ p > 9999 by omega]

/-- **Field events**: an accepted result is `"%0.2f"` of a distance not above 1.2 × the record -/
theorem C12_field_format (d t g r : Str) (h : checkField d t g = .ok r) :
    ∃ n dn decs, floatOf t = some (n, dn, decs) ∧ r = fmt2 (n * 100 / dn) ∧ tooLarge d g n dn = false := by
  unfold checkField at h
  split at h
  · cases h
  · next n dn decs hf =>
    refine ⟨n, dn, decs, hf, ?_⟩
    by_cases hd : decs > 2
    · simp [hd] at h
    · by_cases hl : tooLarge d g n dn = true
      · simp [hl, hd] at h
      · simp [hl, hd] at h; exact ⟨h.symm, by simpa using hl⟩

/-- the record window, spelled out: accepted distances are at most 1.2 × the record -/
theorem C12_field_window (d g : Str) (n dn rec : Nat) (h : tooLarge d g n dn = false) (hr : recordOf d g = some rec) :
    n * 100 * 5 ≤ rec * 6 * dn := by
  unfold tooLarge at h; rw [hr] at h; simpa using h

theorem timedGuards_time (xc dpos : Bool) (dval hours minutes sn sd sdecs h m c : Nat)
    (hr : timedGuards xc dpos dval hours minutes sn sd sdecs = .time h m c) :
    ((h > 0 ∨ m > 0) → c < 6000) ∧ (h > 0 → m < 60) := by
  unfold timedGuards at hr
  split at hr
  · cases hr
  · next c1 =>
    split at hr
    · cases hr
    · next c2 =>
      split at hr
      · cases hr
      · split at hr
        · cases hr
        · split at hr
          · cases hr
          · injection hr with e1 e2 e3
            subst e1; subst e2; subst e3
            simp only [Bool.and_eq_true, Bool.or_eq_true, decide_eq_true_eq, not_and] at c1 c2
            constructor
            · intro hm
              have := c1 hm
              apply Nat.div_lt_of_lt_mul
              omega
            · intro hh
              have := c2 hh
              omega

/-- **Timed events**: seconds below 60 whenever minutes or hours are printed; minutes below 60 under hours -/
theorem C12_timed_fields_below_60 (disc : Str) (dist : Option Nat) (h0 m0 sn0 sd0 dc0 h m c : Nat)
    (hr : timedDecide disc dist h0 m0 sn0 sd0 dc0 = .time h m c) :
    ((h > 0 ∨ m > 0) → c < 6000) ∧ (h > 0 → m < 60) := by
  unfold timedDecide at hr
  split at hr
  · cases hr
  · simp only at hr
    split at hr
    · split at hr
      · cases hr
      · exact timedGuards_time _ _ _ _ _ _ _ _ h m c hr
    · exact timedGuards_time _ _ _ _ _ _ _ _ h m c hr

theorem timedCore_time (d t : Str) (h m c : Nat) (hr : timedCore d t = .time h m c) :
    ((h > 0 ∨ m > 0) → c < 6000) ∧ (h > 0 → m < 60) := by
  unfold timedCore at hr
  split at hr
  · cases hr
  · simp only at hr
    split at hr
    · cases hr
    · exact C12_timed_fields_below_60 _ _ _ _ _ _ _ h m c hr

/-- what an accepted time satisfies, in units of 1/sd s: not more than two decimals, a positive duration inside the
    speed window (at most 11 m/s up to 400 m, 10 m/s beyond; at least 0.5 m/s) -/
theorem timedGuards_speed (xc : Bool) (dval hours minutes sn sd sdecs h m c : Nat)
    (hr : timedGuards xc true dval hours minutes sn sd sdecs = .time h m c) :
    h = hours ∧ m = minutes ∧ c = sn * 100 / sd ∧ sdecs ≤ 2 ∧
    0 < (3600 * hours + 60 * minutes) * sd + sn ∧
    (dval ≤ 400 → dval * sd ≤ 11 * ((3600 * hours + 60 * minutes) * sd + sn)) ∧
    (400 < dval → dval * sd ≤ 10 * ((3600 * hours + 60 * minutes) * sd + sn)) ∧
    (3600 * hours + 60 * minutes) * sd + sn ≤ 2 * dval * sd := by
  unfold timedGuards at hr
  split at hr
  · cases hr
  · split at hr
    · cases hr
    · split at hr
      · cases hr
      · next c3 =>
        split at hr
        · cases hr
        · next c4 =>
          split at hr
          · cases hr
          · injection hr with e1 e2 e3
            generalize (3600 * hours + 60 * minutes) * sd + sn = durN at *
            simp only [speedBad, Bool.true_and, Bool.or_eq_true, beq_iff_eq, decide_eq_true_eq, not_or] at c4
            obtain ⟨h0, hw, hslow⟩ := c4
            refine ⟨e1.symm, e2.symm, e3.symm, by omega, by omega, fun hle => ?_, fun hgt => ?_, by omega⟩
            · rw [if_pos hle] at hw; simpa using hw
            · rw [if_neg (by omega)] at hw; simpa using hw

/-- **Timed events, speed window**: for an event with a distance `d`, the time that is returned — `h:mm:ss.cc`, that
    is `D = (3600 h + 60 m)·100 + c` hundredths of a second — is positive and implies a speed `d / (D/100)` of at most
    11 m/s (up to 400 m) or 10 m/s (beyond) and at least 0.5 m/s.  For every parsed text of at most two decimals
    (`sd0 = 10 ^ dc0`, as `floatOf` returns it); texts with more decimals are `skip` in the model. -/
theorem C12_timed_speed_window (disc : Str) (d : Nat) (hd : 0 < d) (h0 m0 sn0 dc0 h m c : Nat)
    (hr : timedDecide disc (some d) h0 m0 sn0 (10 ^ dc0) dc0 = .time h m c) :
    0 < (3600 * h + 60 * m) * 100 + c ∧
    (d ≤ 400 → d * 100 ≤ 11 * ((3600 * h + 60 * m) * 100 + c)) ∧
    (400 < d → d * 100 ≤ 10 * ((3600 * h + 60 * m) * 100 + c)) ∧
    (3600 * h + 60 * m) * 100 + c ≤ 2 * d * 100 := by
  unfold timedDecide at hr
  split at hr
  · cases hr
  · simp only [hd, decide_true, Option.getD_some] at hr
    split at hr
    · split at hr
      · cases hr
      · obtain ⟨e1, e2, e3, hdc, hpos, h11, h10, hslow⟩ := timedGuards_speed _ _ _ _ _ _ _ h m c hr
        have : dc0 = 0 := by omega
        subst this
        subst e1; subst e2; subst e3
        simp only [Nat.pow_zero, Nat.mul_one] at *
        have hc : (m0 * 100 + sn0) * 100 / 100 = m0 * 100 + sn0 := by omega
        rw [hc]
        refine ⟨by omega, fun hle => ?_, fun hgt => ?_, by omega⟩
        · have := h11 hle; omega
        · have := h10 hgt; omega
    · obtain ⟨e1, e2, e3, hdc, hpos, h11, h10, hslow⟩ := timedGuards_speed _ _ _ _ _ _ _ h m c hr
      subst e1; subst e2; subst e3
      have hcases : dc0 = 0 ∨ dc0 = 1 ∨ dc0 = 2 := by omega
      rcases hcases with e | e | e <;> subst e
      · simp only [Nat.pow_zero, Nat.mul_one, Nat.div_one] at *
        refine ⟨by omega, fun hle => ?_, fun hgt => ?_, by omega⟩
        · have := h11 hle; omega
        · have := h10 hgt; omega
      · have hc : sn0 * 100 / 10 ^ 1 = sn0 * 10 := by omega
        rw [hc]
        simp only [Nat.pow_one] at *
        refine ⟨by omega, fun hle => ?_, fun hgt => ?_, by omega⟩
        · have := h11 hle; omega
        · have := h10 hgt; omega
      · have hc : sn0 * 100 / 10 ^ 2 = sn0 := by omega
        rw [hc]
        have h100 : (10 : Nat) ^ 2 = 100 := by decide
        rw [h100] at hpos h11 h10 hslow
        refine ⟨by omega, fun hle => ?_, fun hgt => ?_, by omega⟩
        · have := h11 hle; omega
        · have := h10 hgt; omega

/-- non-vacuity: 400 m in 63:40 (read as 63.40 s) and 1500 m in 3:45.6 are accepted -/
example : timedDecide "400".toList (some 400) 0 63 40 (10 ^ 0) 0 = .time 0 0 6340 := by decide
example : timedDecide "1500".toList (some 1500) 0 3 456 (10 ^ 1) 1 = .time 0 3 4560 := by decide
/-- and a zero time is refused -/
example : timedDecide "100".toList (some 100) 0 0 0 (10 ^ 0) 0 = .refused := by decide

/-! ## read-back for every number; field results are stable -/


/-- `int(str(n)) == n` for **every** `n` (no table) -/
theorem C12_int_str_roundtrip (n : Nat) : pyInt (natStr n) = .ok n := pyInt_natStr ascii_digits n

/-- **Field events are idempotent**: validating a returned distance again returns it unchanged — for every event,
    gender and text (within the modelled two-decimal domain). -/
theorem C12_field_idempotent (d t g r : Str) (h : checkField d t g = .ok r) : checkField d r g = .ok r := by
  obtain ⟨n, dn, decs, hf, rfl, hl⟩ := C12_field_format d t g r h
  have hfl := floatOf_fmt2 ascii_digits (n * 100 / dn)
  have hnl : tooLarge d g (n * 100 / dn) 100 = false := by
    unfold tooLarge at hl ⊢
    split
    · next rec hrec =>
      rw [hrec] at hl
      simp only [decide_eq_false_iff_not, Nat.not_lt] at hl ⊢
      by_cases hdn : dn = 0
      · subst hdn; simp
      · have h1 : n * 100 / dn * dn ≤ n * 100 := Nat.div_mul_le_self _ _
        generalize n * 100 / dn = q at h1 ⊢
        have h3 : (q * 5) * dn ≤ (rec * 6) * dn := by
          calc (q * 5) * dn = (q * dn) * 5 := by ac_rfl
            _ ≤ (n * 100) * 5 := Nat.mul_le_mul_right _ h1
            _ ≤ rec * 6 * dn := hl
        have h4 := Nat.le_of_mul_le_mul_right h3 (Nat.pos_of_ne_zero hdn)
        omega
    · rfl
  unfold checkField
  simp only [hfl, hnl, show ¬ (2 > 2) by omega, if_false, Bool.false_eq_true]
  have : n * 100 / dn * 100 / 100 = n * 100 / dn := Nat.mul_div_cancel _ (by omega)
  rw [this]


/-! ## idempotence, partial: plain-seconds results of events shorter than 800 m -/

theorem timedDecide_plain_lt (disc : Str) (d : Nat) (hd : 0 < d) (h0 m0 sn0 dc0 c : Nat)
    (hr : timedDecide disc (some d) h0 m0 sn0 (10 ^ dc0) dc0 = .time 0 0 c) : c < 10000 := by
  have hsd : 0 < 10 ^ dc0 := Nat.pow_pos (by decide)
  generalize 10 ^ dc0 = sd0 at *
  unfold timedDecide at hr
  split at hr
  · cases hr
  · next hfirst =>
    simp only [hd, decide_true, Option.getD_some] at hr
    split at hr
    · split at hr
      · cases hr
      · next hlt =>
        obtain ⟨_, _, e3, _⟩ := timedGuards_speed _ _ _ _ _ _ _ 0 0 c hr
        rw [e3]
        apply Nat.div_lt_of_lt_mul
        omega
    · obtain ⟨e1, e2, e3, _⟩ := timedGuards_speed _ _ _ _ _ _ _ 0 0 c hr
      subst e2
      simp only [beq_self_eq_true, Bool.true_and, decide_eq_true_eq] at hfirst
      rw [e3]
      apply Nat.div_lt_of_lt_mul
      omega

/-- **A plain-seconds result is accepted unchanged when validated again** (idempotence, partial): for an event with a
    distance below 800 m, if a text is accepted as a time of `c` hundredths printed without a minutes field, then
    `c < 10000`, the printed result is `"%0.2f"` of it (`fmt2 c`, at most five characters, so nothing is stripped), and
    validating that result again accepts it as the same time. -/
theorem C12_plain_seconds_idempotent_partial (hA : asciiDigitsOK = true) (disc t : Str) (d c : Nat)
    (hg : getDistance 8 disc = .ok (some d))
    (hd : 0 < d) (h800 : d < 800) (hr : timedCore disc t = .time 0 0 c) :
    c < 10000 ∧ formatTime 0 0 c = fmt2 c ∧ timedCore disc (fmt2 c) = .time 0 0 c := by
  obtain ⟨h0, m0, sn0, dc0, hdec⟩ := timedCore_decided disc t (some d) hg 0 0 c hr
  have hlt := timedDecide_plain_lt disc d hd h0 m0 sn0 dc0 c hdec
  obtain ⟨hpos, h11, h10, hslow⟩ := C12_timed_speed_window disc d hd h0 m0 sn0 dc0 0 0 c hdec
  simp only [Nat.mul_zero, Nat.add_zero, Nat.zero_mul, Nat.zero_add] at hpos h11 h10 hslow
  refine ⟨hlt, ?_, ?_⟩
  · unfold formatTime
    simp only [Nat.lt_irrefl, if_false]
    exact stripTime_short _ (fmt2_length c hlt)
  · rw [timedCore_plain disc (fmt2 c) d hg h800 (fmt2_no_colon c) (fmt2_has_dot c) (c, 100, 2) (floatOf_fmt2 hA c)]
    show timedDecide disc (some d) 0 0 c 100 2 = .time 0 0 c
    unfold timedDecide
    have hf : ¬ (c ≥ 100 * 100) := by omega
    simp only [beq_self_eq_true, Bool.true_and, decide_eq_true_eq, hf, if_false, hd, decide_true, Option.getD_some,
      Nat.not_lt_zero, gt_iff_lt]
    rw [if_neg (by simp)]
    unfold timedGuards speedBad
    have hc0 : ¬ (c = 0) := by omega
    have hsl : ¬ (2 * d * 100 < c) := by omega
    by_cases h4 : d ≤ 400
    · have := h11 h4
      have hq : ¬ (d * 100 > 11 * c) := by omega
      simp [h4, hq, hc0, hsl]
    · have := h10 (by omega)
      have hq : ¬ (d * 100 > 10 * c) := by omega
      simp [h4, hq, hc0, hsl]

/-- the same on the level of the validator's timed branch: the text it returns is `"%0.2f"` of the time, and that text
    is returned unchanged when validated again -/
theorem C12_plain_seconds_returned_unchanged (hA : asciiDigitsOK = true) (disc t : Str) (d c : Nat)
    (hg : getDistance 8 disc = .ok (some d))
    (hd : 0 < d) (h800 : d < 800) (hr : timedCore disc t = .time 0 0 c) :
    checkTimed disc t = .ok (fmt2 c) ∧ checkTimed disc (fmt2 c) = .ok (fmt2 c) := by
  obtain ⟨_, hfmt, h2⟩ := C12_plain_seconds_idempotent_partial hA disc t d c hg hd h800 hr
  unfold checkTimed
  rw [hr, h2]
  simp only [hfmt, and_self]

/-- non-vacuity: 100 m in 10.5 (typed with one decimal) is such a case -/
example : (match getDistance 8 "100".toList with | .ok (some 100) => true | _ => false) = true ∧
    timedCore "100".toList "10.5".toList = .time 0 0 1050 := by decide +kernel

/-! ## idempotence, partial: `m:ss` results of events between 200 m and 800 m -/

/-- the decision on fields that denote the same time again: `n' / sd'` seconds with `n' · 100 = c · sd'` -/
theorem timedDecide_again (disc : Str) (d m c n' sd' k' : Nat) (hd : 0 < d) (hm : 0 < m) (hc : c < 6000)
    (hsd : (sd' = 1 ∧ k' = 0) ∨ (sd' = 10 ∧ k' = 1) ∨ (sd' = 100 ∧ k' = 2)) (hn : n' * 100 = c * sd')
    (h11 : d ≤ 400 → d * 100 ≤ 11 * (60 * m * 100 + c)) (h10 : 400 < d → d * 100 ≤ 10 * (60 * m * 100 + c))
    (hslow : 60 * m * 100 + c ≤ 2 * d * 100) :
    timedDecide disc (some d) 0 m n' sd' k' = .time 0 m c := by
  have hm0 : (m == 0) = false := by simp; omega
  have h400 : (some d == some 400 && decide (m > 45)) = false := by
    by_cases e : d = 400
    · subst e; have : ¬ (m > 45) := by omega
      simp [this]
    · simp [e]
  unfold timedDecide
  simp only [hm0, Bool.false_and, Bool.false_eq_true, if_false, hd, decide_true, Option.getD_some, h400]
  unfold timedGuards speedBad
  rcases hsd with ⟨rfl, rfl⟩ | ⟨rfl, rfl⟩ | ⟨rfl, rfl⟩
  · have hn' : n' * 100 = c := by omega
    have hc1 : n' * 100 / 1 = c := by omega
    by_cases hle : d ≤ 400
    · have := h11 hle
      simp [hle, hc1]
      rw [if_neg (by omega), if_neg (by omega), if_neg (fun h => by have := h.2; omega)]
    · have := h10 (by omega)
      simp [hle, hc1]
      rw [if_neg (by omega), if_neg (by omega), if_neg (fun h => by have := h.2; omega)]
  · have hc1 : n' * 100 / 10 = c := by omega
    by_cases hle : d ≤ 400
    · have := h11 hle
      simp [hle, hc1]
      rw [if_neg (by omega), if_neg (by omega), if_neg (fun h => by have := h.2; omega)]
    · have := h10 (by omega)
      simp [hle, hc1]
      rw [if_neg (by omega), if_neg (by omega), if_neg (fun h => by have := h.2; omega)]
  · have hc1 : n' * 100 / 100 = c := by omega
    by_cases hle : d ≤ 400
    · have := h11 hle
      simp [hle, hc1]
      rw [if_neg (by omega), if_neg (by omega), if_neg (fun h => by have := h.2; omega)]
    · have := h10 (by omega)
      simp [hle, hc1]
      rw [if_neg (by omega), if_neg (by omega), if_neg (fun h => by have := h.2; omega)]

/-- an event shorter than 800 m has no result with an hours field (it would be slower than 0.5 m/s) -/
theorem C12_no_hours_below_800 (disc t : Str) (d h m c : Nat) (hg : getDistance 8 disc = .ok (some d)) (hd : 0 < d)
    (h800 : d < 800) (hr : timedCore disc t = .time h m c) : h = 0 := by
  obtain ⟨h0, m0, sn0, dc0, hdec⟩ := timedCore_decided disc t (some d) hg h m c hr
  obtain ⟨_, _, _, hslow⟩ := C12_timed_speed_window disc d hd h0 m0 sn0 dc0 h m c hdec
  omega

/-- **An `m:ss` result of an event longer than 200 m is accepted unchanged when validated again** (idempotence,
    partial): for an event with a distance above 200 m (up to 200 m a colon without a point is re-read as a point: the
    known finding), a result with a minutes field and no hours field has seconds below 60, and — printed `"%d:%05.2f"`
    with trailing zeros and a trailing point stripped — is read back as the same minutes and hundredths and passes the
    checks again.  None of the re-readings applies: the stop-for-colon one needs a text without a colon, the `a:b:c`
    one of 800 / 1500 / 3000 needs three fields, the 400 m `63:40` one more than 45 minutes (excluded by the speed
    window). -/
theorem C12_mss_idempotent_partial (hA : asciiDigitsOK = true) (disc t : Str) (d m c : Nat)
    (hg : getDistance 8 disc = .ok (some d)) (h200 : 200 < d) (hm : 0 < m) (hr : timedCore disc t = .time 0 m c) :
    c < 6000 ∧ timedCore disc (formatTime 0 m c) = .time 0 m c := by
  have hd : 0 < d := by omega
  obtain ⟨h0, m0, sn0, dc0, hdec⟩ := timedCore_decided disc t (some d) hg 0 m c hr
  obtain ⟨_, h11, h10, hslow⟩ := C12_timed_speed_window disc d hd h0 m0 sn0 dc0 0 m c hdec
  have hc : c < 6000 := (C12_timed_fields_below_60 disc (some d) h0 m0 sn0 (10 ^ dc0) dc0 0 m c hdec).1 (Or.inr hm)
  refine ⟨hc, ?_⟩
  simp only [Nat.mul_zero, Nat.zero_add] at h11 h10 hslow
  -- the printed text
  have ha : c / 1000 < 10 := by omega
  have hb : c / 100 % 10 < 10 := by omega
  have he : c / 10 % 10 < 10 := by omega
  have hf : c % 10 < 10 := by omega
  have hpre : 2 ≤ (natStr m ++ [':']).length := by
    have := natStrAux_ne_nil (m + 1) m [] (Or.inl (Nat.succ_pos _))
    have : (natStr m).length ≠ 0 := fun e => this (List.eq_nil_of_length_eq_zero e)
    simp only [List.length_append, List.length_cons, List.length_nil]; omega
  have hfmt : formatTime 0 m c = stripTime ((natStr m ++ [':']) ++
      [digitChar0 (c / 1000), digitChar0 (c / 100 % 10), '.', digitChar0 (c / 10 % 10), digitChar0 (c % 10)]) := by
    unfold formatTime
    rw [if_neg (by omega), if_pos hm, fmt52_lt6000 c hc]
  rw [hfmt, stripTime_mss _ _ _ _ _ hpre (digitChar0_ne_dot' _ he) (digitChar0_ne_dot' _ hf)]
  have hcA := digitChar0_ne_colon _ ha
  have hcB := digitChar0_ne_colon _ hb
  have hcE := digitChar0_ne_colon _ he
  have hcF := digitChar0_ne_colon _ hf
  have hdot : ('.' : Char) ≠ ':' := by decide
  by_cases hF : digitChar0 (c % 10) = '0'
  · have f0 : c % 10 = 0 := (digitChar0_eq_zero _ hf).1 hF
    rw [if_neg (by simpa using hF)]
    by_cases hE : digitChar0 (c / 10 % 10) = '0'
    · have e0 : c / 10 % 10 = 0 := (digitChar0_eq_zero _ he).1 hE
      rw [if_neg (by simpa using hE), List.append_assoc, List.singleton_append]
      rw [timedCore_mss hA disc m hm _ d hg h200
        (by intro ch hch; simp only [List.mem_cons, List.mem_nil_iff, or_false] at hch; rcases hch with rfl | rfl <;> assumption)
        _ (floatOf_ss hA _ _ ha hb)]
      exact timedDecide_again disc d m c _ 1 0 hd hm hc (Or.inl ⟨rfl, rfl⟩) (by omega) h11 h10 hslow
    · rw [if_pos (by simpa using hE), List.append_assoc, List.singleton_append]
      rw [timedCore_mss hA disc m hm _ d hg h200
        (by intro ch hch; simp only [List.mem_cons, List.mem_nil_iff, or_false] at hch; rcases hch with rfl | rfl | rfl | rfl <;> assumption)
        _ (floatOf_ss_c hA _ _ _ ha hb he)]
      exact timedDecide_again disc d m c _ 10 1 hd hm hc (Or.inr (Or.inl ⟨rfl, rfl⟩)) (by omega) h11 h10 hslow
  · rw [if_pos (by simpa using hF), List.append_assoc, List.singleton_append]
    rw [timedCore_mss hA disc m hm _ d hg h200
      (by intro ch hch; simp only [List.mem_cons, List.mem_nil_iff, or_false] at hch; rcases hch with rfl | rfl | rfl | rfl | rfl <;> assumption)
      _ (floatOf_ss_cc hA _ _ _ _ ha hb he hf)]
    exact timedDecide_again disc d m c _ 100 2 hd hm hc (Or.inr (Or.inr ⟨rfl, rfl⟩)) (by omega) h11 h10 hslow

/-- the same on the level of the validator's timed branch -/
theorem C12_mss_returned_unchanged (hA : asciiDigitsOK = true) (disc t : Str) (d m c : Nat)
    (hg : getDistance 8 disc = .ok (some d)) (h200 : 200 < d) (hm : 0 < m) (hr : timedCore disc t = .time 0 m c) :
    checkTimed disc t = .ok (formatTime 0 m c) ∧ checkTimed disc (formatTime 0 m c) = .ok (formatTime 0 m c) := by
  obtain ⟨_, h2⟩ := C12_mss_idempotent_partial hA disc t d m c hg h200 hm hr
  unfold checkTimed
  rw [hr, h2]
  exact ⟨rfl, rfl⟩

/-- non-vacuity: 600 m in 1:35.5, returned as `1:35.5` -/
example : (match getDistance 8 "600".toList with | .ok (some 600) => true | _ => false) = true ∧
    timedCore "600".toList "1:35.50".toList = .time 0 1 3550 ∧ formatTime 0 1 3550 = "1:35.5".toList := by decide +kernel
/-- and 1500 m in 3:45.60 -/
example : (match getDistance 8 "1500".toList with | .ok (some 1500) => true | _ => false) = true ∧
    timedCore "1500".toList "3:45.60".toList = .time 0 3 4560 ∧ formatTime 0 3 4560 = "3:45.6".toList := by decide +kernel

/-! ## idempotence, partial: `h:mm:ss` results -/

/-- the decision on fields that denote the same time again, with an hours field -/
theorem timedDecide_again_h (disc : Str) (d h m c n' sd' k' : Nat) (hd : 0 < d) (hh : 0 < h) (hm : m < 60) (hc : c < 6000)
    (hsd : (sd' = 1 ∧ k' = 0) ∨ (sd' = 10 ∧ k' = 1) ∨ (sd' = 100 ∧ k' = 2)) (hn : n' * 100 = c * sd')
    (h11 : d ≤ 400 → d * 100 ≤ 11 * ((3600 * h + 60 * m) * 100 + c))
    (h10 : 400 < d → d * 100 ≤ 10 * ((3600 * h + 60 * m) * 100 + c))
    (hslow : (3600 * h + 60 * m) * 100 + c ≤ 2 * d * 100) :
    timedDecide disc (some d) h m n' sd' k' = .time h m c := by
  have h400 : (some d == some 400 && decide (m > 45)) = false := by
    by_cases e : d = 400
    · subst e; omega
    · simp [e]
  have hfirst : (m == 0 && decide (n' ≥ 100 * sd')) = false := by
    have : ¬ (n' ≥ 100 * sd') := by
      rcases hsd with ⟨rfl, _⟩ | ⟨rfl, _⟩ | ⟨rfl, _⟩ <;> omega
    simp [this]
  unfold timedDecide
  simp only [hfirst, Bool.false_eq_true, if_false, hd, decide_true, Option.getD_some, h400]
  unfold timedGuards speedBad
  rcases hsd with ⟨rfl, rfl⟩ | ⟨rfl, rfl⟩ | ⟨rfl, rfl⟩
  · have hc1 : n' * 100 / 1 = c := by omega
    by_cases hle : d ≤ 400
    · have := h11 hle
      simp [hle, hc1]
      rw [if_neg (by omega), if_neg (by omega), if_neg (by omega), if_neg (fun h => by have := h.2; omega)]
    · have := h10 (by omega)
      simp [hle, hc1]
      rw [if_neg (by omega), if_neg (by omega), if_neg (by omega), if_neg (fun h => by have := h.2; omega)]
  · have hc1 : n' * 100 / 10 = c := by omega
    by_cases hle : d ≤ 400
    · have := h11 hle
      simp [hle, hc1]
      rw [if_neg (by omega), if_neg (by omega), if_neg (by omega), if_neg (fun h => by have := h.2; omega)]
    · have := h10 (by omega)
      simp [hle, hc1]
      rw [if_neg (by omega), if_neg (by omega), if_neg (by omega), if_neg (fun h => by have := h.2; omega)]
  · have hc1 : n' * 100 / 100 = c := by omega
    by_cases hle : d ≤ 400
    · have := h11 hle
      simp [hle, hc1]
      rw [if_neg (by omega), if_neg (by omega), if_neg (by omega), if_neg (fun h => by have := h.2; omega)]
    · have := h10 (by omega)
      simp [hle, hc1]
      rw [if_neg (by omega), if_neg (by omega), if_neg (by omega), if_neg (fun h => by have := h.2; omega)]

/-- **An `h:mm:ss` result is accepted unchanged when validated again** (idempotence, partial), for every event longer
    than 200 m whose code is not one of `800`, `1500`, `3000` (for those a text of three fields without a point is
    re-read as `mm:ss.cc`: the known finding `C12-idempotence-3000-hmmss`). -/
theorem C12_hmmss_idempotent_partial (hA : asciiDigitsOK = true) (disc t : Str) (d h m c : Nat)
    (hg : getDistance 8 disc = .ok (some d)) (h200 : 200 < d) (hh : 0 < h)
    (hno : strIn disc ["800", "1500", "3000"] = false) (hr : timedCore disc t = .time h m c) :
    m < 60 ∧ c < 6000 ∧ timedCore disc (formatTime h m c) = .time h m c := by
  have hd : 0 < d := by omega
  obtain ⟨h0, m0, sn0, dc0, hdec⟩ := timedCore_decided disc t (some d) hg h m c hr
  obtain ⟨_, h11, h10, hslow⟩ := C12_timed_speed_window disc d hd h0 m0 sn0 dc0 h m c hdec
  obtain ⟨hc', hm'⟩ := C12_timed_fields_below_60 disc (some d) h0 m0 sn0 (10 ^ dc0) dc0 h m c hdec
  have hc : c < 6000 := hc' (Or.inl hh)
  have hm : m < 60 := hm' hh
  refine ⟨hm, hc, ?_⟩
  have ha : c / 1000 < 10 := by omega
  have hb : c / 100 % 10 < 10 := by omega
  have he : c / 10 % 10 < 10 := by omega
  have hf : c % 10 < 10 := by omega
  have hpre : 2 ≤ (natStr h ++ [':'] ++ twoDigits m ++ [':']).length := by
    simp only [List.length_append, List.length_cons, List.length_nil, twoDigits]; omega
  have hfmt : formatTime h m c = stripTime ((natStr h ++ [':'] ++ twoDigits m ++ [':']) ++
      [digitChar0 (c / 1000), digitChar0 (c / 100 % 10), '.', digitChar0 (c / 10 % 10), digitChar0 (c % 10)]) := by
    unfold formatTime
    rw [if_pos hh, fmt52_lt6000 c hc]
  have hshape : ∀ sec : Str, (natStr h ++ [':'] ++ twoDigits m ++ [':']) ++ sec = natStr h ++ ':' :: (twoDigits m ++ ':' :: sec) := by
    intro sec; simp [List.append_assoc]
  rw [hfmt, stripTime_mss _ _ _ _ _ hpre (digitChar0_ne_dot' _ he) (digitChar0_ne_dot' _ hf)]
  have hcA := digitChar0_ne_colon _ ha
  have hcB := digitChar0_ne_colon _ hb
  have hcE := digitChar0_ne_colon _ he
  have hcF := digitChar0_ne_colon _ hf
  have hdot : ('.' : Char) ≠ ':' := by decide
  by_cases hF : digitChar0 (c % 10) = '0'
  · have f0 : c % 10 = 0 := (digitChar0_eq_zero _ hf).1 hF
    rw [if_neg (by simpa using hF)]
    by_cases hE : digitChar0 (c / 10 % 10) = '0'
    · have e0 : c / 10 % 10 = 0 := (digitChar0_eq_zero _ he).1 hE
      rw [if_neg (by simpa using hE), hshape]
      rw [timedCore_hmmss hA disc h m hh hm _ d hg h200 hno
        (by intro ch hch; simp only [List.mem_cons, List.mem_nil_iff, or_false] at hch; rcases hch with rfl | rfl <;> assumption)
        _ (floatOf_ss hA _ _ ha hb)]
      exact timedDecide_again_h disc d h m c _ 1 0 hd hh hm hc (Or.inl ⟨rfl, rfl⟩) (by omega) h11 h10 hslow
    · rw [if_pos (by simpa using hE), hshape]
      rw [timedCore_hmmss hA disc h m hh hm _ d hg h200 hno
        (by intro ch hch; simp only [List.mem_cons, List.mem_nil_iff, or_false] at hch; rcases hch with rfl | rfl | rfl | rfl <;> assumption)
        _ (floatOf_ss_c hA _ _ _ ha hb he)]
      exact timedDecide_again_h disc d h m c _ 10 1 hd hh hm hc (Or.inr (Or.inl ⟨rfl, rfl⟩)) (by omega) h11 h10 hslow
  · rw [if_pos (by simpa using hF), hshape]
    rw [timedCore_hmmss hA disc h m hh hm _ d hg h200 hno
      (by intro ch hch; simp only [List.mem_cons, List.mem_nil_iff, or_false] at hch; rcases hch with rfl | rfl | rfl | rfl | rfl <;> assumption)
      _ (floatOf_ss_cc hA _ _ _ _ ha hb he hf)]
    exact timedDecide_again_h disc d h m c _ 100 2 hd hh hm hc (Or.inr (Or.inr ⟨rfl, rfl⟩)) (by omega) h11 h10 hslow

theorem C12_hmmss_returned_unchanged (hA : asciiDigitsOK = true) (disc t : Str) (d h m c : Nat)
    (hg : getDistance 8 disc = .ok (some d)) (h200 : 200 < d) (hh : 0 < h)
    (hno : strIn disc ["800", "1500", "3000"] = false) (hr : timedCore disc t = .time h m c) :
    checkTimed disc t = .ok (formatTime h m c) ∧ checkTimed disc (formatTime h m c) = .ok (formatTime h m c) := by
  obtain ⟨_, _, h2⟩ := C12_hmmss_idempotent_partial hA disc t d h m c hg h200 hh hno hr
  unfold checkTimed
  rw [hr, h2]
  exact ⟨rfl, rfl⟩

/-- non-vacuity: a marathon in 2:10:00.00, returned as `2:10:00` -/
example : (match getDistance 8 "MAR".toList with | .ok (some 42195) => true | _ => false) = true ∧
    strIn "MAR".toList ["800", "1500", "3000"] = false ∧
    timedCore "MAR".toList "2:10:00.00".toList = .time 2 10 0 ∧ formatTime 2 10 0 = "2:10:00".toList := by decide +kernel
/-- and the excluded case: `3000` in 1:02:03.00 is returned as `1:02:03`, which is refused -/
example : timedCore "3000".toList "1:02:03.00".toList = .time 1 2 300 ∧ formatTime 1 2 300 = "1:02:03".toList ∧
    timedCore "3000".toList "1:02:03".toList = .refused := by decide +kernel

/-! ## idempotence, partial: events without a distance -/

/-- what an accepted time of an event without a distance satisfies (no speed window there) -/
theorem timedDecide_nodist (disc : Str) (h0 m0 sn0 sd0 dc0 h m c : Nat)
    (hr : timedDecide disc none h0 m0 sn0 sd0 dc0 = .time h m c) :
    ((h > 0 ∨ m > 0) → c < 6000) ∧ (h > 0 → m < 60) ∧ (strEq (upper disc) "XC" = true → h > 0 ∨ m > 0) := by
  obtain ⟨a, b⟩ := C12_timed_fields_below_60 disc none h0 m0 sn0 sd0 dc0 h m c hr
  refine ⟨a, b, fun hx => ?_⟩
  unfold timedDecide at hr
  split at hr
  · cases hr
  · have hne : (none == some 400) = false := rfl
    simp only [hne, Bool.false_and, Bool.false_eq_true, if_false] at hr
    unfold timedGuards at hr
    split at hr
    · cases hr
    · split at hr
      · cases hr
      · split at hr
        · cases hr
        · split at hr
          · cases hr
          · next hxc =>
            split at hr
            · cases hr
            · next hlast =>
              injection hr with e1 e2 e3
              subst e1; subst e2
              simp only [Bool.false_and, Bool.not_false, Bool.true_and, hx, Bool.and_eq_true, beq_iff_eq, not_and] at hlast
              omega

/-- the decision on fields that denote the same time again, for an event without a distance -/
theorem timedDecide_again_nodist (disc : Str) (h m c n' sd' k' : Nat) (hhm : 0 < h ∨ 0 < m) (hm : 0 < h → m < 60) (hc : c < 6000)
    (hsd : (sd' = 1 ∧ k' = 0) ∨ (sd' = 10 ∧ k' = 1) ∨ (sd' = 100 ∧ k' = 2)) (hn : n' * 100 = c * sd') :
    timedDecide disc none h m n' sd' k' = .time h m c := by
  have hfirst : (m == 0 && decide (n' ≥ 100 * sd')) = false := by
    have : ¬ (n' ≥ 100 * sd') := by
      rcases hsd with ⟨rfl, _⟩ | ⟨rfl, _⟩ | ⟨rfl, _⟩ <;> omega
    simp [this]
  have hne : (none == some 400) = false := rfl
  unfold timedDecide
  simp only [hfirst, Bool.false_eq_true, if_false, hne, Bool.false_and]
  unfold timedGuards speedBad
  have hq : n' * 100 / sd' = c := by
    rcases hsd with ⟨rfl, _⟩ | ⟨rfl, _⟩ | ⟨rfl, _⟩ <;> omega
  have hk : ¬ (k' > 2) := by rcases hsd with ⟨_, rfl⟩ | ⟨_, rfl⟩ | ⟨_, rfl⟩ <;> omega
  have h60 : ¬ (n' ≥ 60 * sd') := by rcases hsd with ⟨rfl, _⟩ | ⟨rfl, _⟩ | ⟨rfl, _⟩ <;> omega
  simp only [Bool.false_and, Bool.false_eq_true, if_false, hq, Bool.not_false, Bool.true_and]
  rw [if_neg (by simp; intro _; omega), if_neg (by simp; intro hh'; have := hm hh'; omega), if_neg (by simpa using hk)]
  rw [if_neg (by simp; intro _ hm0 hh0; omega)]

/-- **Events without a distance** (`XC`): an `m:ss` result is a fixed point of the timed branch — no speed window and none
    of the distance-dependent re-readings there. -/
theorem C12_mss_idempotent_nodist (hA : asciiDigitsOK = true) (disc t : Str) (m c : Nat)
    (hg : getDistance 8 disc = .ok none) (hm : 0 < m) (hr : timedCore disc t = .time 0 m c) :
    c < 6000 ∧ timedCore disc (formatTime 0 m c) = .time 0 m c := by
  obtain ⟨h0, m0, sn0, dc0, hdec⟩ := timedCore_decided disc t none hg 0 m c hr
  obtain ⟨hc', _, _⟩ := timedDecide_nodist disc h0 m0 sn0 (10 ^ dc0) dc0 0 m c hdec
  have hc : c < 6000 := hc' (Or.inr hm)
  refine ⟨hc, ?_⟩
  have ha : c / 1000 < 10 := by omega
  have hb : c / 100 % 10 < 10 := by omega
  have he : c / 10 % 10 < 10 := by omega
  have hf : c % 10 < 10 := by omega
  have hpre : 2 ≤ (natStr m ++ [':']).length := by
    have := natStrAux_ne_nil (m + 1) m [] (Or.inl (Nat.succ_pos _))
    have : (natStr m).length ≠ 0 := fun e => this (List.eq_nil_of_length_eq_zero e)
    simp only [List.length_append, List.length_cons, List.length_nil]; omega
  have hfmt : formatTime 0 m c = stripTime ((natStr m ++ [':']) ++
      [digitChar0 (c / 1000), digitChar0 (c / 100 % 10), '.', digitChar0 (c / 10 % 10), digitChar0 (c % 10)]) := by
    unfold formatTime
    rw [if_neg (by omega), if_pos hm, fmt52_lt6000 c hc]
  rw [hfmt, stripTime_mss _ _ _ _ _ hpre (digitChar0_ne_dot' _ he) (digitChar0_ne_dot' _ hf)]
  have hcA := digitChar0_ne_colon _ ha
  have hcB := digitChar0_ne_colon _ hb
  have hcE := digitChar0_ne_colon _ he
  have hcF := digitChar0_ne_colon _ hf
  have hdot : ('.' : Char) ≠ ':' := by decide
  by_cases hF : digitChar0 (c % 10) = '0'
  · have f0 : c % 10 = 0 := (digitChar0_eq_zero _ hf).1 hF
    rw [if_neg (by simpa using hF)]
    by_cases hE : digitChar0 (c / 10 % 10) = '0'
    · have e0 : c / 10 % 10 = 0 := (digitChar0_eq_zero _ he).1 hE
      rw [if_neg (by simpa using hE), List.append_assoc, List.singleton_append]
      rw [timedCore_mss_nodist hA disc m hm _ hg
        (by intro ch hch; simp only [List.mem_cons, List.mem_nil_iff, or_false] at hch; rcases hch with rfl | rfl <;> assumption)
        _ (floatOf_ss hA _ _ ha hb)]
      exact timedDecide_again_nodist disc 0 m c _ 1 0 (Or.inr hm) (fun h => absurd h (by omega)) hc (Or.inl ⟨rfl, rfl⟩) (by omega)
    · rw [if_pos (by simpa using hE), List.append_assoc, List.singleton_append]
      rw [timedCore_mss_nodist hA disc m hm _ hg
        (by intro ch hch; simp only [List.mem_cons, List.mem_nil_iff, or_false] at hch; rcases hch with rfl | rfl | rfl | rfl <;> assumption)
        _ (floatOf_ss_c hA _ _ _ ha hb he)]
      exact timedDecide_again_nodist disc 0 m c _ 10 1 (Or.inr hm) (fun h => absurd h (by omega)) hc (Or.inr (Or.inl ⟨rfl, rfl⟩)) (by omega)
  · rw [if_pos (by simpa using hF), List.append_assoc, List.singleton_append]
    rw [timedCore_mss_nodist hA disc m hm _ hg
      (by intro ch hch; simp only [List.mem_cons, List.mem_nil_iff, or_false] at hch; rcases hch with rfl | rfl | rfl | rfl | rfl <;> assumption)
      _ (floatOf_ss_cc hA _ _ _ _ ha hb he hf)]
    exact timedDecide_again_nodist disc 0 m c _ 100 2 (Or.inr hm) (fun h => absurd h (by omega)) hc (Or.inr (Or.inr ⟨rfl, rfl⟩)) (by omega)

/-- … and so is an `h:mm:ss` result (codes other than `800`, `1500`, `3000`, which have a distance anyway) -/
theorem C12_hmmss_idempotent_nodist (hA : asciiDigitsOK = true) (disc t : Str) (h m c : Nat)
    (hg : getDistance 8 disc = .ok none) (hh : 0 < h)
    (hno : strIn disc ["800", "1500", "3000"] = false) (hr : timedCore disc t = .time h m c) :
    m < 60 ∧ c < 6000 ∧ timedCore disc (formatTime h m c) = .time h m c := by
  obtain ⟨h0, m0, sn0, dc0, hdec⟩ := timedCore_decided disc t none hg h m c hr
  obtain ⟨hc', hm', _⟩ := timedDecide_nodist disc h0 m0 sn0 (10 ^ dc0) dc0 h m c hdec
  have hc : c < 6000 := hc' (Or.inl hh)
  have hm : m < 60 := hm' hh
  refine ⟨hm, hc, ?_⟩
  have ha : c / 1000 < 10 := by omega
  have hb : c / 100 % 10 < 10 := by omega
  have he : c / 10 % 10 < 10 := by omega
  have hf : c % 10 < 10 := by omega
  have hpre : 2 ≤ (natStr h ++ [':'] ++ twoDigits m ++ [':']).length := by
    simp only [List.length_append, List.length_cons, List.length_nil, twoDigits]; omega
  have hshape : ∀ sec : Str, (natStr h ++ [':'] ++ twoDigits m ++ [':']) ++ sec = natStr h ++ ':' :: (twoDigits m ++ ':' :: sec) := by
    intro sec; simp [List.append_assoc]
  have hfmt : formatTime h m c = stripTime ((natStr h ++ [':'] ++ twoDigits m ++ [':']) ++
      [digitChar0 (c / 1000), digitChar0 (c / 100 % 10), '.', digitChar0 (c / 10 % 10), digitChar0 (c % 10)]) := by
    unfold formatTime
    rw [if_pos hh, fmt52_lt6000 c hc]
  rw [hfmt, stripTime_mss _ _ _ _ _ hpre (digitChar0_ne_dot' _ he) (digitChar0_ne_dot' _ hf)]
  have hcA := digitChar0_ne_colon _ ha
  have hcB := digitChar0_ne_colon _ hb
  have hcE := digitChar0_ne_colon _ he
  have hcF := digitChar0_ne_colon _ hf
  have hdot : ('.' : Char) ≠ ':' := by decide
  by_cases hF : digitChar0 (c % 10) = '0'
  · have f0 : c % 10 = 0 := (digitChar0_eq_zero _ hf).1 hF
    rw [if_neg (by simpa using hF)]
    by_cases hE : digitChar0 (c / 10 % 10) = '0'
    · have e0 : c / 10 % 10 = 0 := (digitChar0_eq_zero _ he).1 hE
      rw [if_neg (by simpa using hE), hshape]
      rw [timedCore_hmmss_nodist hA disc h m hh hm _ hg hno
        (by intro ch hch; simp only [List.mem_cons, List.mem_nil_iff, or_false] at hch; rcases hch with rfl | rfl <;> assumption)
        _ (floatOf_ss hA _ _ ha hb)]
      exact timedDecide_again_nodist disc h m c _ 1 0 (Or.inl hh) (fun _ => hm) hc (Or.inl ⟨rfl, rfl⟩) (by omega)
    · rw [if_pos (by simpa using hE), hshape]
      rw [timedCore_hmmss_nodist hA disc h m hh hm _ hg hno
        (by intro ch hch; simp only [List.mem_cons, List.mem_nil_iff, or_false] at hch; rcases hch with rfl | rfl | rfl | rfl <;> assumption)
        _ (floatOf_ss_c hA _ _ _ ha hb he)]
      exact timedDecide_again_nodist disc h m c _ 10 1 (Or.inl hh) (fun _ => hm) hc (Or.inr (Or.inl ⟨rfl, rfl⟩)) (by omega)
  · rw [if_pos (by simpa using hF), hshape]
    rw [timedCore_hmmss_nodist hA disc h m hh hm _ hg hno
      (by intro ch hch; simp only [List.mem_cons, List.mem_nil_iff, or_false] at hch; rcases hch with rfl | rfl | rfl | rfl | rfl <;> assumption)
      _ (floatOf_ss_cc hA _ _ _ _ ha hb he hf)]
    exact timedDecide_again_nodist disc h m c _ 100 2 (Or.inl hh) (fun _ => hm) hc (Or.inr (Or.inr ⟨rfl, rfl⟩)) (by omega)

/-- non-vacuity: a cross-country run in 21:30, and in 1:02:03.5 -/
example : (match getDistance 8 "XC".toList with | .ok none => true | _ => false) = true ∧
    timedCore "XC".toList "21:30".toList = .time 0 21 3000 ∧ formatTime 0 21 3000 = "21:30".toList ∧
    timedCore "XC".toList "1:02:03.5".toList = .time 1 2 350 := by decide +kernel

/-- Full statement of the remaining clauses (NOT proved here). -/
def C12_statement : Prop :=
  ∀ d t g r, check d t g = .ok r → check d r g = .ok r

/-! non-vacuity (kernel-evaluated on the regenerated patterns): the test-suite examples -/
example : check "800".toList "2.33".toList "all".toList = .ok "2:33".toList := by decide +kernel
example : check "DEC".toList "5875".toList "all".toList = .ok "5875".toList := by decide +kernel
example : check "HJ".toList "25".toList "all".toList = .refused := by decide +kernel
example : check "100".toList "4:05:33".toList "all".toList = .refused := by decide +kernel

end AthlibVerif.Props.C12
