import AthlibVerif.Props.C06
/-!
# C18 — The JavaScript port computes the same answers as the Python reference

**What is proved and what is not.**  No theorem here speaks about node or about CPython.  The agreement of the two
ports is established by TWO CORRESPONDENCES on the same request lines — Python ↔ Lean model and JavaScript ↔ Lean
model (`tools/checks/c18.py`) — and is therefore partial by nature: it holds on the requests that were run
(exhaustive only over the finite grids of the thorough tier).  What the Lean side contributes:

* the shared reference is the C06 model (`roundUpStr`, `formatSeconds`, `parseHms`) plus `isHandTiming`; wherever
  both ports equal the model, both are *right* (every C06 theorem applies to both), not merely equal —
  `C18_agree_of_correspondence` is that inference spelled out;
* the JavaScript-specific step of `roundUpStrNum`, the float increment `(i - 0) + 1`, is exact on the shared domain:
  `C18_js_int_exact` (all naturals below 2^53 − 1, hence every digit string of at most 15 digits) and is NOT exact
  beyond it (`C18_js_int_inexact_witness`), which is why the correspondence guards JS requests to ≤ 15 digits;
* `C18_hand_timing`: the model of `is_hand_timing` / `isHandTiming` answers "fewer than two characters after the
  last point, or no point".

Tyrving / QuadKids scores, key normalisation and the duplicated tables are compared JS ↔ Python directly.
-/
namespace AthlibVerif.Props.C18
open AthlibVerif.Digits AthlibVerif.Times

/-- if each port equals the shared model on an input, the ports agree there and inherit whatever is proved of the
model -/
theorem C18_agree_of_correspondence {α β : Type} (py js model : α → β) (x : α)
    (hpy : py x = model x) (hjs : js x = model x) :
    py x = js x ∧ ∀ P : β → Prop, P (model x) → P (py x) ∧ P (js x) := by
  refine ⟨by rw [hpy, hjs], fun P h => ?_⟩
  rw [hpy, hjs]; exact ⟨h, h⟩

/-- number of binary digits (fuel ≥ the number itself is plenty) -/
def bitLen : Nat → Nat → Nat
  | 0, _ => 0
  | fuel + 1, n => if n = 0 then 0 else bitLen fuel (n / 2) + 1

/-- IEEE-754 binary64 rounding of a natural number (53 significant bits, round to nearest, ties to even; no
overflow below 2^1024): what JavaScript's `s - 0` and `x + 1` yield for integer-valued operands -/
def f64 (n : Nat) : Nat :=
  if n < 2 ^ 53 then n
  else
    let e := bitLen n n - 53
    let q := n / 2 ^ e
    let r := n % 2 ^ e
    (if 2 * r > 2 ^ e ∨ (2 * r = 2 ^ e ∧ q % 2 = 1) then q + 1 else q) * 2 ^ e

/-- the JavaScript increment `(i - 0) + 1` is exact whenever the result is below 2^53 -/
theorem C18_js_int_exact (n : Nat) (h : n + 1 < 2 ^ 53) : f64 (f64 n + 1) = n + 1 := by
  have h1 : f64 n = n := by unfold f64; rw [if_pos (by omega)]
  rw [h1]; unfold f64; rw [if_pos h]

/-- in particular for every digit string of at most 15 digits (the shared domain of `roundUpStrNum`) -/
theorem C18_js_int_exact_digits (l : List Char) (h : l.length ≤ 15) : f64 (f64 (val l) + 1) = val l + 1 := by
  apply C18_js_int_exact
  have h1 := val_lt l
  have h2 : 10 ^ l.length ≤ 10 ^ 15 := Nat.pow_le_pow_right (by omega) h
  have h3 : 10 ^ 15 + 1 < 2 ^ 53 := by decide
  omega

/-- and it is not exact in general: 2^53 + 1 is not a double -/
theorem C18_js_int_inexact_witness : f64 (f64 (2 ^ 53) + 1) ≠ 2 ^ 53 + 1 := by decide

theorem takeWhile_not_dot (l r : List Char) (h : '.' ∉ l) :
    (l ++ '.' :: r).takeWhile (fun c => decide (c ≠ '.')) = l := by
  induction l with
  | nil => simp
  | cons c cs ih =>
    have hc : c ≠ '.' := fun e => h (by simp [e])
    have hcs : '.' ∉ cs := fun e => h (by simp [e])
    simp only [List.cons_append, List.takeWhile, hc, ne_eq, not_false_eq_true, decide_true, ih hcs]

/-- hand timing: no decimal point at all, or fewer than two characters after the last one -/
theorem C18_hand_timing :
    (∀ s : List Char, '.' ∉ s → isHandTiming s = true) ∧
    (∀ a b : List Char, '.' ∉ b → isHandTiming (a ++ '.' :: b) = decide (b.length < 2)) := by
  constructor
  · intro s hs
    simp [isHandTiming, afterLastDot, hs]
  · intro a b hb
    have hc : (a ++ '.' :: b).contains '.' = true := List.contains_iff_mem.2 (by simp)
    have hr : (a ++ '.' :: b).reverse = b.reverse ++ '.' :: a.reverse := by simp
    have hb' : '.' ∉ b.reverse := by simpa using hb
    simp only [isHandTiming, afterLastDot, hc, if_true, hr, takeWhile_not_dot _ _ hb', List.length_reverse]

example : isHandTiming "12.0".toList = true ∧ isHandTiming "12.05".toList = false ∧ isHandTiming "12".toList = true ∧
    isHandTiming "1:02.3".toList = true := by decide

end AthlibVerif.Props.C18
