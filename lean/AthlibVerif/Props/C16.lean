import AthlibVerif.Lemmas.Conc
/-!
# C16 — Concurrent calls give the same answers as single-threaded ones

Model: `Model/Conc.lean` (threads = deterministic step machines over a shared store, one step = one athlib
source line or one lock-protected block; `runSched` follows an arbitrary list of thread ids).

For the protocols of the **repaired** code the theorems below say: after **every** schedule (any length, any
order, no fairness), for **any number of threads**, with the shared state initially unbuilt *or* already
built (first-call and warmed-up variants), every thread that has finished holds exactly the value a
single-threaded call returns.  `*_sequential` lemmas show that this value *is* what a thread running alone
computes (so the statements are not vacuous and the right-hand sides are the sequential results).
For the protocols of the **pinned** code the negation is proved by an explicit, kernel-decided schedule.

Partial by nature (DESIGN.md section 7/C16): bytecode-level pre-emption inside a source line, C-level dict
atomicity and free-threaded builds are below the model's granularity; the link from the source to these step
machines is the access-list discipline (`Oblig/C16/Discipline.lean`) plus the scheduler correspondence.
Core Lean only.
-/
namespace AthlibVerif.Props.C16
open AthlibVerif AthlibVerif.Conc

/-! ## lazy dictionary: build locally, publish once (`_scoring_objects`, Hungarian `_table` after the fix) -/

theorem C16_publish_after_build_linearizable (src : Table) (g0 : Option Table) (hg0 : g0 = none ∨ g0 = some src)
    (keys : List Nat) (sched : List Nat) (t : LazyT) (r : Option Nat)
    (ht : t ∈ (runSched (lazyStep src) (lazyInit g0 keys) sched).ts) (hd : t.pc = .done r) :
    r = src.lookup t.key := by
  have h := (runSched_inv (lazyStep src) (tableGI src) (lazyTI src) (lazyStep_inv src) (lazyInit g0 keys) hg0
    (by intro u hu; simp [lazyInit] at hu; obtain ⟨k, _, rfl⟩ := hu; simp [lazyTI]) sched).2 t ht
  simpa [lazyTI, hd] using h

/-- the shared cell is never observed half-built: it is unset or the complete table, after every schedule -/
theorem C16_published_table_complete (src : Table) (g0 : Option Table) (hg0 : g0 = none ∨ g0 = some src)
    (keys : List Nat) (sched : List Nat) :
    (runSched (lazyStep src) (lazyInit g0 keys) sched).g = none ∨
      (runSched (lazyStep src) (lazyInit g0 keys) sched).g = some src :=
  (runSched_inv (lazyStep src) (tableGI src) (lazyTI src) (lazyStep_inv src) (lazyInit g0 keys) hg0
    (by intro u hu; simp [lazyInit] at hu; obtain ⟨k, _, rfl⟩ := hu; simp [lazyTI]) sched).1

/-- the sequential result: a first call running alone finishes with `src.lookup key` -/
theorem C16_publish_after_build_sequential (src : Table) (k : Nat) :
    (runSched (lazyStep src) (lazyInit none [k]) (List.replicate (src.length + 5) 0)).ts =
      [{ pc := .done (src.lookup k), key := k }] := by
  simp only [lazyInit, List.map_cons, List.map_nil]
  rw [runSched_solo, lazy_solo]

/-- non-vacuity: three threads, an interleaved schedule, everybody finishes with the right answer -/
example : (runSched (lazyStep [(1, 10), (2, 20)]) (lazyInit none [1, 2, 3])
    [0, 1, 0, 1, 2, 0, 1, 0, 1, 2, 0, 1, 0, 1, 2, 0, 1, 2, 2, 2, 2, 2]).ts.map (·.pc) =
    [.done (some 10), .done (some 20), .done none] := by decide

/-- **pinned code**: `_scoring_objects = {}` is published before it is filled.  Thread 1 runs between thread
0's publication and its first insertion and is told that the (valid) key does not exist. -/
theorem publish_empty_then_fill_not_linearizable :
    ∃ (src : Table) (sched : List Nat),
      (runSched (lazyPinnedStep src) (lazyPinnedInit none [7, 7]) sched).ts[1]? =
        some { pc := .done none, key := 7 } ∧ src.lookup 7 = some 1 :=
  ⟨[(7, 1)], [0, 1, 1], by decide, by decide⟩

/-! ## assign after build (`sportshall_score._DB`, `AgeGrader._data`) -/

theorem C16_assign_after_build_linearizable (src : Table) (g0 : Option Table) (hg0 : g0 = none ∨ g0 = some src)
    (keys : List Nat) (sched : List Nat) (t : AssignT) (r : Option Nat)
    (ht : t ∈ (runSched (assignStep src) (assignInit g0 keys) sched).ts) (hd : t.pc = .done r) :
    r = src.lookup t.key := by
  have h := (runSched_inv (assignStep src) (tableGI src) (assignTI src) (assignStep_inv src) (assignInit g0 keys) hg0
    (by intro u hu; simp [assignInit] at hu; obtain ⟨k, _, rfl⟩ := hu; simp [assignTI]) sched).2 t ht
  simpa [assignTI, hd] using h

theorem C16_assign_after_build_sequential (src : Table) (k : Nat) :
    (runSched (assignStep src) (assignInit none [k]) (List.replicate 5 0)).ts =
      [{ pc := .done (src.lookup k), key := k }] := by
  simp only [assignInit, List.map_cons, List.map_nil]
  rw [runSched_solo]
  cases hl : src.lookup k <;> simp [iter, assignStep, hl]

/-! ## grader look-up (`calculate_factor`, `world_best` on the shared `ag2015/ag2023/aag`) -/

theorem C16_lookup_local_linearizable (G : Grader) (s0 : Scratch) (qs : List Query) (sched : List Nat)
    (t : LookT) (r : Nat)
    (ht : t ∈ (runSched (lookLocalStep G) (lookLocalInit s0 qs) sched).ts) (hd : t.pc = .done r) :
    r = lookSpec G t.q := by
  have h := (runSched_inv (lookLocalStep G) (fun _ => True) (fun _ t => lookTI G t)
    (fun s t _ ht => ⟨trivial, lookLocalStep_inv G s t ht, fun _ hu => hu⟩) (lookLocalInit s0 qs) trivial
    (by intro u hu; simp [lookLocalInit] at hu; obtain ⟨k, _, rfl⟩ := hu; simp [lookTI]) sched).2 t ht
  simpa [lookTI, hd] using h

theorem C16_lookup_local_sequential (G : Grader) (s0 : Scratch) (q : Query) :
    (runSched (lookLocalStep G) (lookLocalInit s0 [q]) [0, 0, 0]).ts = [{ pc := .done (lookSpec G q), q := q }] := by
  simp [runSched, stepW, lookLocalInit, lookLocalStep, lookSpec]

/-- the pinned protocol gives the same single-threaded answer … -/
theorem shared_scratch_sequential (G : Grader) (s0 : Scratch) (q : Query) :
    (runSched (lookSharedStep G) (lookSharedInit s0 [q]) [0, 0, 0]).ts = [{ pc := .done (lookSpec G q), q := q }] := by
  simp [runSched, stepW, lookSharedInit, lookSharedStep, lookSpec]

def demoGrader : Grader := { findRow := id, findAge := id, cell := fun fx ax => 10 * fx + ax }

/-- … but **pinned code** reads the row/age indices back from the shared object: thread 1's `find_age` and
`find_row` run between thread 0's and thread 0's read, and thread 0 silently returns thread 1's factor. -/
theorem shared_scratch_not_linearizable :
    ∃ (qs : List Query) (sched : List Nat),
      (runSched (lookSharedStep demoGrader) (lookSharedInit ⟨0, 0⟩ qs) sched).ts[0]? =
        some { pc := .done 34, q := ⟨1, 2⟩ } ∧ lookSpec demoGrader ⟨1, 2⟩ = 12 :=
  ⟨[⟨1, 2⟩, ⟨3, 4⟩], [0, 0, 1, 1, 0], by decide, by decide⟩

/-- the same schedule on the repaired protocol: both threads are right -/
example : (runSched (lookLocalStep demoGrader) (lookLocalInit ⟨0, 0⟩ [⟨1, 2⟩, ⟨3, 4⟩]) [0, 0, 1, 1, 0, 1]).ts.map (·.pc) =
    [.done 12, .done 34] := by decide

/-! ## bounded memo cache (`_schema_valid_cache`, `_valid_against_schema_cache`) -/

/-- any validation outcome `truth`, any capacity, any (consistent) initial cache contents -/
theorem C16_cache_linearizable (truth : Nat → Bool) (cap : Nat) (c0 : Cache) (hc0 : ∀ p ∈ c0, p.2 = truth p.1)
    (keys : List Nat) (sched : List Nat) (t : CacheT) (r : Bool)
    (ht : t ∈ (runSched (cacheStep truth cap) (cacheInit c0 keys) sched).ts) (hd : t.pc = .done r) :
    r = truth t.key := by
  have h := (runSched_inv (cacheStep truth cap) (cacheGI truth) (fun _ t => cacheTI truth t)
    (fun s t hg ht => ⟨(cacheStep_inv truth cap s t hg ht).1, (cacheStep_inv truth cap s t hg ht).2, fun _ hu => hu⟩)
    (cacheInit c0 keys) hc0
    (by intro u hu; simp [cacheInit] at hu; obtain ⟨k, _, rfl⟩ := hu; simp [cacheTI]) sched).2 t ht
  simpa [cacheTI, hd] using h

/-- the cache never grows beyond its limit, whatever the schedule -/
theorem C16_cache_bounded (truth : Nat → Bool) (cap : Nat) (hcap : 1 ≤ cap) (c0 : Cache) (hc0 : c0.length ≤ cap)
    (keys : List Nat) (sched : List Nat) :
    (runSched (cacheStep truth cap) (cacheInit c0 keys) sched).g.length ≤ cap :=
  (runSched_inv (cacheStep truth cap) (fun c => c.length ≤ cap) (fun _ _ => True)
    (fun s t hg _ => ⟨cacheStep_bounded truth cap hcap s t hg, trivial, fun _ _ => trivial⟩)
    (cacheInit c0 keys) hc0 (fun _ _ => trivial) sched).1

theorem C16_cache_sequential (truth : Nat → Bool) (cap : Nat) (c0 : Cache) (hc0 : ∀ p ∈ c0, p.2 = truth p.1) (k : Nat) :
    (runSched (cacheStep truth cap) (cacheInit c0 [k]) [0, 0]).ts = [{ pc := .done (truth k), key := k }] := by
  cases hl : c0.lookup k with
  | none => simp [runSched, stepW, cacheInit, cacheStep, hl]
  | some v =>
    have := hc0 _ (mem_of_lookup c0 k v hl)
    simp only at this
    simp [runSched, stepW, cacheInit, cacheStep, hl, this]

/-- non-vacuity: a full cache (limit 2), three threads, two misses and one hit -/
example : (runSched (cacheStep (fun k => k % 2 == 0) 2) (cacheInit [(9, false), (4, true)] [1, 2, 4])
    [0, 1, 2, 0, 1]).ts.map (·.pc) = [.done false, .done true, .done true] := by decide

/-- **pinned code**: `if t in cache:` and `return cache[t]` are two steps and eviction removes the newest
entry.  Thread 0 sees its key, thread 1 misses, evicts exactly that key, and thread 0's read raises
`KeyError` (`none`) although validation of key 1 yields `true`. -/
theorem cache_check_then_read_not_linearizable :
    ∃ (c0 : Cache) (sched : List Nat),
      (runSched (cachePinnedStep (fun _ => true) 2) (cachePinnedInit c0 [1, 2]) sched).ts[0]? =
        some { pc := .done none, key := 1 } ∧ c0.lookup 1 = some true :=
  ⟨[(9, true), (1, true)], [0, 1, 1, 0], by decide, by decide⟩

/-! ## the property, as far as the model goes -/

def C16_statement : Prop :=
  (∀ (src : Table) (g0 : Option Table), (g0 = none ∨ g0 = some src) → ∀ (keys sched : List Nat) (t : LazyT) (r : Option Nat),
      t ∈ (runSched (lazyStep src) (lazyInit g0 keys) sched).ts → t.pc = .done r → r = src.lookup t.key) ∧
  (∀ (src : Table) (g0 : Option Table), (g0 = none ∨ g0 = some src) → ∀ (keys sched : List Nat) (t : AssignT) (r : Option Nat),
      t ∈ (runSched (assignStep src) (assignInit g0 keys) sched).ts → t.pc = .done r → r = src.lookup t.key) ∧
  (∀ (G : Grader) (s0 : Scratch) (qs : List Query) (sched : List Nat) (t : LookT) (r : Nat),
      t ∈ (runSched (lookLocalStep G) (lookLocalInit s0 qs) sched).ts → t.pc = .done r → r = lookSpec G t.q) ∧
  (∀ (truth : Nat → Bool) (cap : Nat) (c0 : Cache), (∀ p ∈ c0, p.2 = truth p.1) → ∀ (keys sched : List Nat) (t : CacheT) (r : Bool),
      t ∈ (runSched (cacheStep truth cap) (cacheInit c0 keys) sched).ts → t.pc = .done r → r = truth t.key)

theorem C16 : C16_statement :=
  ⟨fun src g0 hg keys sched t r => C16_publish_after_build_linearizable src g0 hg keys sched t r,
   fun src g0 hg keys sched t r => C16_assign_after_build_linearizable src g0 hg keys sched t r,
   fun G s0 qs sched t r => C16_lookup_local_linearizable G s0 qs sched t r,
   fun truth cap c0 hc keys sched t r => C16_cache_linearizable truth cap c0 hc keys sched t r⟩

end AthlibVerif.Props.C16
