import AthlibVerif.Model.Codes
import AthlibVerif.Oblig.C07.Tie
import AthlibVerif.Oblig.C10.Groups
import AthlibVerif.Lemmas.Sym
/-!
# C10 — Every valid event code can be sorted, measured and classified without error

Over `Model/Codes.lean` (transcription of `discipline_sort_key`, `text_discipline_sort_key`,
`sort_by_discipline`, `get_distance`, …, on the patterns regenerated from `athlib/codes.py`).
Proved for all strings: the category of a key is determined by the first family that matches, in programme
order (track 1 < hurdles/steeplechase 2 < jumps 3 < throws 4 < relays 5 < other 6); zero-padded five-digit
rendering is an order isomorphism below 100 000 (so the text key sorts like the tuple key); the shape of the
text key; relay distance = legs × leg distance; the sorter keeps the number of entries.  Kernel-decided on
the regenerated data: the conventional field order HJ PV LJ TJ SP DT HT JT and totality of the field-order
look-up on every generic field code.
NOT proved (`C10_total_statement`): that no function fails on ANY accepted code — decided by the
correspondence over the enumerated language.
-/
namespace AthlibVerif.Props.C10
open AthlibVerif AthlibVerif.Codes

/-- the category is fixed by the first family that matches, tried in the order of the source:
    throws, hurdles (incl. steeplechase with a distance), jumps, relays, track, else "other" -/
theorem C10_category_of_family (d : Str) (k : Nat × Nat) (hd : d ≠ []) (h : sortKey d = .ok k) :
    k.1 = (if (pyMatch "PAT_THROWS" d).isSome then 4
           else if (pyMatch "PAT_HURDLES" d).isSome then 2
           else if (pyMatch "PAT_JUMPS" d).isSome then 3
           else if (pyMatch "PAT_RELAYS" d).isSome then 5
           else if (pyMatch "PAT_TRACK" d).isSome then 1 else 6) := by
  unfold sortKey at h
  have hne : d.isEmpty = false := by cases d <;> simp_all
  simp only [hne, Bool.false_eq_true, if_false] at h
  by_cases ht : (pyMatch "PAT_THROWS" d).isSome = true
  · simp only [ht, if_true] at h ⊢
    simp only [Except.map] at h; split at h
    · cases h
    · injection h with h; subst h; rfl
  · simp only [ht, Bool.false_eq_true, if_false] at h ⊢
    cases hh : pyMatch "PAT_HURDLES" d with
    | some hc =>
      simp only [hh, Option.isSome_some, if_true] at h ⊢
      split at h
      · simp only [Except.map] at h; split at h
        · cases h
        · injection h with h; subst h; rfl
      · cases h
    | none =>
      simp only [hh, Option.isSome_none, Bool.false_eq_true, if_false] at h ⊢
      by_cases hj : (pyMatch "PAT_JUMPS" d).isSome = true
      · simp only [hj, if_true] at h ⊢
        simp only [Except.map] at h; split at h
        · cases h
        · injection h with h; subst h; rfl
      · simp only [hj, Bool.false_eq_true, if_false] at h ⊢
        cases hr : pyMatch "PAT_RELAYS" d with
        | some rc =>
          simp only [hr, Option.isSome_some, if_true] at h ⊢
          repeat' split at h
          all_goals first | (injection h with h; subst h; rfl) | cases h
        | none =>
          simp only [hr, Option.isSome_none, Bool.false_eq_true, if_false] at h ⊢
          cases htr : pyMatch "PAT_TRACK" d with
          | some tc =>
            simp only [htr, Option.isSome_some, if_true] at h ⊢
            repeat' split at h
            all_goals first
              | (injection h with h; subst h; rfl)
              | cases h
              | (simp only [Except.map] at h; split at h
                 · cases h
                 · injection h with h; subst h; rfl)
          | none =>
            simp only [htr, Option.isSome_none, Bool.false_eq_true, if_false] at h ⊢
            injection h with h; subst h; rfl

/-- categories are 1..6 -/
theorem C10_category_range (d : Str) (k : Nat × Nat) (h : sortKey d = .ok k) : 1 ≤ k.1 ∧ k.1 ≤ 6 := by
  by_cases hd : d = []
  · subst hd
    unfold sortKey at h
    simp at h; subst h; decide
  · rw [C10_category_of_family d k hd h]
    repeat' split
    all_goals omega

/-- lexicographic `<` on digit lists -/
def ltNats : List Nat → List Nat → Bool
  | _, [] => false
  | [], _ :: _ => true
  | a :: as, b :: bs => if a < b then true else if b < a then false else ltNats as bs

/-- **Zero-padded five-digit rendering is an order isomorphism below 100 000** -/
theorem C10_pad5_iso (a b : Nat) (ha : a < 100000) (hb : b < 100000) :
    (ltNats (pad5Digits a) (pad5Digits b) = true ↔ a < b) ∧ (pad5Digits a = pad5Digits b ↔ a = b) := by
  unfold pad5Digits
  simp only [ltNats]
  constructor
  · constructor
    · intro h; repeat' split at h
      all_goals first | omega | (simp at h)
    · intro h; repeat' split
      all_goals first | rfl | omega
  · constructor
    · intro h; simp only [List.cons.injEq, and_true] at h; omega
    · intro h; subst h; rfl

/-- the text key is `<category>_<five-digit order>_<discipline>` -/
theorem C10_text_key_shape (d t : Str) (h : textKey d = .ok t) :
    ∃ k, sortKey d = .ok k ∧ t = natStr k.1 ++ ['_'] ++ pad5 k.2 ++ ['_'] ++ (if d.isEmpty then ['?'] else d) := by
  unfold textKey at h
  simp only [Except.map] at h
  split at h
  · cases h
  · next k hk => injection h with h; exact ⟨k, hk, h.symm⟩

/-- a text key exists exactly when a tuple key does -/
theorem C10_text_total_iff (d : Str) : (∃ t, textKey d = .ok t) ↔ (∃ k, sortKey d = .ok k) := by
  unfold textKey
  simp only [Except.map]
  split
  · next e he => simp [he]
  · next k hk => simp [hk]

/-- **Relay distance = legs × leg distance** (numeric or otherwise measurable leg) -/
theorem C10_relay_distance (fuel : Nat) (d : Str) (rc : GRE.Caps) (legs leg : Nat)
    (htok : firstToken d = .ok d)
    (h1 : strEq d "XC" = false) (h2 : strEq d "MAR" = false) (h3 : strEq d "HM" = false)
    (h4 : strIn d ["MILE", "CHUNDER-MILE"] = false)
    (hm : pyMatch "PAT_RELAYS" d = some rc)
    (hg : strIn (upper ((group d rc 2).getD [])) ["RELAY", "DMR", "SDMR"] = false)
    (hs1 : strEq (upper ((group d rc 2).getD [])) "SMR" = false)
    (hs2 : strEq (upper ((group d rc 2).getD [])) "SSMR" = false)
    (hs3 : strEq (upper ((group d rc 2).getD [])) "SWR" = false)
    (hlegs : pyInt ((group d rc 1).getD []) = .ok legs)
    (hleg : getDistance fuel (upper ((group d rc 2).getD [])) = .ok (some leg)) :
    getDistance (fuel + 1) d = .ok (some (legs * leg)) := by
  simp only [getDistance, htok, h1, h2, h3, h4, hm, hg, hs1, hs2, hs3, hlegs, hleg, Bool.false_eq_true, if_false]

theorem insTagged_length (x : Tagged) (l : List Tagged) : (insTagged x l).length = l.length + 1 := by
  induction l with
  | nil => rfl
  | cons a rest ih => simp only [insTagged]; split <;> simp [ih]

/-- the sorter returns as many entries as it was given -/
theorem C10_sort_length (l r : List Str) (h : sortBy l = .ok r) : r.length = l.length := by
  unfold sortBy at h
  split at h
  · cases h
  · next tagged ht =>
    injection h with h; subst h
    have hl : tagged.length = l.length := by
      induction l generalizing tagged with
      | nil => simp [List.mapM_nil] at ht; cases ht; rfl
      | cons d ds ih =>
        simp only [List.mapM_cons] at ht
        cases hk : (sortKey d).map (fun k => ((k, if d.isEmpty then ['?'] else d), d)) with
        | error e => rw [hk] at ht; cases ht
        | ok x =>
          rw [hk] at ht
          cases hr : ds.mapM (fun d => (sortKey d).map (fun k => ((k, if d.isEmpty then ['?'] else d), d))) with
          | error e => rw [hr] at ht; cases ht
          | ok xs =>
            rw [hr] at ht
            cases ht
            simp [ih xs hr]
    rw [List.length_map]
    suffices ∀ acc : List Tagged, (tagged.foldl (fun acc x => insTagged x acc) acc).length = acc.length + tagged.length by
      rw [this [], hl]; simp
    clear ht hl
    induction tagged with
    | nil => intro acc; rfl
    | cons x xs ih => intro acc; simp only [List.foldl_cons]; rw [ih, insTagged_length]; simp; omega

/-- the field-order look-up succeeds on every generic field code of `athlib.codes.FIELD_EVENTS`
    (throws with the four-letter look-up, jumps with the three-letter one) -/
theorem C10_fieldOrder_total_generic :
    (Gen.THROWS.all (fun c => match fieldOrder true c.toList with | .ok _ => true | .error _ => false) &&
     Gen.JUMPS.all (fun c => match fieldOrder false c.toList with | .ok _ => true | .error _ => false)) = true := by
  decide +kernel

def keyIs (c : String) (k : Nat × Nat) : Bool := match sortKey c.toList with | .ok k' => k' == k | .error _ => false

/-- **Conventional field order** HJ PV LJ TJ SP DT HT JT (jumps before throws), on the regenerated data -/
theorem C10_field_order :
    (keyIs "HJ" (3, 0) && keyIs "PV" (3, 2) && keyIs "LJ" (3, 3) && keyIs "TJ" (3, 5) &&
     keyIs "SP" (4, 7) && keyIs "DT" (4, 8) && keyIs "HT" (4, 9) && keyIs "JT" (4, 10)) = true := by
  decide +kernel

/-! ## the family tests are membership in the languages of C04; totality of the `int()` calls

`Lemmas/MatchSound.lean`: the backtracking matcher accepts exactly the language of its pattern and every
captured span is matched by the body of its group.  `Oblig/C07/Tie.lean`, `Oblig/C10/Groups.lean`: decided on
the regenerated patterns. -/

theorem pyMatch_eq_language {name : String} {p : RE} (h : (name, p) ∈ Gen.patternTable) (d : Str) :
    (pyMatch name d).isSome = p.matchesChars d := by
  have h1 := pyMatch_iff name p (Oblig.C07.tied h) d
  have h2 := matchesChars_iff p d
  cases ha : (pyMatch name d).isSome <;> cases hb : p.matchesChars d <;> simp_all

theorem mem_THROWS : ("PAT_THROWS", Gen.PAT_THROWS) ∈ Gen.patternTable := by decide +kernel
theorem mem_HURDLES : ("PAT_HURDLES", Gen.PAT_HURDLES) ∈ Gen.patternTable := by decide +kernel
theorem mem_JUMPS : ("PAT_JUMPS", Gen.PAT_JUMPS) ∈ Gen.patternTable := by decide +kernel
theorem mem_RELAYS : ("PAT_RELAYS", Gen.PAT_RELAYS) ∈ Gen.patternTable := by decide +kernel
theorem mem_TRACK : ("PAT_TRACK", Gen.PAT_TRACK) ∈ Gen.patternTable := by decide +kernel

/-- **The category is decided by language membership**: the first of throws, hurdles, jumps, relays, track
    (the languages of the C04 theorems) that contains the code, in that order; 6 when none does. -/
theorem C10_category_by_language (d : Str) (k : Nat × Nat) (hd : d ≠ []) (h : sortKey d = .ok k) :
    k.1 = (if Gen.PAT_THROWS.matchesChars d then 4
           else if Gen.PAT_HURDLES.matchesChars d then 2
           else if Gen.PAT_JUMPS.matchesChars d then 3
           else if Gen.PAT_RELAYS.matchesChars d then 5
           else if Gen.PAT_TRACK.matchesChars d then 1 else 6) := by
  rw [C10_category_of_family d k hd h, pyMatch_eq_language mem_THROWS, pyMatch_eq_language mem_HURDLES,
    pyMatch_eq_language mem_JUMPS, pyMatch_eq_language mem_RELAYS, pyMatch_eq_language mem_TRACK]

/-- **Hurdles never fail**: for every string the hurdles pattern accepts (and the throws pattern does not), the key
    is `(2, metres)` — the metres group always takes part and `int()` accepts whatever it can capture. -/
theorem C10_hurdles_total (d : Str) (hd : d ≠ []) (ht : (pyMatch "PAT_THROWS" d).isSome = false)
    (hh : (pyMatch "PAT_HURDLES" d).isSome = true) : ∃ n, sortKey d = .ok (2, n) := by
  have hO := Oblig.C10.hurdles_metres
  simp only [Bool.and_eq_true] at hO
  obtain ⟨hc, hhc⟩ := Option.isSome_iff_exists.1 hh
  obtain ⟨id, hid, t, hg⟩ := group_mandatory "PAT_HURDLES" [1] hO.2 d hc hhc
  simp only [List.mem_cons, List.mem_nil_iff, or_false] at hid
  subst hid
  obtain ⟨n, hn⟩ := group_int Oblig.C10.digit_table "PAT_HURDLES" 1 hO.1 d hc hhc t hg
  refine ⟨n, ?_⟩
  unfold sortKey
  have hne : d.isEmpty = false := by cases d <;> simp_all
  simp only [hne, ht, hhc, hg, hn, Bool.false_eq_true, if_false, Except.map]

/-- **`get_duration_event_time` never raises, on any string whatsoever.** -/
theorem C10_duration_total (s : Str) : ∃ r, durationTime s = .ok r := by
  have hO := Oblig.C10.duration_groups
  unfold Oblig.C10.durationGroupsOK at hO
  unfold durationTime
  simp only
  generalize (strip s).filter (· != ' ') = dev
  cases hm : pyMatch "PAT_RACES_FOR_DISTANCE" dev with
  | none => exact ⟨none, rfl⟩
  | some caps =>
    simp only
    cases hH : groupId "PAT_RACES_FOR_DISTANCE" "dhours" with
    | none => rw [hH] at hO; simp at hO
    | some idh =>
      cases hM : groupId "PAT_RACES_FOR_DISTANCE" "dmins" with
      | none => rw [hH, hM] at hO; simp at hO
      | some idm =>
        rw [hH, hM] at hO
        simp only [Bool.and_eq_true] at hO
        obtain ⟨⟨dH, dM⟩, hmand⟩ := hO
        simp only [Option.bind_some]
        cases hgh : group dev caps idh with
        | some t =>
          simp only
          by_cases hte : t.isEmpty = true
          · exact ⟨none, by simp [hte]⟩
          · obtain ⟨n, hn⟩ := group_int Oblig.C10.digit_table _ idh dH dev caps hm t hgh
            exact ⟨some (n * 3600), by simp [hte, hn, Except.map]⟩
        | none =>
          simp only
          cases hgm : group dev caps idm with
          | some t =>
            obtain ⟨n, hn⟩ := group_int Oblig.C10.digit_table _ idm dM dev caps hm t hgm
            exact ⟨some (n * 60), by simp [hn, Except.map]⟩
          | none =>
            obtain ⟨id, hid, t, hg⟩ := group_mandatory _ [idh, idm] hmand dev caps hm
            simp only [List.mem_cons, List.mem_nil_iff, or_false] at hid
            rcases hid with rfl | rfl
            · rw [hgh] at hg; cases hg
            · rw [hgm] at hg; cases hg

/-- **Throws never fail**: every string in the language of the throws pattern gets the key `(4, order)`. -/
theorem C10_throws_total (d : Str) (hd : d ≠ []) (ht : (pyMatch "PAT_THROWS" d).isSome = true) :
    ∃ n, sortKey d = .ok (4, n) := by
  have hM : Matches Gen.PAT_THROWS d := (pyMatch_iff _ _ (Oblig.C07.tied mem_THROWS) d).1 ht
  obtain ⟨n, hn⟩ := fieldOrder_total true Gen.PAT_THROWS Oblig.C10.throws_prefix d hM
  have hne : d.isEmpty = false := by cases d <;> simp_all
  exact ⟨n, by unfold sortKey; simp only [hne, ht, hn, Bool.false_eq_true, if_false, if_true, Except.map]⟩

/-- **Jumps never fail.** -/
theorem C10_jumps_total (d : Str) (hd : d ≠ []) (ht : (pyMatch "PAT_THROWS" d).isSome = false)
    (hh : pyMatch "PAT_HURDLES" d = none) (hj : (pyMatch "PAT_JUMPS" d).isSome = true) :
    ∃ n, sortKey d = .ok (3, n) := by
  have hM : Matches Gen.PAT_JUMPS d := (pyMatch_iff _ _ (Oblig.C07.tied mem_JUMPS) d).1 hj
  obtain ⟨n, hn⟩ := fieldOrder_total false Gen.PAT_JUMPS Oblig.C10.jumps_prefix d hM
  have hne : d.isEmpty = false := by cases d <;> simp_all
  exact ⟨n, by unfold sortKey; simp only [hne, ht, hh, hj, hn, Bool.false_eq_true, if_false, if_true, Except.map]⟩

/-- **Track codes with a metres part never fail**: the part is `\d+`, `MILE`, or a digit and `MILE`. -/
theorem C10_track_metres_total (d : Str) (tc : GRE.Caps) (g1 : Str)
    (hm : pyMatch "PAT_TRACK" d = some tc) (hg : group d tc 1 = some g1) :
    ∃ n, (if strEq g1 "MILE" then (Except.ok (1, 1609) : Except PyErr (Nat × Nat))
          else if endsWith g1 "MILE" then (pyInt (g1.take 1)).map (fun m => (1, 1609 * m))
          else (pyInt g1).map (fun n => (1, n))) = .ok (1, n) := by
  rcases track_metres_shape Oblig.C10.track_metres d tc g1 hm hg with ⟨hne, hdig⟩ | rfl | ⟨c, hc, rfl⟩
  · obtain ⟨n, hn⟩ := pyInt_of_digits Oblig.C10.digit_table g1 hne hdig
    have hne1 : g1.take 1 ≠ [] := by cases g1 <;> simp_all
    obtain ⟨m, hm1⟩ := pyInt_of_digits Oblig.C10.digit_table (g1.take 1) hne1
      (fun c hc => hdig c (List.mem_of_mem_take hc))
    split
    · exact ⟨_, rfl⟩
    · split
      · exact ⟨_, by rw [hm1]; rfl⟩
      · exact ⟨_, by rw [hn]; rfl⟩
  · have h1 : strEq mileWord "MILE" = true := by decide
    exact ⟨1609, by simp only [h1, if_true]⟩
  · obtain ⟨m, hm1⟩ := pyInt_of_digits Oblig.C10.digit_table [c] (by simp) (by simpa using hc)
    have h1 : strEq (c :: mileWord) "MILE" = false := by
      simp [strEq, mileWord]
    have h2 : endsWith (c :: mileWord) "MILE" = true := by
      simp [endsWith, mileWord]
    simp only [h1, h2, Bool.false_eq_true, if_false, if_true, List.take_succ_cons, List.take_zero, hm1, Except.map]
    exact ⟨_, rfl⟩

/-- **The sort key can only fail through `get_distance`**: for EVERY string, if `discipline_sort_key` fails then a
    `get_distance` call (on the code itself, for a track code without a metres part, or on the upper-cased leg of
    a relay whose leg is not a plain number) failed with that error.  Throws, hurdles, jumps, track codes with a
    metres part and strings outside every family always get a key. -/
theorem C10_sortKey_fails_only_through_getDistance (d : Str) (e : PyErr) (h : sortKey d = .error e) :
    ∃ x, getDistance 8 x = .error e := by
  by_cases hd : d = []
  · subst hd; simp [sortKey] at h
  by_cases ht : (pyMatch "PAT_THROWS" d).isSome = true
  · obtain ⟨n, hn⟩ := C10_throws_total d hd ht; rw [hn] at h; cases h
  have ht' : (pyMatch "PAT_THROWS" d).isSome = false := by simpa using ht
  cases hh : pyMatch "PAT_HURDLES" d with
  | some hc =>
    obtain ⟨n, hn⟩ := C10_hurdles_total d hd ht' (by rw [hh]; rfl); rw [hn] at h; cases h
  | none =>
    by_cases hj : (pyMatch "PAT_JUMPS" d).isSome = true
    · obtain ⟨n, hn⟩ := C10_jumps_total d hd ht' hh hj; rw [hn] at h; cases h
    have hj' : (pyMatch "PAT_JUMPS" d).isSome = false := by simpa using hj
    have hne : d.isEmpty = false := by cases d <;> simp_all
    unfold sortKey at h
    simp only [hne, ht', hh, hj', Bool.false_eq_true, if_false] at h
    cases hr : pyMatch "PAT_RELAYS" d with
    | some rc =>
      simp only [hr] at h
      split at h
      · cases h
      · split at h
        · cases h
        · cases h
        · next e' he' => injection h with h; subst h; exact ⟨_, he'⟩
    | none =>
      simp only [hr] at h
      cases htr : pyMatch "PAT_TRACK" d with
      | none => simp only [htr] at h; cases h
      | some tc =>
        simp only [htr] at h
        cases hg : group d tc 1 with
        | none =>
          simp only [hg] at h
          split at h
          · cases h
          · cases h
          · next e' he' => injection h with h; subst h; exact ⟨_, he'⟩
        | some g1 =>
          simp only [hg] at h
          obtain ⟨n, hn⟩ := C10_track_metres_total d tc g1 htr hg
          rw [hn] at h; cases h

/-- **`discipline_sort_key` never fails — on ANY string.**  Throws, hurdles, jumps and track codes with a metres part
    were shown above; a relay's leg (upper-cased) has a token that is not itself a relay, and so has a track code
    without a metres part, so their `get_distance` calls stay outside its relay branch and return
    (`Lemmas/DistTotal`, `DistToken`, `RelayLeg`); everything else gets the key `(6, 0)`. -/
theorem C10_sortKey_total (d : Str) : ∃ k, sortKey d = .ok k := by
  cases h : sortKey d with
  | ok k => exact ⟨k, rfl⟩
  | error e =>
    exfalso
    have hrelT := Oblig.C07.tied mem_RELAYS
    by_cases hd : d = []
    · subst hd; simp [sortKey] at h
    by_cases ht : (pyMatch "PAT_THROWS" d).isSome = true
    · obtain ⟨n, hn⟩ := C10_throws_total d hd ht; rw [hn] at h; cases h
    have ht' : (pyMatch "PAT_THROWS" d).isSome = false := by simpa using ht
    cases hh : pyMatch "PAT_HURDLES" d with
    | some hc =>
      obtain ⟨n, hn⟩ := C10_hurdles_total d hd ht' (by rw [hh]; rfl); rw [hn] at h; cases h
    | none =>
      by_cases hj : (pyMatch "PAT_JUMPS" d).isSome = true
      · obtain ⟨n, hn⟩ := C10_jumps_total d hd ht' hh hj; rw [hn] at h; cases h
      have hj' : (pyMatch "PAT_JUMPS" d).isSome = false := by simpa using hj
      have hne : d.isEmpty = false := by cases d <;> simp_all
      unfold sortKey at h
      simp only [hne, ht', hh, hj', Bool.false_eq_true, if_false] at h
      cases hr : pyMatch "PAT_RELAYS" d with
      | some rc =>
        simp only [hr] at h
        obtain ⟨r, hrr⟩ := relay_leg_ok Oblig.C10.digit_table Oblig.C10.leading Oblig.C10.relay_leg hrelT d rc hr 7
        split at h
        · cases h
        · rw [hrr] at h
          cases r <;> simp at h
      | none =>
        simp only [hr] at h
        cases htr : pyMatch "PAT_TRACK" d with
        | none => simp only [htr] at h; cases h
        | some tc =>
          simp only [htr] at h
          cases hg : group d tc 1 with
          | none =>
            simp only [hg] at h
            have hM : Matches Gen.PAT_TRACK d := (pyMatch_iff _ _ (Oblig.C07.tied mem_TRACK) d).1 (by rw [htr]; rfl)
            obtain ⟨r, hrr⟩ := getDistance_ok_of_language Oblig.C10.digit_table Oblig.C10.leading Gen.PAT_TRACK
              Oblig.C10.track_token hrelT 7 d hM
            rw [hrr] at h
            cases r <;> simp at h
          | some g1 =>
            simp only [hg] at h
            obtain ⟨n, hn⟩ := C10_track_metres_total d tc g1 htr hg
            rw [hn] at h; cases h

/-- … hence the text key and the sorter never fail either. -/
theorem C10_textKey_total (d : Str) : ∃ t, textKey d = .ok t :=
  (C10_text_total_iff d).2 (C10_sortKey_total d)

theorem C10_sortBy_total (l : List Str) : ∃ r, sortBy l = .ok r := by
  unfold sortBy
  have : ∀ l : List Str, ∃ tagged, l.mapM (fun d => (sortKey d).map (fun k => ((k, if d.isEmpty then ['?'] else d), d))) = .ok tagged := by
    intro l
    induction l with
    | nil => exact ⟨[], rfl⟩
    | cons d ds ih =>
      obtain ⟨k, hk⟩ := C10_sortKey_total d
      obtain ⟨ts, hts⟩ := ih
      refine ⟨((k, if d.isEmpty then ['?'] else d), d) :: ts, ?_⟩
      rw [List.mapM_cons, hk, hts]
      rfl
  obtain ⟨tagged, ht⟩ := this l
  rw [ht]; exact ⟨_, rfl⟩

theorem mem_EVENT_CODE : ("PAT_EVENT_CODE", Gen.PAT_EVENT_CODE) ∈ Gen.patternTable := by decide +kernel

/-- **`get_distance` returns on every event code that is not a relay** (whatever follows the first token). -/
theorem C10_getDistance_total_nonrelay (fuel : Nat) (s : Str) (hc : (pyMatch "PAT_EVENT_CODE" s).isSome = true)
    (hr : (pyMatch "PAT_RELAYS" s).isSome = false) : ∃ r, getDistance (fuel + 1) s = .ok r := by
  have h1 : Matches Gen.PAT_EVENT_CODE s := (pyMatch_iff _ _ (Oblig.C07.tied mem_EVENT_CODE) s).1 hc
  have h2 : ¬ Matches Gen.PAT_RELAYS s := by
    intro hm
    have := (pyMatch_iff _ _ (Oblig.C07.tied mem_RELAYS) s).2 hm
    rw [hr] at this; cases this
  exact getDistance_ok_of_language Oblig.C10.digit_table Oblig.C10.leading Oblig.C10.nonRelayCodes
    Oblig.C10.code_token (Oblig.C07.tied mem_RELAYS) fuel s ⟨h1, h2⟩

/-- What is proved of the totality clause: for every string the sort key, its text form, the sorter and the
    duration reader return; for every accepted code that is not a relay the distance estimator returns. -/
theorem C10_total_partial (s : Str) :
    (∃ k, sortKey s = .ok k) ∧ (∃ t, textKey s = .ok t) ∧ (∃ r, durationTime s = .ok r) ∧
    ((pyMatch "PAT_EVENT_CODE" s).isSome = true → (pyMatch "PAT_RELAYS" s).isSome = false →
      ∃ r, getDistance 8 s = .ok r) :=
  ⟨C10_sortKey_total s, C10_textKey_total s, C10_duration_total s, C10_getDistance_total_nonrelay 7 s⟩

theorem relay_facts : RelayFacts :=
  ⟨Oblig.C10.digit_table, Oblig.C10.leading, Oblig.C10.leading_shape, Oblig.C10.num_facts, Oblig.C10.relay_leg,
    Oblig.C10.leg_shape, Oblig.C07.tied mem_RELAYS, Oblig.C10.relays_legs⟩

/-- **`get_distance` returns on every event code**, relays included: the leg of a relay is a number with an optional
    unit letter — for which the greedy leading-number patterns leave exactly that letter, a unit the function knows — or one
    of the six names it treats specially, so `int(legs) * get_distance(leg)` never meets `None`
    (`Lemmas/Greedy`, `DistRelay`). -/
theorem C10_getDistance_total (s : Str) (hc : (pyMatch "PAT_EVENT_CODE" s).isSome = true) :
    ∃ r, getDistance 8 s = .ok r := by
  have h1 : Matches Gen.PAT_EVENT_CODE s := (pyMatch_iff _ _ (Oblig.C07.tied mem_EVENT_CODE) s).1 hc
  have hns : ∃ c ∈ s, isSpaceC c = false := by
    apply Classical.byContradiction
    intro hno
    have hall : ∀ c ∈ s, isSpaceC c = true := by
      intro c hc'
      cases hs : isSpaceC c with
      | true => rfl
      | false => exact (hno ⟨c, hc', hs⟩).elim
    exact RE.disjoint_of_check Gen.nsym 100000 _ _ Oblig.C10.codes_have_token _ (symsOf_inAlpha s) ⟨h1, lang_spaceStar s hall⟩
  obtain ⟨tok, htok⟩ := firstToken_ok s hns
  cases hm : pyMatch "PAT_RELAYS" tok with
  | none => exact getDistance_nonrelay_ok Oblig.C10.digit_table Oblig.C10.leading 7 s tok htok hm
  | some rc => exact getDistance_relay_ok relay_facts s tok rc htok hm 6

/-- Full statement of the totality clause. -/
def C10_total_statement : Prop :=
  ∀ s : Str, (pyMatch "PAT_EVENT_CODE" s).isSome →
    (∃ k, sortKey s = .ok k) ∧ (∃ r, getDistance 8 s = .ok r) ∧ (∃ r, durationTime s = .ok r)

/-- **C10, totality clause, proved**: for every string accepted as an event code the sort key, the distance estimator and
    the duration reader return a value. -/
theorem C10_total : C10_total_statement :=
  fun s hc => ⟨C10_sortKey_total s, C10_getDistance_total s hc, C10_duration_total s⟩

/-- non-vacuity: accepted codes of several families, kernel-evaluated through the model -/
def distIs (c : String) (n : Nat) : Bool := match getDistance 8 c.toList with | .ok (some m) => m == n | _ => false
example : (pyMatch "PAT_EVENT_CODE" "4x1.5K".toList).isSome = true ∧ distIs "4x1.5K" 6000 = true ∧
    (pyMatch "PAT_EVENT_CODE" "3000SC".toList).isSome = true ∧ distIs "3000SC" 3000 = true := by
  decide +kernel

end AthlibVerif.Props.C10
