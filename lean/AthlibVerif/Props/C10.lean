import AthlibVerif.Model.Codes
/-!
# C10 — Every valid event code can be sorted, measured and classified without error

Over `Model/Codes.lean` (transcription of `discipline_sort_key`, `text_discipline_sort_key`,
`sort_by_discipline`, `get_distance`, …, on the patterns regenerated from `athlib/codes.py`).
Proved for all strings: the category of a key is determined by the first family that matches, in programme
order (track 1 < hurdles/steeplechase 2 < jumps 3 < throws 4 < relays 5 < other 6); zero-padded five-digit
rendering is an order isomorphism below 100 000 (so the text key sorts like the tuple key); the shape of the
text key; relay distance = legs × leg distance; the sorter keeps the number of entries.  Kernel-decided on
the regenerated data: the conventional field order HJ PV LJ TJ SP DT HT JT and totality of the field-order
look-up on every generic field code.
NOT proved (`C10_total_statement`): that no function fails on ANY accepted code — decided by the
correspondence over the enumerated language.
-/
namespace AthlibVerif.Props.C10
open AthlibVerif AthlibVerif.Codes

/-- the category is fixed by the first family that matches, tried in the order of the source:
    throws, hurdles (incl. steeplechase with a distance), jumps, relays, track, else "other" -/
theorem C10_category_of_family (d : Str) (k : Nat × Nat) (hd : d ≠ []) (h : sortKey d = .ok k) :
    k.1 = (if (pyMatch "PAT_THROWS" d).isSome then 4
           else if (pyMatch "PAT_HURDLES" d).isSome then 2
           else if (pyMatch "PAT_JUMPS" d).isSome then 3
           else if (pyMatch "PAT_RELAYS" d).isSome then 5
           else if (pyMatch "PAT_TRACK" d).isSome then 1 else 6) := by
  unfold sortKey at h
  have hne : d.isEmpty = false := by cases d <;> simp_all
  simp only [hne, Bool.false_eq_true, if_false] at h
  by_cases ht : (pyMatch "PAT_THROWS" d).isSome = true
  · simp only [ht, if_true] at h ⊢
    simp only [Except.map] at h; split at h
    · cases h
    · injection h with h; subst h; rfl
  · simp only [ht, Bool.false_eq_true, if_false] at h ⊢
    cases hh : pyMatch "PAT_HURDLES" d with
    | some hc =>
      simp only [hh, Option.isSome_some, if_true] at h ⊢
      split at h
      · simp only [Except.map] at h; split at h
        · cases h
        · injection h with h; subst h; rfl
      · cases h
    | none =>
      simp only [hh, Option.isSome_none, Bool.false_eq_true, if_false] at h ⊢
      by_cases hj : (pyMatch "PAT_JUMPS" d).isSome = true
      · simp only [hj, if_true] at h ⊢
        simp only [Except.map] at h; split at h
        · cases h
        · injection h with h; subst h; rfl
      · simp only [hj, Bool.false_eq_true, if_false] at h ⊢
        cases hr : pyMatch "PAT_RELAYS" d with
        | some rc =>
          simp only [hr, Option.isSome_some, if_true] at h ⊢
          repeat' split at h
          all_goals first | (injection h with h; subst h; rfl) | cases h
        | none =>
          simp only [hr, Option.isSome_none, Bool.false_eq_true, if_false] at h ⊢
          cases htr : pyMatch "PAT_TRACK" d with
          | some tc =>
            simp only [htr, Option.isSome_some, if_true] at h ⊢
            repeat' split at h
            all_goals first
              | (injection h with h; subst h; rfl)
              | cases h
              | (simp only [Except.map] at h; split at h
                 · cases h
                 · injection h with h; subst h; rfl)
          | none =>
            simp only [htr, Option.isSome_none, Bool.false_eq_true, if_false] at h ⊢
            injection h with h; subst h; rfl

/-- categories are 1..6 -/
theorem C10_category_range (d : Str) (k : Nat × Nat) (h : sortKey d = .ok k) : 1 ≤ k.1 ∧ k.1 ≤ 6 := by
  by_cases hd : d = []
  · subst hd
    unfold sortKey at h
    simp at h; subst h; decide
  · rw [C10_category_of_family d k hd h]
    repeat' split
    all_goals omega

/-- lexicographic `<` on digit lists -/
def ltNats : List Nat → List Nat → Bool
  | _, [] => false
  | [], _ :: _ => true
  | a :: as, b :: bs => if a < b then true else if b < a then false else ltNats as bs

/-- **Zero-padded five-digit rendering is an order isomorphism below 100 000** -/
theorem C10_pad5_iso (a b : Nat) (ha : a < 100000) (hb : b < 100000) :
    (ltNats (pad5Digits a) (pad5Digits b) = true ↔ a < b) ∧ (pad5Digits a = pad5Digits b ↔ a = b) := by
  unfold pad5Digits
  simp only [ltNats]
  constructor
  · constructor
    · intro h; repeat' split at h
      all_goals first | omega | (simp at h)
    · intro h; repeat' split
      all_goals first | rfl | omega
  · constructor
    · intro h; simp only [List.cons.injEq, and_true] at h; omega
    · intro h; subst h; rfl

/-- the text key is `<category>_<five-digit order>_<discipline>` -/
theorem C10_text_key_shape (d t : Str) (h : textKey d = .ok t) :
    ∃ k, sortKey d = .ok k ∧ t = natStr k.1 ++ ['_'] ++ pad5 k.2 ++ ['_'] ++ (if d.isEmpty then ['?'] else d) := by
  unfold textKey at h
  simp only [Except.map] at h
  split at h
  · cases h
  · next k hk => injection h with h; exact ⟨k, hk, h.symm⟩

/-- a text key exists exactly when a tuple key does -/
theorem C10_text_total_iff (d : Str) : (∃ t, textKey d = .ok t) ↔ (∃ k, sortKey d = .ok k) := by
  unfold textKey
  simp only [Except.map]
  split
  · next e he => simp [he]
  · next k hk => simp [hk]

/-- **Relay distance = legs × leg distance** (numeric or otherwise measurable leg) -/
theorem C10_relay_distance (fuel : Nat) (d : Str) (rc : GRE.Caps) (legs leg : Nat)
    (htok : firstToken d = .ok d)
    (h1 : strEq d "XC" = false) (h2 : strEq d "MAR" = false) (h3 : strEq d "HM" = false)
    (h4 : strIn d ["MILE", "CHUNDER-MILE"] = false)
    (hm : pyMatch "PAT_RELAYS" d = some rc)
    (hg : strIn (upper ((group d rc 2).getD [])) ["RELAY", "DMR", "SDMR"] = false)
    (hs1 : strEq (upper ((group d rc 2).getD [])) "SMR" = false)
    (hs2 : strEq (upper ((group d rc 2).getD [])) "SSMR" = false)
    (hs3 : strEq (upper ((group d rc 2).getD [])) "SWR" = false)
    (hlegs : pyInt ((group d rc 1).getD []) = .ok legs)
    (hleg : getDistance fuel (upper ((group d rc 2).getD [])) = .ok (some leg)) :
    getDistance (fuel + 1) d = .ok (some (legs * leg)) := by
  simp only [getDistance, htok, h1, h2, h3, h4, hm, hg, hs1, hs2, hs3, hlegs, hleg, Bool.false_eq_true, if_false]

theorem insTagged_length (x : Tagged) (l : List Tagged) : (insTagged x l).length = l.length + 1 := by
  induction l with
  | nil => rfl
  | cons a rest ih => simp only [insTagged]; split <;> simp [ih]

/-- the sorter returns as many entries as it was given -/
theorem C10_sort_length (l r : List Str) (h : sortBy l = .ok r) : r.length = l.length := by
  unfold sortBy at h
  split at h
  · cases h
  · next tagged ht =>
    injection h with h; subst h
    have hl : tagged.length = l.length := by
      induction l generalizing tagged with
      | nil => simp [List.mapM_nil] at ht; cases ht; rfl
      | cons d ds ih =>
        simp only [List.mapM_cons] at ht
        cases hk : (sortKey d).map (fun k => ((k, if d.isEmpty then ['?'] else d), d)) with
        | error e => rw [hk] at ht; cases ht
        | ok x =>
          rw [hk] at ht
          cases hr : ds.mapM (fun d => (sortKey d).map (fun k => ((k, if d.isEmpty then ['?'] else d), d))) with
          | error e => rw [hr] at ht; cases ht
          | ok xs =>
            rw [hr] at ht
            cases ht
            simp [ih xs hr]
    rw [List.length_map]
    suffices ∀ acc : List Tagged, (tagged.foldl (fun acc x => insTagged x acc) acc).length = acc.length + tagged.length by
      rw [this [], hl]; simp
    clear ht hl
    induction tagged with
    | nil => intro acc; rfl
    | cons x xs ih => intro acc; simp only [List.foldl_cons]; rw [ih, insTagged_length]; simp; omega

/-- the field-order look-up succeeds on every generic field code of `athlib.codes.FIELD_EVENTS`
    (throws with the four-letter look-up, jumps with the three-letter one) -/
theorem C10_fieldOrder_total_generic :
    (Gen.THROWS.all (fun c => match fieldOrder true c.toList with | .ok _ => true | .error _ => false) &&
     Gen.JUMPS.all (fun c => match fieldOrder false c.toList with | .ok _ => true | .error _ => false)) = true := by
  decide +kernel

def keyIs (c : String) (k : Nat × Nat) : Bool := match sortKey c.toList with | .ok k' => k' == k | .error _ => false

/-- **Conventional field order** HJ PV LJ TJ SP DT HT JT (jumps before throws), on the regenerated data -/
theorem C10_field_order :
    (keyIs "HJ" (3, 0) && keyIs "PV" (3, 2) && keyIs "LJ" (3, 3) && keyIs "TJ" (3, 5) &&
     keyIs "SP" (4, 7) && keyIs "DT" (4, 8) && keyIs "HT" (4, 9) && keyIs "JT" (4, 10)) = true := by
  decide +kernel

/-- Full statement of the totality clause (NOT proved here). -/
def C10_total_statement : Prop :=
  ∀ s : Str, (pyMatch "PAT_EVENT_CODE" s).isSome →
    (∃ k, sortKey s = .ok k) ∧ (∃ r, getDistance 8 s = .ok r) ∧ (∃ r, durationTime s = .ok r)

end AthlibVerif.Props.C10
