import AthlibVerif.Model.Codes
import AthlibVerif.Oblig.C07.Tie
import AthlibVerif.Props.C04
/-!
# C07 — Event-code normalisation yields one canonical, valid, stable spelling

`Codes.normalize` transcribes `normalize_event_code` over the patterns regenerated from `athlib/codes.py`
(capture-reporting matcher, `Model/Match.lean`).  Proved here for **all** strings:
no result contains white space; a string is refused with `ValueError` exactly when the general pattern
rejects it (after stripping), and nothing else is ever raised; the shape of relay results; every group
normaliser ends in its canonical unit, and the zero-stripper removes exactly the zeros of the fraction and a
then-bare point (`normTz_spec`).
NOT proved (full statement `C07_statement`; decided by the correspondence over the enumerated language and
by the property oracle on the implementation): the result is accepted, idempotent and in the same families,
and variant spellings collapse.  (A reflection proof of "upper-casing closes the generic language" was
attempted and abandoned: without ACI-normalised derivatives the product automaton does not close in
reasonable time — see DESIGN.md.)
-/
namespace AthlibVerif.Props.C07
open AthlibVerif AthlibVerif.Codes

theorem mem_removeSpace (s : Str) (c : Char) (h : c ∈ removeSpace s) : isSpaceC c = false := by
  unfold removeSpace at h
  have := (List.mem_filter.1 h).2
  simpa using this

/-- **No white space** in any normalised code. -/
theorem C07_no_space (s r : Str) (h : normalize s = .ok r) : ∀ c ∈ r, isSpaceC c = false := by
  unfold normalize at h
  simp only at h
  split at h
  · cases h
  · split at h
    · injection h with h; subst h; exact fun c hc => mem_removeSpace _ c hc
    · injection h with h; subst h; exact fun c hc => mem_removeSpace _ c hc

/-- **Refusal.** A string the general pattern rejects (after stripping) is refused with `ValueError`. -/
theorem C07_refuses (s : Str) (h : pyMatch "PAT_EVENT_CODE" (strip s) = none) : normalize s = .error .valueError := by
  unfold normalize; simp only [h]

/-- … and only such strings are refused; no other error is ever raised. -/
theorem C07_accepts_only_codes (s : Str) :
    (∃ r, normalize s = .ok r) ↔ (pyMatch "PAT_EVENT_CODE" (strip s)).isSome := by
  unfold normalize
  simp only
  split
  · next h => simp [h]
  · next caps h =>
    simp only [h, Option.isSome_some, iff_true]
    split <;> exact ⟨_, rfl⟩

theorem C07_only_value_error (s : Str) (e : PyErr) (h : normalize s = .error e) : e = .valueError := by
  unfold normalize at h
  simp only at h
  split at h
  · injection h with h; exact h.symm
  · split at h <;> cases h

/-- relays: `<legs>x<LEG>` with the leg upper-cased, white space removed -/
theorem C07_relay_shape (s : Str) (rc caps : GRE.Caps)
    (h1 : pyMatch "PAT_EVENT_CODE" (strip s) = some caps) (h2 : pyMatch "PAT_RELAYS" (strip s) = some rc) :
    normalize s = .ok (removeSpace (((group (strip s) rc 1).getD []) ++ ['x'] ++ upper ((group (strip s) rc 2).getD []))) := by
  unfold normalize; simp only [h1, h2]

/-! ## the group normalisers -/

theorem dropEndWhileL_getLast (p : Char → Bool) (l : Str) (c : Char)
    (h : (dropEndWhileL p l).getLast? = some c) : p c = false := by
  unfold dropEndWhileL at h
  rw [List.getLast?_reverse] at h
  have := List.head?_dropWhile_not p l.reverse
  rw [h] at this
  simpa using this

/-- the stripped text does not end in white space -/
theorem strip_last (s : Str) (c : Char) (h : (strip s).getLast? = some c) : isSpaceC c = false :=
  dropEndWhileL_getLast isSpaceC _ c h

/-- **The zero-stripper.** Without a point the text is only stripped; with a point, the zeros at the end are
    removed and then one bare point: when the remaining text does not end in that point, it ends neither in
    `0` nor in `.` (e.g. `1.50` → `1.5`); when it does, exactly that point is removed (`100.0` → `100`). -/
theorem normTz_spec (s : Str) :
    ((strip s).contains '.' = false → normTz s = strip s) ∧
    ((strip s).contains '.' = true →
      let t := dropEndWhileL (· == '0') (strip s)
      (t.getLast? = some '.' → normTz s = t.dropLast) ∧
      (t.getLast? ≠ some '.' → normTz s = t ∧ ∀ c, t.getLast? = some c → c ≠ '0' ∧ c ≠ '.')) := by
  unfold normTz
  simp only
  constructor
  · intro h; rw [if_neg (by rw [h]; simp)]
  · intro h
    simp only [h, if_true]
    constructor
    · intro hl; simp [hl]
    · intro hl
      refine ⟨by simp [hl], ?_⟩
      intro c hc
      have h0 := dropEndWhileL_getLast (· == '0') _ c hc
      exact ⟨by simpa using h0, fun hcd => hl (by rw [hcd] at hc; exact hc)⟩

/-- every unit-bearing normaliser ends in its canonical unit -/
theorem C07_norm_kinds_end (s : Str) :
    (applyNorm .kg s).getLast? = some 'K' ∧ (∃ t, applyNorm .cm s = t ++ ['c', 'm']) ∧
    (applyNorm .m s).getLast? = some 'm' := by
  refine ⟨by simp [applyNorm], ⟨_, rfl⟩, by simp [applyNorm]⟩

/-! ## acceptance is membership in the language the C04 theorems speak about

The transcription matches with the capture-reporting backtracking matcher on the pattern rendered with groups;
`Lemmas/MatchSound.lean` proves that matcher sound and complete for the language of its pattern, and
`Oblig/C07/Tie.lean` ties the two renderings of every regenerated pattern.  Hence: -/

theorem mem_EVENT_CODE : ("PAT_EVENT_CODE", Gen.PAT_EVENT_CODE) ∈ Gen.patternTable := by decide +kernel

/-- the transcription's `PAT_EVENT_CODE.match(s)` is membership in the language of `PAT_EVENT_CODE` -/
theorem pyMatch_event_code (s : Str) : (pyMatch "PAT_EVENT_CODE" s).isSome = true ↔ Matches Gen.PAT_EVENT_CODE s :=
  pyMatch_iff _ _ (Oblig.C07.tied mem_EVENT_CODE) s

/-- **Accepted exactly on the language**: normalisation succeeds iff the stripped string is in the language of
    the general pattern — for every string. -/
theorem C07_accepts_iff_language (s : Str) :
    (∃ r, normalize s = .ok r) ↔ Matches Gen.PAT_EVENT_CODE (strip s) := by
  rw [C07_accepts_only_codes, pyMatch_event_code]

/-- … iff one of the ten specific families accepts it (with `C04`). -/
theorem C07_accepts_iff_family (s : Str) :
    (∃ r, normalize s = .ok r) ↔
      (Matches Gen.PAT_TRACK (strip s) ∨ Matches Gen.PAT_HURDLES (strip s) ∨ Matches Gen.PAT_ROAD (strip s) ∨
       Matches Gen.PAT_RELAYS (strip s) ∨ Matches Gen.PAT_JUMPS (strip s) ∨ Matches Gen.PAT_THROWS (strip s) ∨
       Matches Gen.PAT_MULTI (strip s) ∨ Matches Gen.PAT_RACES_FOR_DISTANCE (strip s) ∨
       Matches Gen.PAT_HIGHSCORING_EVENT (strip s) ∨ Matches Gen.PAT_LOWSCORING_EVENT (strip s)) := by
  rw [C07_accepts_iff_language]; exact Props.C04.C04_event_code (strip s)

/-- **Refused exactly off the language**, with `ValueError`. -/
theorem C07_refused_iff_not_code (s : Str) :
    normalize s = .error .valueError ↔ ¬ Matches Gen.PAT_EVENT_CODE (strip s) := by
  rw [← C07_accepts_iff_language]
  constructor
  · rintro h ⟨r, hr⟩; rw [h] at hr; cases hr
  · intro h
    cases hn : normalize s with
    | ok r => exact (h ⟨r, hn⟩).elim
    | error e => rw [C07_only_value_error s e hn]

/-- non-vacuity: a code and a non-code, kernel-evaluated through the matcher -/
example : (pyMatch "PAT_EVENT_CODE" "4x100".toList).isSome = true ∧ (pyMatch "PAT_EVENT_CODE" "4x".toList).isSome = false := by
  decide +kernel

/-- Full statement of the closure clauses (NOT proved here). -/
def C07_statement : Prop :=
  ∀ s r, normalize s = .ok r →
    (pyMatch "PAT_EVENT_CODE" r).isSome ∧ normalize r = .ok r

end AthlibVerif.Props.C07
