import AthlibVerif.Lemmas.RPow
import AthlibVerif.Oblig.C01.Table
/-!
# C01 — Combined-events points equal the official formula on the decimal mark

The model `Athlon.score` works on the decimal mark `k/100` (a `Nat` of hundredths) in integers.
Here it is proved equal to the World Athletics formula `⌊A · |x − Z| ^ X⌋` over the reals
(`Real.rpow`), with `x` the mark after the age factor rounded up (times) / down (distances) to 0.01.
Independence from binary floating point is by construction (no float in the model); that the
*implementation* equals the model on the whole grid is the correspondence (tools/checks/c01.py).
-/
namespace AthlibVerif.Props.C01
open AthlibVerif AthlibVerif.Athlon

noncomputable def A (r : ScoreRow) : ℝ := (r.aN : ℝ) / r.aD
noncomputable def Z (r : ScoreRow) : ℝ := (r.z100 : ℝ) / 100
noncomputable def X (r : ScoreRow) : ℝ := (r.xa : ℝ) / r.xb

/-- distance of the mark `k/100` from the zero point, in table units, on the scoring side (else 0) -/
noncomputable def dist (r : ScoreRow) (kind : EvKind) (k : ℕ) : ℝ :=
  max 0 (match kind with
    | .jump => (k : ℝ) - Z r             -- jumps are tabulated in centimetres: k/100 m = k cm
    | .throw => (k : ℝ) / 100 - Z r
    | .track => Z r - (k : ℝ) / 100)

def WellFormed (r : ScoreRow) : Prop := 0 < r.aN ∧ 0 < r.aD ∧ 0 < r.xa ∧ 0 < r.xb

theorem base_cast (r : ScoreRow) (kind : EvKind) (k : ℕ) : ((base r kind k : ℕ) : ℝ) / 100 = dist r kind k := by
  unfold base dist Z
  cases kind <;> simp only
  · by_cases h : r.z100 ≤ 100 * k
    · rw [Nat.cast_sub h]; push_cast
      rw [max_eq_right]
      · ring
      · have : (r.z100 : ℝ) ≤ 100 * k := by exact_mod_cast h
        linarith
    · have h' : 100 * k - r.z100 = 0 := by omega
      rw [h', max_eq_left]
      · simp
      · have : (100 * k : ℝ) < r.z100 := by exact_mod_cast (Nat.lt_of_not_le h)
        linarith
  · by_cases h : r.z100 ≤ k
    · rw [Nat.cast_sub h, max_eq_right]
      · ring
      · have : (r.z100 : ℝ) ≤ k := by exact_mod_cast h
        linarith
    · have h' : k - r.z100 = 0 := by omega
      rw [h', max_eq_left]
      · simp
      · have : (k : ℝ) < r.z100 := by exact_mod_cast (Nat.lt_of_not_le h)
        linarith
  · by_cases h : k ≤ r.z100
    · rw [Nat.cast_sub h, max_eq_right]
      · ring
      · have : (k : ℝ) ≤ r.z100 := by exact_mod_cast h
        linarith
    · have h' : r.z100 - k = 0 := by omega
      rw [h', max_eq_left]
      · simp
      · have : (r.z100 : ℝ) < k := by exact_mod_cast (Nat.lt_of_not_le h)
        linarith

/-- **The formula.** For every well-formed row, every kind and every mark: the model's points are
    `⌊A · |x − Z|^X⌋` in exact real arithmetic (0 at or beyond the zero point). -/
theorem C01_formula (r : ScoreRow) (kind : EvKind) (k : ℕ) (h : WellFormed r) :
    points r kind k = ⌊A r * dist r kind k ^ X r⌋₊ := by
  unfold points A X
  rw [← base_cast, floorPow_eq_floor_rpow _ _ _ _ _ _ h.2.2.2 h.2.1 (by norm_num)]
  norm_num

/-- **Rounding after the age factor** (Galois form): for times the adjusted mark is the least
    hundredth not below `k·f`; for distances the greatest hundredth not above it. -/
theorem C01_rounding (k fN fD : ℕ) (hD : 0 < fD) :
    (∀ m, adjust .track k fN fD ≤ m ↔ k * fN ≤ m * fD) ∧
    (∀ m, m ≤ adjust .jump k fN fD ↔ m * fD ≤ k * fN) ∧
    (∀ m, m ≤ adjust .throw k fN fD ↔ m * fD ≤ k * fN) :=
  ⟨fun m => ceilDiv_le_iff _ _ m hD, fun m => le_floorDiv_iff _ _ m hD, fun m => le_floorDiv_iff _ _ m hD⟩

/-- the same in real arithmetic: ceiling / floor of `k · (fN/fD)` -/
theorem C01_rounding_real (k fN fD : ℕ) (hD : 0 < fD) :
    adjust .track k fN fD = ⌈(k : ℝ) * ((fN : ℝ) / fD)⌉₊ ∧
    adjust .throw k fN fD = ⌊(k : ℝ) * ((fN : ℝ) / fD)⌋₊ ∧
    adjust .jump k fN fD = ⌊(k : ℝ) * ((fN : ℝ) / fD)⌋₊ := by
  have hD' : (0 : ℝ) < fD := by exact_mod_cast hD
  have e : (k : ℝ) * ((fN : ℝ) / fD) = ((k * fN : ℕ) : ℝ) / fD := by push_cast; ring
  refine ⟨?_, ?_, ?_⟩
  · apply le_antisymm
    · rw [(C01_rounding k fN fD hD).1, e]
      have := Nat.le_ceil (((k * fN : ℕ) : ℝ) / fD)
      rw [div_le_iff₀ hD'] at this
      exact_mod_cast this
    · rw [Nat.ceil_le, e, div_le_iff₀ hD']
      have := ((C01_rounding k fN fD hD).1 (adjust .track k fN fD)).1 (le_refl _)
      exact_mod_cast this
  · rw [e]; unfold adjust floorDiv; simp only
    rw [Nat.floor_div_eq_div]
  · rw [e]; unfold adjust floorDiv; simp only
    rw [Nat.floor_div_eq_div]

/-- **Young athletes.** An age below the first masters band leaves the score unadjusted. -/
theorem C01_young_unadjusted (tbl : List ScoreRow) (er : ScoreRow) (d : AgeData) (g e : String) (k age : ℕ)
    (esaa : Bool) (h : age < d.minAge) :
    score tbl er d g e k (some age) esaa = score tbl er d g e k none esaa := by
  cases age with
  | zero => rfl
  | succ n => simp [score, ageFactor, h]

/-- **Unknown pairs.** An unknown gender/event pair yields no score, whatever the age and option;
    a known pair without age adjustment always yields points. -/
theorem C01_unknown_none (tbl : List ScoreRow) (er : ScoreRow) (d : AgeData) (g e : String) (k : ℕ) (esaa : Bool) :
    (∀ age, lookup tbl g (remap g e) = none → score tbl er d g e k age esaa = .none) ∧
    (∀ r, lookup tbl g (remap g e) = some r → ∃ p, score tbl er d g e k none esaa = .points p) := by
  constructor
  · intro age h; simp only [score]; rw [h]
  · intro r h; simp only [score]; rw [h]; exact ⟨_, rfl⟩

/-- every row regenerated from `athlon_score.py` (and the ESAA override) is a well-formed power law -/
theorem C01_table_wellformed : ∀ r ∈ Gen.esaaRow :: Gen.scoringTable, WellFormed r := by
  intro r hr
  have := List.all_eq_true.1 Oblig.C01.table_ok r hr
  simp only [Oblig.C01.rowOK, Bool.and_eq_true, decide_eq_true_eq] at this
  exact ⟨this.1.1.1, this.1.1.2, this.1.2, this.2⟩

private theorem esaa_or_row_mem (c : Bool) (row : ScoreRow) (h : row ∈ Gen.scoringTable) :
    (if c = true then Gen.esaaRow else row) ∈ Gen.esaaRow :: Gen.scoringTable := by
  split
  · exact List.mem_cons_self
  · exact List.mem_cons_of_mem _ h

/-- whatever the model returns as points for the regenerated tables is the formula on the adjusted mark -/
theorem C01_points_are_formula (g e : String) (k : ℕ) (age : Option ℕ) (esaa : Bool) (p : ℕ)
    (h : score Gen.scoringTable Gen.esaaRow Gen.athlonAges g e k age esaa = .points p) :
    ∃ r kind fN, r ∈ Gen.esaaRow :: Gen.scoringTable ∧
      p = ⌊A r * dist r kind (adjust kind k fN Gen.athlonAges.scale) ^ X r⌋₊ := by
  unfold score at h
  simp only at h
  split at h
  · cases h
  · next row hrow =>
    have hmem : row ∈ Gen.scoringTable := List.mem_of_find?_eq_some hrow
    split at h
    · next e' _ => cases e' <;> cases h
    · next fN hf =>
      injection h with h
      subst h
      exact ⟨_, _, fN, esaa_or_row_mem _ row hmem, C01_formula _ _ _ (C01_table_wellformed _ (esaa_or_row_mem _ row hmem))⟩

/-! non-vacuity, kernel-evaluated on the regenerated table: 10.22 s for the men's 100 m is 1042 points
    (the float evaluation `ceil(100*10.22) = 1023` would give 1040); a 40-year-old's 11.00 s is 942 -/
example : score Gen.scoringTable Gen.esaaRow Gen.athlonAges "M" "100" 1022 none false = .points 1042 := by decide +kernel
example : score Gen.scoringTable Gen.esaaRow Gen.athlonAges "M" "100" 1100 (some 40) false = .points 942 := by decide +kernel
example : score Gen.scoringTable Gen.esaaRow Gen.athlonAges "X" "100" 1100 none false = .none := by decide +kernel

end AthlibVerif.Props.C01
