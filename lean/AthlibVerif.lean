import AthlibVerif.Model.Regex
import AthlibVerif.Lemmas.RegexSound
import AthlibVerif.Lemmas.Sym














import AthlibVerif.Props.C04
