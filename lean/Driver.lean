import AthlibVerif.Drv.Regex
import AthlibVerif.Drv.Athlon
/-!
Line-protocol driver: one request per line (`area<TAB>cmd<TAB>arg…`), one reply per line.
Imports only the import-free models and the generated data, so it also links as `lean_exe`.
-/
open AthlibVerif AthlibVerif.Drv

def handle (line : String) : String :=
  match line.splitOn "\t" with
  | "rx" :: rest => handleRegex rest
  | "ath" :: rest => handleAthlon rest
  | _ => "bad-area"

partial def loop (h : IO.FS.Stream) (out : IO.FS.Stream) : IO Unit := do
  let line ← h.getLine
  if line.isEmpty then return ()
  let l := if line.endsWith "\n" then (line.dropEnd 1).toString else line
  out.putStrLn (handle l)
  loop h out

def main : IO Unit := do
  let out ← IO.getStdout
  loop (← IO.getStdin) out
