import AthlibVerif.Drv.Regex
import AthlibVerif.Drv.Athlon
import AthlibVerif.Drv.HJ
import AthlibVerif.Drv.Cache
import AthlibVerif.Drv.Uka
import AthlibVerif.Drv.Implements
import AthlibVerif.Drv.Conc
import AthlibVerif.Drv.Codes
import AthlibVerif.Drv.Junior
import AthlibVerif.Drv.Wma
import AthlibVerif.Drv.Times
import AthlibVerif.Drv.Perf
/-!
Line-protocol driver: one request per line (`area<TAB>cmd<TAB>arg…`), one reply per line.
Imports only the import-free models and the generated data, so it also links as `lean_exe`.
-/
open AthlibVerif AthlibVerif.Drv

structure DrvState where
  hj : HJState := {}

def handle (st : DrvState) (line : String) : DrvState × String :=
  match line.splitOn "\t" with
  | "rx" :: rest => (st, handleRegex rest)
  | "ath" :: rest => (st, handleAthlon rest)
  | "cache" :: rest => (st, handleCache rest)
  | "uka" :: rest => (st, handleUka rest)
  | "imp" :: rest => (st, handleImplements rest)
  | "conc" :: rest => (st, handleConc rest)
  | "cd" :: rest => (st, handleCodes rest)
  | "jr" :: rest => (st, handleJunior rest)
  | "wma" :: rest => (st, handleWma rest)
  | "tm" :: rest => (st, handleTimes rest)
  | "pf" :: rest => (st, handlePerf rest)
  | "hj" :: rest => let (c, out) := handleHJ st.hj rest; ({ st with hj := c }, out)
  | _ => (st, "bad-area")

partial def loop (h : IO.FS.Stream) (out : IO.FS.Stream) (st : DrvState) : IO Unit := do
  let line ← h.getLine
  if line.isEmpty then return ()
  let l := if line.endsWith "\n" then (line.dropEnd 1).toString else line
  let (st', r) := handle st l
  out.putStrLn r
  loop h out st'

def main : IO Unit := do
  let out ← IO.getStdout
  loop (← IO.getStdin) out {}
