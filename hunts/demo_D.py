#!/venv/bin/python
"""Reproduces the findings of FINDINGS.md.  usage: /venv/bin/python demo.py /tmp/hunt_D
exit status 1 if any finding reproduces, 0 otherwise."""
import sys, os, json, math, subprocess

ROOT = os.path.abspath(sys.argv[1] if len(sys.argv) > 1 else '/tmp/hunt_D')
sys.path.insert(0, ROOT)
from athlib.utils import parse_hms, normalize_event_code, format_seconds_as_time
from athlib.tyrving_score import tyrving_score
from athlib.qkids_score import qkids_score
from fractions import Fraction

# ---------------------------------------------------------------- JS side
# js/src/*.js are ES-module-ish files: import {..} from './x.js' lines are rewritten
# to a destructuring of the loaded module, module.exports is kept; evaluated with new Function.
JS = r"""
const fs = require('fs'), path = require('path');
const dir = path.join(process.argv[1], 'js', 'src');
const cache = {};
function load(name) {
  if (cache[name]) return cache[name].exports;
  let src = fs.readFileSync(path.join(dir, name), 'utf8');
  src = src.replace(/import\s*\{([^}]*)\}\s*from\s*['"]\.\/([\w.]+)['"];?/g,
    (m, names, file) => `const {${names}} = __req(${JSON.stringify(file)});`);
  const module = { exports: {} };
  cache[name] = module;
  new Function('module', 'exports', '__req', src)(module, module.exports, load);
  return module.exports;
}
const F = Object.assign({}, load('utils.js'), load('tyrving_score.js'), load('qkids_score.js'));
const inp = JSON.parse(fs.readFileSync(0, 'utf8'));
process.stdout.write(JSON.stringify(inp.map(([fn, args]) => {
  try {
    let v = F[fn].apply(null, args);
    if (typeof v === 'number' && !isFinite(v)) return { v: String(v) };
    return { v };
  } catch (e) { return { e: String(e.message || e) }; }
})));
"""

def js_calls(calls):
    p = subprocess.run(['/usr/bin/node', '-e', JS, ROOT], input=json.dumps(calls),
                       capture_output=True, text=True)
    if p.returncode:
        print('node failed:', p.stderr[:400])
        return [{'e': 'node failed'}] * len(calls)
    return json.loads(p.stdout)

PYF = dict(parseHms=parse_hms, normalizeEventCode=normalize_event_code,
           tyrvingScore=tyrving_score, qkidsScore=qkids_score)

def py_call(fn, args):
    try:
        v = PYF[fn](*args)
        if isinstance(v, float) and not math.isfinite(v):
            return {'v': str(v)}
        return {'v': v}
    except ValueError as e:
        return {'e': 'ValueError: %s' % e}
    except Exception as e:
        return {'e': '%s: %s' % (type(e).__name__, e)}

def show(r):
    return ('returns %r' % (r['v'],)) if 'v' in r else ('refuses (%s)' % r['e'][:60])

def agree(a, b):
    if 'e' in a and 'e' in b:
        return True
    return 'v' in a and 'v' in b and a['v'] == b['v'] and type(a['v']) in (int, float, str) \
        and not (isinstance(a['v'], str) and a['v'] in ('NaN', 'nan'))

reproduced = []

def differential(title, calls):
    print('=' * 78)
    print(title)
    js = js_calls(calls)
    hit = False
    for (fn, args), j in zip(calls, js):
        p = py_call(fn, args)
        same = agree(p, j)
        hit = hit or not same
        print('  %s(%s)' % (fn, ', '.join(map(repr, args))))
        print('      expected: both languages return the same value or both refuse')
        print('      Python %s | JS %s  -> %s' % (show(p), show(j), 'agree' if same else 'DISAGREE'))
    print('  reproduced:', hit)
    if hit:
        reproduced.append(title)

differential('F1 C18: Tyrving race mark with a decimal comma (Python refuses, JS scores; Python field events accept it)', [
    ['tyrvingScore', ['M', 12, '100', '13,55']],
    ['tyrvingScore', ['F', 10, '40', '6,60']],
    ['tyrvingScore', ['M', 14, '800', '2:09,00']],
    ['tyrvingScore', ['M', 12, 'HJ', '1,50']],      # control: field event, both accept the comma
])

differential('F2 C18: empty / blank performance text is scored by JS, refused by Python', [
    ['tyrvingScore', ['M', 12, '100', '']],
    ['tyrvingScore', ['M', 12, '1500', ' ']],
    ['tyrvingScore', ['M', 12, 'HJ', '']],
    ['qkidsScore', ['QKWL', 'LJ', '']],
    ['qkidsScore', ['QKWL', '75', '']],
])

differential('F3 C18: parseHms with an empty field returns NaN, parse_hms raises ValueError', [
    ['parseHms', ['1:']],
    ['parseHms', [':30']],
    ['parseHms', ['1::30']],
    ['parseHms', ['1;']],
    ['parseHms', ['']],
])

differential('F4 C18: normalizeEventCode of a hurdles code with start distance equal to / contained in the spacing', [
    ['normalizeEventCode', ['200H76.2cm18.29m8.29m']],
    ['normalizeEventCode', ['80H76.2cm8m8m']],
    ['normalizeEventCode', ['300H76.20cm35.0m5.0m']],
    ['normalizeEventCode', ['100H84cm8.50m8.50m']],
    ['normalizeEventCode', ['100H84cm8.5m13m']],       # control: agrees
])

differential('F5 C18: JS returns NaN (a value) where Python refuses', [
    ['tyrvingScore', ['F', 12, '300', '1;00.00']],
    ['qkidsScore', ['QKWL', 'LJ', '4,50']],
    ['tyrvingScore', ['M', 12, 'HJ', '1.50m']],
])

differential('F6 C18: tyrving_score.js takes PAT_RUN from utils.js (not exported there): hand-timing gate differs for a padded code', [
    ['tyrvingScore', ['M', 12, ' 100', '13.5']],
    ['tyrvingScore', ['M', 12, '100', '13.5']],        # control: agrees (959 both)
])

differential('F7 C18: exponent spelling of a field: Python reads the float, JS parseInt stops at the e', [
    ['parseHms', ['1:1e1']],
    ['parseHms', ['1e1']],
    ['qkidsScore', ['QKWL', '75', '1e1']],
])

# ---------------------------------------------------------------- C06
print('=' * 78)
title = 'F8 C06: parse_hms is not the exact sexagesimal value (one ulp low/high); format -> parse can land below the duration'
print(title)
hit = False
for t in ['1:35.98', '7:34.833', '10:45.036']:
    exact = Fraction(0)
    for x in t.split(':'):
        exact = exact * 60 + Fraction(x)
    exp = float(exact)
    got = parse_hms(t)
    bad = got != exp
    hit = hit or bad
    print('  parse_hms(%r): expected %r (nearest float of %s), actual %r -> %s' % (t, exp, exact, got, 'DIFFERENT' if bad else 'ok'))
for d, p in [(174.455, 3), (88.641, 3), (999.666, 3)]:
    t = format_seconds_as_time(d, p)
    back = parse_hms(t)
    bad = back < d
    hit = hit or bad
    print('  format_seconds_as_time(%r, %d) = %r ; parse_hms -> %r ; expected >= %r -> %s' % (d, p, t, back, d, 'BELOW' if bad else 'ok'))
print('  reproduced:', hit)
if hit:
    reproduced.append(title)

print('=' * 78)
print('%d finding(s) reproduced' % len(reproduced))
for t in reproduced:
    print('  -', t)
sys.exit(1 if reproduced else 0)
