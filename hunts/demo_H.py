#!/usr/bin/env python
"""demo for hunt_H (properties C04, C19).

usage: /venv/bin/python demo.py /tmp/hunt_H

Exit status 1 if a *finding* reproduces, 0 otherwise.  The "observations" are
printed for information only (they are outside the stated domain or break no
stated clause) and never change the exit status.
"""
import sys, os, io, contextlib, itertools, shutil, subprocess, tempfile

root = os.path.abspath(sys.argv[1] if len(sys.argv) > 1 else '/tmp/hunt_H')
sys.path.insert(0, root)

from athlib import codes
from athlib.codes import PAT_THROWS, PAT_JUMPS, PAT_TRACK, PAT_ROAD, PAT_HURDLES
from athlib.wma.agegrader import AgeGrader
from athlib.utils import discipline_sort_key

reproduced = 0


def first_match(code, families):
    for name, pat in families:
        if pat.match(code):
            return name
    return None


print('=' * 78)
print('F1  C04, clause "classifying a code by the first family that matches gives')
print('    the same answer in any order" -- AgeGrader.event_code_to_kind')
print('    (athlib/wma/agegrader.py:86-95) lists PAT_TRACK and PAT_ROAD as two')
print('    families, and they overlap.')
FAMS = (('throw', PAT_THROWS), ('jump', PAT_JUMPS), ('track', PAT_TRACK), ('road', PAT_ROAD))
for code in ('MILE', 'MILEW', '100W', '5W', '20W'):
    lib = AgeGrader.event_code_to_kind(code)
    answers = sorted(set(first_match(code, p) for p in itertools.permutations(FAMS)))
    bad = len(answers) > 1
    reproduced += bad
    print('    %-6r library order -> %-6r ; over all 24 orders of the same four families -> %r   %s'
          % (code, lib, answers, 'ORDER-DEPENDENT' if bad else 'ok'))
print('    expected: one answer whatever the order; actual: track or road.')
print('    (same shape in athlib/utils.py discipline_sort_key: PAT_HURDLES is tried')
k = discipline_sort_key('110H')
print('     before PAT_TRACK on purpose; %r -> group %d, but PAT_TRACK matches it too: %s)'
      % ('110H', k[0], bool(PAT_TRACK.search('110H'))))

print()
print('=' * 78)
print('C04 formal clauses (union exactness, pairwise disjointness of timed / field /')
print('multi / fixed-duration): NO counterexample -- see FINDINGS.md for the sweep.')
print('C19 (history independence, samples, offline $ref): NO counterexample in the')
print('stated domain -- see FINDINGS.md for the sweep.')

print()
print('=' * 78)
print('OBSERVATIONS (not counted; outside the stated domain / no clause broken)')

# O1: $ref resolution depends on the install path
print('O1  C19 "relative file references resolve": install directory with # or %XX')
work = tempfile.mkdtemp(prefix='demo_', dir=os.path.dirname(os.path.abspath(__file__)))
try:
    for d in ('plain', 'a#b', 'c%41d'):
        dst = os.path.join(work, d)
        os.mkdir(dst)
        for sub in ('athlib', 'json', 'sample-jsons'):
            shutil.copytree(os.path.join(root, sub), os.path.join(dst, sub),
                            ignore=shutil.ignore_patterns('__pycache__'))
        code = ("import sys,os;sys.path.insert(0,%r);os.chdir(%r)\n"
                "from athlib.utils import valid_against_schema\n"
                "try: print(valid_against_schema('sample-jsons/event.json','json/event.json'))\n"
                "except Exception as e: print(type(e).__name__, str(e)[:90])\n") % (dst, work)
        p = subprocess.run([sys.executable, '-c', code], capture_output=True, text=True)
        print('    install dir %-8r valid_against_schema(event sample, event schema) -> %s'
              % (d, p.stdout.strip() or p.stderr.strip()[-120:]))
finally:
    shutil.rmtree(work, ignore_errors=True)

# O2: __all__ of athlib.utils names a helper that does not exist
print('O2  athlib.utils.__all__ lists "validate_against_schema" (the function is valid_against_schema):')
try:
    exec('from athlib.utils import *', {})
    print('    from athlib.utils import *  -> ok')
except Exception as e:
    print('    from athlib.utils import *  -> %s: %s' % (type(e).__name__, e))

# O3: SPB
from athlib.utils import check_performance_for_discipline as cp
print('O3  "SPB" is a valid code of the custom high-scoring family only, but is not in CUSTOM_EVENTS:')
print('    PAT_EVENT_CODE %s, PAT_HIGHSCORING_EVENT %s, in CUSTOM_EVENTS %s'
      % (bool(codes.PAT_EVENT_CODE.match('SPB')), bool(codes.PAT_HIGHSCORING_EVENT.match('SPB')),
         'SPB' in codes.CUSTOM_EVENTS))
for code in ('SPB', 'BAL'):
    out = []
    for v in ('65', '165', '1:05'):
        try:
            out.append(cp(code, v))
        except Exception as e:
            out.append(type(e).__name__)
    print('    check_performance_for_discipline(%r, 65 / 165 / 1:05) -> %r' % (code, out))

print()
print('findings reproduced: %d' % reproduced)
sys.exit(1 if reproduced else 0)
