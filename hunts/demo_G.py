#!/venv/bin/python
"""Reproduce the findings of FINDINGS.md on an unchanged athlib tree.

usage: /venv/bin/python demo.py /tmp/hunt_G
exit status 1 if any finding reproduces, 0 otherwise.
"""
import sys
import os
import json
import subprocess
from datetime import date

root = sys.argv[1] if len(sys.argv) > 1 else '/tmp/hunt_G'
sys.path.insert(0, root)

import athlib                                            # noqa: E402
from athlib import ag2015, ag2023, aag                   # noqa: E402
from athlib.uka.agegroups import calc_uka_age_group     # noqa: E402

reproduced = []


def call(f, *a, **k):
    try:
        return f(*a, **k)
    except Exception as e:                      # noqa
        return 'RAISED %s: %s' % (type(e).__name__, e)


def report(fid, title, rows, bad):
    print('=' * 78)
    print('%s  %s' % (fid, title))
    for r in rows:
        print('   ' + r)
    print('   -> %s' % ('REPRODUCED' if bad else 'not reproduced'))
    if bad:
        reproduced.append(fid)


# --------------------------------------------------------------------------
# F1  C15: road spellings between 5 km and 10 km are graded from the TRACK rows
# --------------------------------------------------------------------------
rows = []
bad = False
for year, ag in ((2023, ag2023), (2015, ag2015)):
    for g in 'mf':
        a = ag.world_best(g, '6K')
        b = ag.world_best(g, '6.01K')
        rows.append("%s world_best(%r,'6K')=%s  world_best(%r,'6.01K')=%.2f   expected: 6.01K >= 6K"
                    % (year, g, a, g, b))
        if b < a:
            bad = True
f6, f7, f8 = (ag2023.calculate_factor('f', 80, e) for e in ('6K', '7K', '8K'))
rows.append("2023 factor('f',80,'6K')=%.4f  '7K'=%.4f  '8K'=%.4f   expected: 7K between 6K and 8K"
            % (f6, f7, f8))
if not (min(f6, f8) <= f7 <= max(f6, f8)):
    bad = True
x, y = ag2023.world_best('m', '5K'), ag2023.world_best('m', '5.0K')
rows.append("2023 world_best('m','5K')=%s but world_best('m','5.0K')=%s   expected: equal" % (x, y))
if x != y:
    bad = True
g1 = athlib.wma_age_grade('m', 80, '8K', '45:00')
g2 = athlib.wma_age_grade('m', 80, '8.01K', '45:00')
rows.append("wma_age_grade('m',80,'8K','45:00')=%.4f  '8.01K' same time=%.4f   (10 m more in the same time is worth +1.4%%: the standard jumps from the road to the track row)"
            % (g1, g2))
report('F1', 'C15 road spellings 5-10 km use the track rows (best time falls as distance grows)', rows, bad)

# --------------------------------------------------------------------------
# F2  C15: miles are 1609 m in get_distance but 1609.344 m in the table
# --------------------------------------------------------------------------
rows = []
bad = False
for ag, year in ((ag2023, 2023), (ag2015, 2015)):
    for g in 'mf':
        for base, nxt in (('50M', '50.01M'), ('100M', '100.01M'), ('100M', '100.02M')):
            a = ag.world_best(g, base)
            b = ag.world_best(g, nxt)
            rows.append("%s world_best(%r,%r)=%s  world_best(%r,%r)=%.2f   expected: >= %s (between %s and the next longer row)"
                        % (year, g, base, a, g, nxt, b, a, base))
            if b < a:
                bad = True
report('F2', "C15 open best just past a mile row is below the row's own best", rows[:6] + ['...'], bad)

# --------------------------------------------------------------------------
# F3  C14: year given as the text "2015" selects the 2023 table
# --------------------------------------------------------------------------
rows = []
bad = False
ref = athlib.AgeGrader(year="2015").calculate_factor('m', 50, '100')
got_s = athlib.wma_age_factor('m', 50, '100', year="2015")
got_i = athlib.wma_age_factor('m', 50, '100', year=2015)
rows.append("AgeGrader(year='2015').calculate_factor('m',50,'100') = %s" % ref)
rows.append("wma_age_factor('m',50,'100',year=2015)   = %s" % got_i)
rows.append("wma_age_factor('m',50,'100',year='2015') = %s   expected %s" % (got_s, ref))
wb_s = athlib.wma_world_best('m', '100', year="2015")
rows.append("wma_world_best('m','100',year='2015') = %s   expected %s (2015 table)" %
            (wb_s, ag2015.world_best('m', '100')))
gr_s = athlib.wma_age_grade('m', 50, '100', 11.0, year="2015")
rows.append("wma_age_grade('m',50,'100',11.0,year='2015') = %s   expected %s" %
            (gr_s, ag2015.calculate_age_grade('m', 50, '100', 11.0)))
if got_s != ref or wb_s != ag2015.world_best('m', '100'):
    bad = True
report('F3', "C14 wrappers: year='2015' (the documented default's own type) silently uses the 2023 table", rows, bad)

# --------------------------------------------------------------------------
# F4  C13: ROAD on 31 Aug / XC on 31 Aug-30 Sep use the wrong 31 August
# --------------------------------------------------------------------------
rows = []
bad = False
cases = [
    (date(2011, 8, 31), date(2024, 8, 31), 'ROAD', 'U13',
     'Rule 207: year runs 1 Sep-31 Aug, so 31 Aug 2024 is still in 2023/24; age on 31 Aug 2023 = 12'),
    (date(2011, 8, 31), date(2024, 9, 15), 'XC', 'U13',
     'Rule 507: year runs 1 Oct-30 Sep, so 15 Sep 2024 is still in 2023/24; age on 31 Aug 2023 = 12'),
    (date(2004, 8, 31), date(2024, 9, 30), 'XC', 'U20',
     'age on 31 Aug 2023 (prior to the 2023/24 year) = 19'),
]
for b, m, cat, exp, why in cases:
    got = call(calc_uka_age_group, b, m, cat)
    rows.append("calc_uka_age_group(%s, %s, %r) = %s   expected %s  (%s)" % (b, m, cat, got, exp, why))
    if got != exp:
        bad = True
report('F4', 'C13 cut-off 31 August is not the one "prior to the commencement of the Competition Year"', rows, bad)

# --------------------------------------------------------------------------
# F5  C14: combined-events grade uses the age-40 factor as "open best"
# --------------------------------------------------------------------------
rows = []
bad = False
wb = call(aag.world_best, 'm', '100')
rows.append("aag.world_best('m','100') = %s   expected an open best time for 100 m (9.58 in the 2023 table), not the age-40 factor" % wb)
gr = call(athlib.wma_athlon_age_grade, 'm', 40, '100', '11.0')
exp = 9.58 / 0.9668 / 11.0
rows.append("wma_athlon_age_grade('m',40,'100','11.0') = %s   expected about %.4f" % (gr, exp))
if isinstance(wb, float) and wb < 2:
    bad = True
fa = call(athlib.wma_athlon_age_factor, 'f', 69, '100H')
gg = call(athlib.wma_athlon_age_grade, 'f', 69, '100H', '20.0')
rows.append("wma_athlon_age_factor('f',69,'100H') = %s  but wma_athlon_age_grade('f',69,'100H','20.0') = %s" % (fa, gg))
if isinstance(gg, str) and gg.startswith('RAISED IndexError'):
    bad = True
report('F5', 'C14 combined-events age grade: world_best() reads a factor column', rows, bad)

# --------------------------------------------------------------------------
# F6  C14: lower-case spelling of the tabulated mile events is refused
# --------------------------------------------------------------------------
rows = []
bad = False
for ev in ('4M', '5M', '10M', '50M', '100M'):
    up = call(athlib.wma_age_factor, 'f', 50, ev, year=2023)
    lo = call(athlib.wma_age_factor, 'f', 50, ev.lower(), year=2023)
    rows.append("wma_age_factor('f',50,%r)=%s   wma_age_factor('f',50,%r)=%s" % (ev, up, ev.lower(), lo))
    if up != lo:
        bad = True
rows.append("(every other tabulated code, in every mixed-case spelling, gives identical results: '5k', 'mile', 'hm', 'marw', '2mt', 'sh', 'pv' ...)")
report('F6', 'C14 event codes differing only in letter case: the five N-mile road rows', rows, bad)

# --------------------------------------------------------------------------
# F7  C13: the JS port of calc_uka_age_group
# --------------------------------------------------------------------------
rows = []
bad = False
node = '/usr/bin/node'
js_cases = [
    ((2010, 8, 20), (2023, 6, 1), 'TF', True, False),
    ((1980, 1, 1), (2023, 6, 1), 'TF', True, False),
    ((1988, 6, 1), (2023, 6, 1), 'TF', True, False),
    ((1980, 1, 1), (2023, 6, 1), 'XC', False, False),
    ((2005, 10, 1), (2023, 1, 15), 'XC', True, False),
]
JS = r"""
const fs=require('fs');
let src=fs.readFileSync(process.argv[1]+'/js/src/uka_agegroups.js','utf8');
src=src.replace(/^\s*import .*$/mg,'').replace(/^\s*export\s+(default\s+)?/mg,'');
const m={exports:{}};
new Function('module','exports',src)(m,m.exports);
const f=m.exports.calcUkaAgeGroup;
const cases=JSON.parse(process.argv[2]);
console.log(JSON.stringify(cases.map(c=>{try{return f(new Date(c[0][0],c[0][1]-1,c[0][2]),
  new Date(c[1][0],c[1][1]-1,c[1][2]),c[2],c[3],c[4]);}catch(e){return 'RAISED '+e.message}})));
"""
if os.path.exists(node):
    try:
        out = subprocess.run([node, '-e', JS, root, json.dumps(js_cases)],
                             capture_output=True, text=True, timeout=60)
        js = json.loads(out.stdout)
        for c, j in zip(js_cases, js):
            py = calc_uka_age_group(date(*c[0]), date(*c[1]), c[2], vets=c[3], underage=c[4])
            rows.append("born %s, meeting %s, %s, vets=%s: Python %s   JS calcUkaAgeGroup %r"
                        % (date(*c[0]), date(*c[1]), c[2], c[3], py, j))
            if py != j:
                bad = True
    except Exception as e:                                  # noqa
        rows.append('could not run node: %r' % e)
else:
    rows.append('node not found, skipped')
report('F7', 'C13 JS port disagrees with Python (11 Aug cut-off, unexpanded template, >35, vets ignored)', rows, bad)

# --------------------------------------------------------------------------
# F8  C14: smaller items
# --------------------------------------------------------------------------
rows = []
bad = False
r = call(ag2015.calculate_factor, 'f', 105, 'PV')
rows.append("ag2015.calculate_factor('f',105,'PV') = %s   expected: the last tabulated factor (age 90: %s) or a clean refusal"
            % (r, ag2015.calculate_factor('f', 90, 'PV')))
if isinstance(r, str) and 'TypeError' in r:
    bad = True
r = call(ag2023.calculate_age_grade, 'f', 30, '800', '1:54.01')
rows.append("ag2023.calculate_age_grade('f',30,'800','1:54.01') = %r   expected exactly 1.0 (open best 114.01, factor 1)" % (r,))
if r != 1.0:
    bad = True
r1 = call(athlib.normalize_gender, ' f')
r2 = call(athlib.wma_age_factor, ' f', 50, '100')
rows.append("athlib.normalize_gender(' f') = %r  but wma_age_factor(' f',50,'100') = %s" % (r1, r2))
if r1 == 'F' and isinstance(r2, str):
    bad = True
report('F8', 'C14 minor: trailing nulls crash, m:ss.hh open best not exactly 1.0, leading blank in gender', rows, bad)

print('=' * 78)
print('reproduced: %s' % (', '.join(reproduced) or 'none'))
sys.exit(1 if reproduced else 0)
