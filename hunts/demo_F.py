#!/usr/bin/env python
"""Demonstrations for FINDINGS.md (property C12).

usage: /venv/bin/python demo.py /tmp/hunt_F
Exits 1 if any finding reproduces, 0 otherwise.
"""
import sys, os, json, re, subprocess

root = sys.argv[1] if len(sys.argv) > 1 else '/tmp/hunt_F'
sys.path.insert(0, root)
from athlib.utils import check_performance_for_discipline as chk   # noqa: E402


class MyErr(Exception):
    pass


def call(ev, text, **kw):
    """-> ('ok', value) | ('refused', msg) | ('EXC', repr)"""
    try:
        return ('ok', chk(ev, text, errorKlass=MyErr, **kw))
    except MyErr as e:
        return ('refused', str(e))
    except Exception as e:           # any other class is itself a violation
        return ('EXC', repr(e))


reproduced = []


def report(fid, title, lines, hit):
    print('-' * 78)
    print('%s  %s' % (fid, title))
    for l in lines:
        print('    ' + l)
    print('    => %s' % ('REPRODUCES' if hit else 'does not reproduce'))
    if hit:
        reproduced.append(fid)


def idem(fid, title, cases):
    """cases: (event, text, kwargs). Reproduces when text is accepted but the
    returned value is refused / changed when validated again."""
    hit = False
    lines = []
    for ev, text, kw in cases:
        r1 = call(ev, text, **kw)
        if r1[0] != 'ok':
            lines.append('chk(%r, %r, %s) -> %s   (first call not accepted)' % (ev, text, kw, r1,))
            continue
        r2 = call(ev, r1[1], **kw)
        bad = (r2 != r1)
        hit = hit or bad
        lines.append('chk(%r, %r%s) -> %r ; chk(%r, %r) expected %r, actual %s %r' % (
            ev, text, ''.join(', %s=%r' % kv for kv in kw.items()), r1[1],
            ev, r1[1], r1[1], r2[0], r2[1]))
    report(fid, title, lines, hit)


# F1 ---------------------------------------------------------------------------
idem('F1', 'sprint (<=200 m) result of a minute or more with .00 hundredths is returned '
           'as m:ss and refused when validated again',
     [('200', '1:00.00', {}),          # 3.33 m/s, inside 0.5..11 m/s
      ('100', '1:05.0', {}),
      ('60H', '1:10,00', {}),
      ('4x50', '1:00.0', {}),
      ('200', '59.5', {'prec': 0}),    # rounds up to 1:00
      ])

# F2 ---------------------------------------------------------------------------
idem('F2', '800-999 m events: a time under 100 s is returned as ss.xx and read back '
           'as mm:ss (refused as too slow)',
     [('4x200', '85', {}),             # 9.41 m/s ; 4x200 m world record is 78.63 s
      ('800', '0:85', {}),
      ('800', '99', {}),               # 8.08 m/s
      ('8x100', '0.99', {}),
      ])

# F3 ---------------------------------------------------------------------------
idem('F3', 'field marks of 100 m or more (inside record*1.2 for JT/HT) come back as '
           "'1xx.00', which the admissible-text filter refuses",
     [('JT', '100', {'gender': 'M'}),      # record 104.80, limit 125.76
      ('HT', '100', {'gender': 'M'}),      # record 86.74, limit 104.09
      ('JT', '99.999', {}),                # rounds to 100.00
      ('JT800', '120', {}),
      ])

# F4 ---------------------------------------------------------------------------
def speed_skipped(fid, title, cases):
    hit = False
    lines = []
    for ev, text, dist, plain in cases:
        r = call(ev, text)
        rp = call(plain, text) if plain else None
        if r[0] == 'ok':
            m = re.match(r'^(?:(?:(\d+):)?(\d+):)?(\d+(?:\.\d+)?)$', r[1])
            dur = int(m.group(1) or 0) * 3600 + int(m.group(2) or 0) * 60 + float(m.group(3))
            v = 'infinite' if dur == 0 else '%.1f m/s' % (dist / dur)
            lim = 11 if dist <= 400 else 10
            bad = dur == 0 or dist / dur > lim or dist / dur < 0.5
            hit = hit or bad
            lines.append('chk(%r, %r) expected refusal (%s m -> %s, limit %d m/s), actual returned %r%s' % (
                ev, text, dist, v, lim, r[1],
                ('   [chk(%r, %r) -> %s]' % (plain, text, rp[0])) if plain else ''))
        else:
            lines.append('chk(%r, %r) -> %s' % (ev, text, r,))
    report(fid, title, lines, hit)


speed_skipped('F4', 'hurdle codes carrying a height/spacing spec or an L/S prefix get no distance: '
                    'no speed check, zero time accepted',
              [('110H106.7cm9.14m13.72m', '1.00', 110, '110H'),
               ('110H106.7cm9.14m13.72m', '0', 110, '110H'),
               ('100H84cm', '5', 100, '100H'),
               ('100H33', '2.5', 100, '100H'),
               ('400H91.4cm', '9.99', 400, '400H'),
               ('300LH', '3', 300, '300H'),
               ('110SH', '1', 110, '110H'),
               ])

# F5 ---------------------------------------------------------------------------
speed_skipped('F5', 'valid lower-case / walk / n-mile spellings of fixed-distance codes get no distance: '
                    'no speed check, zero time accepted',
              [('mar', '5.00', 42195, 'MAR'),
               ('MARW', '0', 42195, 'MAR'),
               ('hm', '9.58', 21097, 'HM'),
               ('HMW', '1:00', 21097, 'HM'),
               ('mile', '30', 1609, 'MILE'),
               ('MILEW', '30', 1609, 'MILE'),
               ('2MILE', '1', 3218, '2MT'),
               ('2mt', '1', 3218, '2MT'),
               ('5MW', '59', 8045, '5M'),
               ])

# F6 ---------------------------------------------------------------------------
def f6():
    hit = False
    lines = []
    for ev, base, text, g in [('SP7.26K', 'SP', '99.99', 'M'), ('sp 4kg', 'sp', '60', 'F'),
                              ('DT2K', 'DT', '99', 'all'), ('JT800', 'JT', '99999', 'M'),
                              ('HT7.26K', 'HT', '99.9', 'F'), ('WT15.88K', 'WT', '90', 'M')]:
        r = call(ev, text, gender=g)
        rb = call(base, text, gender=g)
        bad = r[0] == 'ok' and rb[0] == 'refused'
        hit = hit or bad
        lines.append('chk(%r, %r, gender=%r) expected refusal like chk(%r, ...) [%s], actual %s %r' % (
            ev, text, g, base, rb[0], r[0], r[1]))
    report('F6', 'weight-specific throw codes skip the world-record plausibility check', lines, hit)


f6()

# F7 ---------------------------------------------------------------------------
idem('F7', "'3000': a result of an hour or more with .00 hundredths is returned as h:mm:ss "
           'and re-read as mm:ss.hh (refused as too fast)',
     [('3000', '1:05:30.0', {}),       # 0.76 m/s, inside the 0.5 m/s limit
      ('3000', '1:00:00.00', {}),
      ('3000', '63:30', {'prec': 0}),
      ])

# F8 (JS port) -----------------------------------------------------------------
JS = r"""
const fs = require('fs'), vm = require('vm');
const root = process.argv[2];
function load(file, deps) {
  let src = fs.readFileSync(root + '/js/src/' + file, 'utf8');
  src = src.replace(/import\s*\{([^}]*)\}\s*from\s*'\.\/patterns\.js';/, (m, n) => 'const {' + n + '} = __patterns;');
  const module = { exports: {} };
  vm.runInNewContext(src, { module, exports: module.exports, __patterns: deps, console });
  return module.exports;
}
const utils = load('utils.js', load('patterns.js', {}));
class MyErr extends Error {}
function MyErrFn(msg) { const e = new Error(msg); e.isMine = true; return e; }
const out = JSON.parse(process.argv[3]).map(([d, t]) => {
  try { return ['ok', utils.checkPerformanceForDiscipline(d, t, 'all', 1.2, MyErrFn)]; }
  catch (e) { return [e.isMine ? 'refused' : 'EXC', String(e.message)]; }
});
let klass;
try { utils.checkPerformanceForDiscipline('100', 'abc', 'all', 1.2, MyErr); klass = ['ok', null]; }
catch (e) { klass = [e instanceof MyErr ? 'refused' : 'EXC', e.constructor.name + ': ' + e.message]; }
console.log(JSON.stringify({ out, klass }));
"""


def f8():
    node = '/usr/bin/node'
    if not os.path.exists(node):
        report('F8', 'JS port (node not available, skipped)', [], False)
        return
    cases = [['800', '1:75'], ['5000', '1:75:80'], ['100', '0'], ['DEC', '12.5'],
             ['800', '1:59.999'], ['SHJ', '1:30'], ['110H', '0:00']]
    p = subprocess.run([node, '-e', JS, '--', root, json.dumps(cases)], capture_output=True, text=True)
    # node -e puts extra args at argv[1..]; fall back to a temp file if that layout differs
    if p.returncode != 0 or not p.stdout.strip():
        import tempfile
        with tempfile.NamedTemporaryFile('w', suffix='.js', delete=False, dir=os.path.dirname(os.path.abspath(__file__))) as f:
            f.write(JS)
        p = subprocess.run([node, f.name, root, json.dumps(cases)], capture_output=True, text=True)
        os.unlink(f.name)
    res = json.loads(p.stdout)
    lines = []
    hit = False
    for (d, t), js in zip(cases, res['out']):
        py = call(d, t)
        bad = (js[0] == 'ok') and (py[0] != 'ok' or py[1] != js[1])
        hit = hit or bad
        lines.append('JS checkPerformanceForDiscipline(%r, %r) -> %s %r ; Python -> %s %r' % (d, t, js[0], js[1], py[0], py[1]))
    k = res['klass']
    if k[0] == 'EXC':
        hit = True
    lines.append("JS with an ES6 `class MyErr extends Error` as errorKlass and text 'abc': expected a MyErr, actual %s %s" % (k[0], k[1]))
    report('F8', 'JS port of the validator is a stale copy: seconds/minutes >= 60, zero times, '
                 'non-integer multi-event points are returned; class-based errorKlass gives TypeError', lines, hit)


f8()

# minor -------------------------------------------------------------------------
def minor():
    lines = []
    hit = False
    a = call('LJ', '10.00', gender='Female')
    b = call('LJ', '10.00', gender='F')
    lines.append("chk('LJ','10.00',gender='Female') -> %s %r ; gender='F' -> %s   (women's record 7.52)" % (a[0], a[1], b[0]))
    hit = hit or (a[0] == 'ok' and b[0] == 'refused')
    r1 = call('XC', '99:59:59.5', prec=0)
    if r1[0] == 'ok':
        r2 = call('XC', r1[1], prec=0)
        lines.append("chk('XC','99:59:59.5',prec=0) -> %r ; validated again -> %s %r" % (r1[1], r2[0], r2[1]))
        hit = hit or r2 != r1
    r = call('SHJ', '9' * 320)
    lines.append("chk('SHJ', '9'*320) -> %s %r (expected a two-decimal number or a refusal)" % r)
    hit = hit or (r[0] == 'ok' and not re.match(r'^\d+\.\d\d$', r[1]))
    report('M', 'minor observations', lines, hit)


minor()

print('=' * 78)
print('reproduced: %s' % (', '.join(reproduced) or 'none'))
sys.exit(1 if reproduced else 0)
