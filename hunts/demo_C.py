#!/usr/bin/env python
"""Demonstrates the C05/C11 findings of hunt_C on an UNCHANGED athlib tree.

usage: /venv/bin/python demo.py /tmp/hunt_C
exit status 1 if any finding reproduces, 0 otherwise.
"""
import os
import subprocess
import sys

repo = sys.argv[1] if len(sys.argv) > 1 else '/tmp/hunt_C'
sys.path.insert(0, repo)

import athlib                                                  # noqa: E402
if not os.path.realpath(athlib.__file__).startswith(os.path.realpath(repo) + os.sep):
    print('athlib was imported from %s, not from %s - is the tree there?' % (athlib.__file__, repo))
    sys.exit(2)
from athlib.sportshall_score import sportshall_score          # noqa: E402
from athlib.bulgarian_score import score as bulgarian_score    # noqa: E402
from athlib.qkids_score import qkids_score, _qkidsTables       # noqa: E402
from athlib.tyrving_score import tyrving_score, _tyrvingTables  # noqa: E402

reproduced = []


def call(f, *a):
    try:
        return f(*a)
    except Exception as e:  # the exception IS the observation
        return 'EXC %s: %s' % (type(e).__name__, str(e)[:70])


def check(fid, label, expected, actual, ok=None):
    """ok: predicate telling whether behaviour is correct; default actual == expected"""
    good = (actual == expected) if ok is None else ok
    print('%-4s %-62s expected %-28r actual %r%s' % (
        fid, label, expected, actual, '' if good else '   <-- VIOLATION'))
    if not good and fid not in reproduced:
        reproduced.append(fid)


# ---------------------------------------------------------------- F1
# Sportshall: published row "increment / incpoints" beyond the 80-point end of the table.
# SPB: '1 no.' -> 1 point ; JT: '1m' -> 2 points.  load_data() only understands 'cm' and 'sec'.
print('F1  C11 (beyond the end of the table): Sportshall SPB and JT increments are dropped')
check('F1', "sportshall_score('SPB','80')  (table top)", 80, call(sportshall_score, 'SPB', '80'))
check('F1', "sportshall_score('SPB','85')  (+5 x '1 no.' x 1pt)", 85, call(sportshall_score, 'SPB', '85'))
check('F1', "sportshall_score('SPB', 85.0)", 85, call(sportshall_score, 'SPB', 85.0))
check('F1', "sportshall_score('JT','28')   (table top)", 79, call(sportshall_score, 'JT', '28'))
check('F1', "sportshall_score('JT','29')   (+1 x '1m' x 2pt)", 81, call(sportshall_score, 'JT', '29'))
check('F1', "sportshall_score('JT','30.00')", 83, call(sportshall_score, 'JT', '30.00'))
# control: the same mechanism works where the unit is cm / sec
check('F1', "control sportshall_score('CHT','12.00') (+1 x 25cm x 2pt)", 82, call(sportshall_score, 'CHT', '12.00'))

# ---------------------------------------------------------------- F2
print('\nF2  C11 (independent of input form): Bulgarian field events refuse a text mark')
check('F2', "bulgarian_score('U16','M','LJ', 5.5)", 84, call(bulgarian_score, 'U16', 'M', 'LJ', 5.5))
check('F2', "bulgarian_score('U16','M','LJ','5.50')", 84, call(bulgarian_score, 'U16', 'M', 'LJ', '5.50'))
check('F2', "bulgarian_score('U16','F','HJ','1.60')", call(bulgarian_score, 'U16', 'F', 'HJ', 1.60),
      call(bulgarian_score, 'U16', 'F', 'HJ', '1.60'))
check('F2', "bulgarian_score('U16','F','SP','10.00')", call(bulgarian_score, 'U16', 'F', 'SP', 10.0),
      call(bulgarian_score, 'U16', 'F', 'SP', '10.00'))
check('F2', "control: timed text bulgarian_score('U16','M','100','12.50')", call(bulgarian_score, 'U16', 'M', '100', 12.5),
      call(bulgarian_score, 'U16', 'M', '100', '12.50'))

# ---------------------------------------------------------------- F3
print('\nF3  C11 (m:ss.xx text for times): Sportshall refuses m:ss text')
check('F3', "sportshall_score('800','126')", 80, call(sportshall_score, '800', '126'))
check('F3', "sportshall_score('800','2:06')", 80, call(sportshall_score, '800', '2:06'))
check('F3', "sportshall_score('800','2:24.00')", 70, call(sportshall_score, '800', '2:24.00'))
check('F3', "sportshall_score('100','0:26.00')", 70, call(sportshall_score, '100', '0:26.00'))

# ---------------------------------------------------------------- F4
print('\nF4  C11 (table vs linear formula): QuadKids Start SLJ - the table\'s own 100-point mark scores 85')
inc, mn, mx = _qkidsTables['QKSTA']['SLJ']
print('     row QKSTA/SLJ = [INC %r, MIN(10pt) %r, MAX(100pt) %r]; (MAX-MIN)/INC = %r, every other row gives 90' % (
    inc, mn, mx, (mx - mn) / inc))
odd = [(ct, ev) for ct, t in _qkidsTables.items() for ev, (i, a, b) in t.items() if abs(abs(b - a) / i - 90) > 1e-6]
print('     rows with (MAX-MIN)/INC != 90:', odd)
check('F4', "qkids_score('QuadKids Start','SLJ','0.75')  (MIN)", 10, call(qkids_score, 'QuadKids Start', 'SLJ', '0.75'))
check('F4', "qkids_score('QuadKids Start','SLJ','3.00')  (MAX)", 100, call(qkids_score, 'QuadKids Start', 'SLJ', '3.00'))
check('F4', "qkids_score('QKSTA','SLJ', 3.0)", 100, call(qkids_score, 'QKSTA', 'SLJ', 3.0))
check('F4', "control qkids_score('QKPRE','SLJ','3.20')  (MAX)", 100, call(qkids_score, 'QKPRE', 'SLJ', '3.20'))

# ---------------------------------------------------------------- F5
print('\nF5  C11 (input form): Tyrving decimal comma - field accepts it, race raises (py) / is scored as hand-timed (js)')
check('F5', "tyrving_score('M',15,'LJ','5,50')  (field, comma)", call(tyrving_score, 'M', 15, 'LJ', '5.50'),
      call(tyrving_score, 'M', 15, 'LJ', '5,50'))
check('F5', "tyrving_score('M',15,'100','12,50') (race, comma)", call(tyrving_score, 'M', 15, '100', '12.50'),
      call(tyrving_score, 'M', 15, '100', '12,50'))
JS = r"""
const fs=require('fs'),path=require('path');const src=path.join(process.argv[1],'js','src');const cache={};
function load(n){const f=path.join(src,path.basename(n.endsWith('.js')?n:n+'.js'));if(cache[f])return cache[f].exports;
let c=fs.readFileSync(f,'utf8');c=c.replace(/import\s*\{([^}]*)\}\s*from\s*['"]([^'"]+)['"];?/g,(m,a,b)=>'const {'+a+'} = __req('+JSON.stringify(b)+');');
const m={exports:{}};cache[f]=m;new Function('module','exports','__req',c)(m,m.exports,load);return m.exports;}
const T=load('./tyrving_score.js');
console.log(JSON.stringify([T.tyrvingScore('M',15,'100','12.50'),T.tyrvingScore('M',15,'100','12,50')]));
"""
node = '/usr/bin/node'
if os.path.exists(node):
    try:
        out = subprocess.run([node, '-e', JS, repo], capture_output=True, text=True, timeout=60)
        import json
        dot, comma = json.loads(out.stdout)
        check('F5', "JS tyrvingScore('M',15,'100','12,50') vs '12.50'", dot, comma)
    except Exception as e:
        print('     (JS part skipped: %r)' % e)

# ---------------------------------------------------------------- F6
print('\nF6  C11 (published table / ordered bands): Bulgarian U16 girls 600 m has two broken bands')
for p, exp in ((99.20, 99), (99.21, 98), (99.50, 98), (99.51, 97), (99.80, 97), (99.81, 96)):
    check('F6', "bulgarian_score('U16','F','600',%.2f)" % p, exp, call(bulgarian_score, 'U16', 'F', '600', p))
got = sorted(set(call(bulgarian_score, 'U16', 'F', '600', n / 100.0) for n in range(8800, 18200)))
check('F6', "point values never awarded for U16 F 600 (1..150)", [], [v for v in range(1, 151) if v not in got])
for p, exp in ((138.10, 35), (138.11, 34), (138.21, 34), (139.00, 34), (139.20, 34), (139.21, 33), (140.30, 33), (140.31, 32)):
    check('F6', "bulgarian_score('U16','F','600',%.2f)" % p, exp, call(bulgarian_score, 'U16', 'F', '600', p))

# ---------------------------------------------------------------- F7
print('\nF7  C11 (published table): Tyrving girls 20000 m walk base marks lack the hour (53:30 / 52:00)')
b20 = _tyrvingTables['F']['20000W'][1][2][1][0]
b10w = _tyrvingTables['F']['10000W'][1][2][1][3]   # age 18
b10r = _tyrvingTables['F']['10000'][1][2][1][0]    # age 18
print('     1000-point marks at age 18 (F): 10000 run %rs, 10000W %rs, 20000W %rs  -> 20 km walk at %.2f m/s, 10 km run at %.2f m/s'
      % (b10r, b10w, b20, 20000.0 / b20, 10000.0 / b10r))
check('F7', "F 20000W 1000-point mark slower than twice the 10000W one", True, b20 > 2 * b10w)
check('F7', "tyrving_score('F',18,'20000W','1:53:30.00') (M: 1:40:00 -> 1000)", 1000,
      call(tyrving_score, 'F', 18, '20000W', '1:53:30.00'))
check('F7', "tyrving_score('F',18,'20000W','1:50:00.00')", 1042, call(tyrving_score, 'F', 18, '20000W', '1:50:00.00'))

# ---------------------------------------------------------------- F8
print('\nF8  C11 (table ordered / every entry reachable / beyond the table): Sportshall 800 and SP')
got = set(call(sportshall_score, '800', str(n)) for n in range(100, 320))
missing = [p for p in range(1, 81) if p not in got]
check('F8', "Sportshall 800: tabulated point values no mark can score", [], missing)
check('F8', "sportshall_score('SP','12.25') (table: 0.25 m per point)", 81, call(sportshall_score, 'SP', '12.25'))

print('\nreproduced:', reproduced or 'none')
sys.exit(1 if reproduced else 0)
