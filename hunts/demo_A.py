#!/usr/bin/env python
"""Usage: /venv/bin/python demo.py /tmp/hunt_A
Prints each finding's input with expected vs actual; exits 1 if any reproduces."""
import sys
root = sys.argv[1] if len(sys.argv) > 1 else '/tmp/hunt_A'
sys.path.insert(0, root)
from decimal import Decimal
from athlib import athlon_score as score, athlon_performance_needed as performance

reproduced = []

def call(f, *a, **k):
    try:
        return f(*a, **k)
    except Exception as e:          # noqa
        return 'RAISED %s: %s' % (type(e).__name__, e)

def show(fid, desc, expected, actual, bad):
    print('[%s] %s\n      expected: %s\n      actual  : %s\n      -> %s' % (
        fid, desc, expected, actual, 'REPRODUCES' if bad else 'ok'))
    if bad:
        reproduced.append(fid)

# ---- F1 (C01): scored events with no row in the masters table raise for every age >= 35
no_row = [('M', '60', 7.5), ('M', '600', 90.0), ('M', '3000', 600.0), ('M', '5000', 900.0),
          ('M', '10000', 2000.0), ('M', '3000SC', 600.0),
          ('F', '60', 8.0), ('F', '3000', 650.0), ('F', '5000', 1000.0),
          ('F', '10000', 2400.0), ('F', '3000SC', 700.0)]
for g, ev, v in no_row:
    plain = call(score, g, ev, v)
    got = dict((age, call(score, g, ev, v, age)) for age in (34, 35, 50, 110))
    bad = [age for age in (35, 50, 110) if not isinstance(got[age], int)]
    show('F1', 'score(%r, %r, %r, age=a) for a in 34, 35, 50, 110' % (g, ev, v),
         'a non-negative int for every age (no masters factor exists for this event, so %r as for age=None / age=34)' % plain,
         ', '.join('age %d: %s' % (a, got[a]) for a in (34, 35, 50, 110)), bool(bad))

# ---- F2 (C01): unknown gender/event pair + age >= 35 is an error, not None
for a in [('M', 'XYZ', 10.0), ('X', '100', 10.0), ('M', 'HH', 10.0), ('F', '110H', 15.0), ('F', '600', 100.0)]:
    plain = call(score, *a)
    young = call(score, *(a + (34,)))
    got = call(score, *(a + (40,)))
    if a == ('F', '110H', 15.0):
        # F-110H is an unknown pair; it happens to have an 'SH' factor so it does return None
        show('F2', 'score%r with age=40 (control)' % (a,), 'None', got, got is not None)
        continue
    show('F2', 'score%r with age=40   [age=None -> %r, age=34 -> %r]' % (a, plain, young),
         'None (no score, no error)', got, got is not None)

# ---- F3 (C09): performance() has no answer for the three remapped veterans' hurdles rows that score() scores
for g, ev in [('M', '80H'), ('M', '100H'), ('F', '80H')]:
    s = call(score, g, ev, 15.0)
    p = call(performance, g, ev, s if isinstance(s, int) else 800)
    show('F3', 'performance(%r, %r, %r)   [score(%r, %r, 15.0) = %r]' % (g, ev, s, g, ev, s),
         'a mark m with score(m) >= %r and score(m+0.01) < %r (15.0 would do)' % (s, s), p, p is None)

# ---- F4 (C01): the hurdles remap is case sensitive although every other row is case-insensitive
for (a, b) in [(('f', '80H', 14.0), ('F', '80H', 14.0)),
               (('F', '80h', 14.0), ('F', '80H', 14.0)),
               (('m', '100H', 15.0), ('M', '100H', 15.0)),
               (('M', '80h', 15.0), ('M', '80H', 15.0))]:
    ga, gb = call(score, *a), call(score, *b)
    ctl = call(score, a[0], '100h' if a[0].upper() == 'F' else '110h', a[2])
    show('F4', 'score%r vs score%r   [control: lower-case works for the un-remapped row: %r]' % (a, b, ctl),
         'same points (%r)' % gb, ga, ga != gb)
ga = call(score, 'm', '100H', 15.0, 50); gb = call(score, 'M', '100H', 15.0, 50)
show('F4', "score('m','100H',15.0,age=50) vs score('M','100H',15.0,age=50)", 'same points (%r)' % gb, ga, ga != gb)

# ---- F5 (C09): no inverse exists for the ESAA 800 m row
for T in (500, 769, 1000):
    p = call(performance, 'M', '800', T)
    s = call(score, 'M', '800', p, esaa=True)
    p2 = call(performance, 'M', '800', T, esaa=True)
    show('F5', "performance('M','800',%d) = %r scored with esaa=True; performance(..., esaa=True) = %r" % (T, p, p2),
         'score >= %d' % T, s, not (isinstance(s, int) and s >= T))

# ---- F6 (C01, only if Decimal marks are in the domain): Decimal mark raises
for a in [('M', '100', Decimal('11.00')), ('M', 'LJ', Decimal('7.00'))]:
    got = call(score, *a)
    exp = call(score, a[0], a[1], float(a[2]))
    show('F6', 'score%r' % (a,), '%r (same as the float mark)' % exp, got, got != exp)

print()
print('reproduced findings:', sorted(set(reproduced)) or 'none')
sys.exit(1 if reproduced else 0)
