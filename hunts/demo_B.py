#!/venv/bin/python
"""Usage: /venv/bin/python demo.py /tmp/hunt_B
Prints each finding (input, expected, actual); exit 1 if any finding reproduces, else 0."""
import sys, os, json, subprocess
ROOT = sys.argv[1] if len(sys.argv) > 1 else '/tmp/hunt_B'
sys.path.insert(0, ROOT)
from decimal import Decimal as D
from athlib.highjump import HighJumpCompetition as HJ
from athlib.exceptions import RuleViolation

reproduced = []


def report(fid, title, inp, expected, actual, bad):
    print('=' * 78)
    print('%s  %s' % (fid, title))
    print('  input   :', inp)
    print('  expected:', expected)
    print('  actual  :', actual)
    print('  -> %s' % ('REPRODUCED' if bad else 'not reproduced'))
    if bad:
        reproduced.append(fid)


def snap(c):
    return (c.state, tuple(c.heights),
            tuple((j.bib, tuple(j.attempts_by_height), j.highest_cleared, j.place) for j in c.jumpers),
            len(c.actions))


# ---------------------------------------------------------------- P1 (Python, C02 / C03)
def p1():
    c = HJ()
    c.add_jumper(bib='A'); c.add_jumper(bib='B')
    c.set_bar_height(D('1.00'))
    for i in range(3):
        c.failed('A'); c.failed('B')
    st1 = c.state
    places1 = [j.place for j in c.jumpers]
    accepted = []
    try:
        c.set_bar_height(D('1.00')); accepted.append('set_bar_height(1.00) again (equal bar)')
    except RuleViolation:
        pass
    try:
        c.cleared('A'); accepted.append("cleared('A') = A's 4th attempt at 1.00 after xxx")
    except RuleViolation:
        pass
    try:
        c.failed('B'); accepted.append("failed('B')")
    except RuleViolation:
        pass
    actual = 'state after xxx/xxx = %r, places %r; then accepted: %s; final state %r, cards %r, places %r' % (
        st1, places1, accepted, c.state, [j.attempts_by_height for j in c.jumpers], [j.place for j in c.jumpers])
    # control: one athlete alone is handled correctly
    c1 = HJ(); c1.add_jumper(bib='A'); c1.set_bar_height(D('1.00'))
    for i in range(3): c1.failed('A')
    actual += ' | control, A alone xxx -> %r' % c1.state
    bad = st1 != 'finished' or bool(accepted)
    report('P1', 'Python: nobody clears anything -> "jumpoff", eliminated athletes jump again',
           "add A,B; bar 1.00; A xxx, B xxx; set_bar_height(1.00); cleared('A'); failed('B')",
           "state 'finished' after the sixth failure (nobody has a place, so there is no tie for first); "
           "equal bar, A's 4th attempt and B's attempt all refused with RuleViolation",
           actual, bad)


# ---------------------------------------------------------------- P2 (Python, C02 / C03)
def p2():
    c = HJ()
    c.add_jumper(bib='A'); c.add_jumper(bib='B')
    c.set_bar_height(D('1.00'))
    c.retired('B')
    for i in range(3): c.failed('A')
    st1 = c.state
    acc = []
    try:
        c.set_bar_height(D('0.90')); acc.append('set_bar_height(0.90) (lower)')
        c.cleared('A'); acc.append("cleared('A')")
    except RuleViolation:
        pass
    report('P2', 'Python: A xxx + B retired without a mark -> one-man "jumpoff", bar lowered, A wins',
           "add A,B; bar 1.00; retired('B'); A xxx; set_bar_height(0.90); cleared('A')",
           "'finished' after A's third failure, nothing accepted afterwards, A unplaced",
           'state after A xxx = %r; accepted afterwards: %s; final state %r, A place %r best %s' % (
               st1, acc, c.state, c.jumpers_by_bib['A'].place, c.jumpers_by_bib['A'].highest_cleared),
           st1 != 'finished' or bool(acc))


# ---------------------------------------------------------------- P3 (Python, C02)
def p3():
    c = HJ()
    c.add_jumper(bib='A')
    c.set_bar_height(D('1.00'))
    res = []
    bad = False
    for name in ('cleared', 'failed', 'passed', 'retired'):
        before = snap(c)
        try:
            getattr(c, name)('B')
            res.append('%s: accepted' % name); bad = True
        except RuleViolation:
            res.append('%s: RuleViolation' % name)
        except Exception as e:
            res.append('%s: %s' % (name, type(e).__name__)); bad = True
        assert snap(c) == before
    report('P3', 'Python: trial for a bib that never joined raises KeyError, not RuleViolation',
           "add A; bar 1.00; cleared('B') / failed('B') / passed('B') / retired('B')  (B can no longer join)",
           'each refused with RuleViolation', '; '.join(res), bad)


# ---------------------------------------------------------------- P4 (Python, C08)
def p4():
    c = HJ()
    c.add_jumper(bib=1); c.add_jumper(bib=2)
    c.set_bar_height(D('1.00')); c.cleared(1); c.failed(2); c.cleared(2)
    c.set_bar_height(D('1.05')); c.failed(1)
    m = c.to_matrix()
    c2 = HJ.from_matrix(m)
    st = {j.bib: j.place for j in c.jumpers}
    st2 = {j.bib: j.place for j in c2.jumpers}
    err = None
    try:
        c2.failed(1)
    except Exception as e:
        err = type(e).__name__
    report('P4', 'Python: card export/import turns number bibs into text bibs',
           'add_jumper(bib=1), add_jumper(bib=2); ...; c2 = from_matrix(c.to_matrix()); c2.failed(1)',
           'same standings %r; the next trial failed(1) is accepted as on the original' % st,
           'standings %r; failed(1) on the re-imported competition -> %s' % (st2, err),
           st != st2 or err is not None)


# ---------------------------------------------------------------- JS port
JS = r"""
const fs = require('fs');
const root = process.argv[1];
const m = { exports: {} };
new Function('module', 'exports', fs.readFileSync(root + '/js/src/highjump.js', 'utf8'))(m, m.exports);
const HJ = m.exports.HighJumpCompetition;
const out = {};
function st(c) { return { state: c.state, heights: c.heights.slice(), j: c.jumpers.map(j => [j.bib, j.attemptsByHeight.join(','), j.highestCleared, j.place]) }; }
function tryit(f) { try { f(); return 'accepted'; } catch (e) { return 'refused: ' + e.message; } }
// J1 best overwritten by a lower jump-off clearance
(function () {
  const c = HJ(); c.addJumper({ bib: 'A' }); c.addJumper({ bib: 'B' });
  c.setBarHeight(1.10); c.cleared('A'); c.cleared('B');
  c.setBarHeight(1.20); for (let i = 0; i < 3; i++) { c.failed('A'); c.failed('B'); }
  c.setBarHeight(1.05); c.cleared('A'); c.failed('B');
  out.J1 = st(c);
})();
// J2 the jump-off loser wins
(function () {
  const c = HJ(); ['A', 'B', 'C'].forEach(b => c.addJumper({ bib: b }));
  c.setBarHeight(1.10); ['A', 'B', 'C'].forEach(b => c.cleared(b));
  c.setBarHeight(1.20); for (let i = 0; i < 3; i++) ['A', 'B', 'C'].forEach(b => c.failed(b));
  c.setBarHeight(1.05); c.cleared('A'); c.cleared('B'); c.failed('C');
  c.setBarHeight(1.08); c.failed('A'); c.failed('B');
  const mid = st(c);
  c.setBarHeight(1.06);
  const r = tryit(() => c.cleared('C'));
  out.J2 = { mid: mid, C_jumps_at_third_jumpoff_height: r, end: st(c) };
})();
// J3 bar accepted in a drawn competition
(function () {
  const c = HJ(); c.addJumper({ bib: 'A' }); c.addJumper({ bib: 'B' });
  c.setBarHeight(1.10); c.cleared('A'); c.cleared('B');
  c.setBarHeight(1.20); c.retired('A'); c.retired('B');
  const before = st(c); const n = c.actions.length;
  const r = tryit(() => c.setBarHeight(1.25));
  out.J3 = { before: before, call: r, after: st(c), logBefore: n, logAfter: c.actions.length };
})();
// J4 places depend on the order of two athletes' trials at one height
(function () {
  function run(order) { const c = HJ(); c.addJumper({ bib: 'A' }); c.addJumper({ bib: 'B' }); c.setBarHeight(1.00); order.forEach(b => c.cleared(b)); c.setBarHeight(1.05); c.retired('B'); return c; }
  const c1 = run(['A', 'B']), c2 = run(['B', 'A']);
  const c3 = HJ.fromMatrix(c2.toMatrix());
  out.J4 = { AB: st(c1), BA: st(c2), BA_reimported: st(c3) };
})();
// J5 refused first bar starts the competition
(function () {
  const c = HJ(); c.addJumper({ bib: 'A' });
  const before = st(c);
  const r = tryit(() => c.setBarHeight(0));
  const r2 = tryit(() => c.addJumper({ bib: 'B' }));
  out.J5 = { before: before, setBarHeight0: r, after: st(c), addB: r2 };
})();
console.log(JSON.stringify(out));
"""


def js():
    try:
        p = subprocess.run(['/usr/bin/node', '-e', JS, ROOT], capture_output=True, text=True, timeout=60)
        out = json.loads(p.stdout)
    except Exception as e:
        print('JS findings could not be run:', e)
        return
    j1 = out['J1']
    a = [x for x in j1['j'] if x[0] == 'A'][0]
    report('J1', 'JS port: a clearance at a lowered jump-off bar overwrites the best',
           "A,B: 1.10 o/o; 1.20 xxx/xxx (jump-off); bar 1.05: A o, B x",
           "A best 1.10 (greatest height ever cleared), as in Python",
           'A card %s best %s ; state %s' % (a[1], a[2], j1['state']), a[2] != 1.10)
    j2 = out['J2']
    end = {x[0]: x for x in j2['end']['j']}
    report('J2', 'JS port: the athlete who lost the jump-off is left alone in it and wins',
           "A,B,C: 1.10 o/o/o; 1.20 xxx each; jump-off 1.05: A o, B o, C x; 1.08: A x, B x; 1.06: cleared('C')",
           "C went out at 1.05 and is refused afterwards; A and B stay in the jump-off (Python: 'Cannot jump after being eliminated')",
           'after 1.08: %s ; C at 1.06: %s ; final state %s places %s' % (
               [(x[0], x[3], x[2]) for x in j2['mid']['j']], j2['C_jumps_at_third_jumpoff_height'], j2['end']['state'],
               {k: v[3] for k, v in end.items()}),
           j2['C_jumps_at_third_jumpoff_height'] == 'accepted')
    j3 = out['J3']
    report('J3', 'JS port: the bar can be set in a drawn competition',
           "A,B: 1.10 o/o; 1.20 r/r -> drawn; setBarHeight(1.25)",
           'refused, heights and log unchanged',
           'state %s; call %s; heights %s -> %s; log %d -> %d' % (j3['before']['state'], j3['call'], j3['before']['heights'],
                                                                  j3['after']['heights'], j3['logBefore'], j3['logAfter']),
           j3['call'] == 'accepted')
    j4 = out['J4']
    pl = lambda s: {x[0]: x[3] for x in s['j']}
    report('J4', 'JS port: places depend on the order of different athletes\' trials (and change on card re-import)',
           "bar 1.00: cleared A, cleared B  versus  cleared B, cleared A; then bar 1.05, retired('B')",
           'same cards -> same places in both orders, and after fromMatrix(toMatrix())',
           'order A,B: %s ; order B,A: %s ; order B,A exported+imported: %s' % (pl(j4['AB']), pl(j4['BA']), pl(j4['BA_reimported'])),
           pl(j4['AB']) != pl(j4['BA']) or pl(j4['BA']) != pl(j4['BA_reimported']))
    j5 = out['J5']
    report('J5', 'JS port: a refused first setBarHeight starts the competition',
           "addJumper A; setBarHeight(0); addJumper B",
           "refusal leaves state 'scheduled'; B can still join",
           'setBarHeight(0): %s ; state %s -> %s ; addJumper B: %s' % (j5['setBarHeight0'], j5['before']['state'], j5['after']['state'], j5['addB']),
           j5['after']['state'] != 'scheduled')


for f in (p1, p2, p3, p4):
    try:
        f()
    except Exception as e:
        print('finding %s could not be evaluated: %r' % (f.__name__, e))
js()
print('=' * 78)
print('reproduced:', reproduced)
sys.exit(1 if reproduced else 0)
