#!/venv/bin/python
"""Reproduce the findings of FINDINGS.md on an athlib tree.

usage: /venv/bin/python demo.py /tmp/hunt_E
exit status 1 if any finding reproduces, 0 otherwise.
"""
import sys, os, json, subprocess, importlib

root = sys.argv[1] if len(sys.argv) > 1 else '/tmp/hunt_E'
sys.path.insert(0, root)
from athlib import codes
from athlib.utils import (normalize_event_code, check_event_code, discipline_sort_key,
                          text_discipline_sort_key, sort_by_discipline, get_distance)
from athlib.implements import get_implement_weight, get_specific_event_code
from athlib.wma.agegrader import AgeGrader

here = os.path.dirname(os.path.abspath(__file__))
reproduced = []

def call(f, *a):
    try:
        return f(*a)
    except Exception as e:      # noqa
        return 'RAISES %s(%s)' % (type(e).__name__, e)

def report(fid, title, rows):
    """rows: (input, expected, actual, bad?)"""
    print('=' * 78)
    print('%s  %s' % (fid, title))
    hit = False
    for inp, exp, act, bad in rows:
        print('  %-44s expected %-28s actual %s%s' % (inp, exp, act, '   <-- VIOLATION' if bad else ''))
        hit = hit or bad
    print('  => %s' % ('REPRODUCED' if hit else 'not reproduced'))
    if hit:
        reproduced.append(fid)

# ---------------------------------------------------------------- F1 (C10)
rows = []
for c in ['4x100', '4x400', '4xRELAY', 'DEC', 'HEP', 'PENWT', '24HR', 'T30', 'BAL', 'SPB']:
    ok = check_event_code(c) is not None
    r = call(AgeGrader.event_code_to_kind, c)
    rows.append(('event_code_to_kind(%r) [valid=%s]' % (c, ok), 'a kind, no exception', r,
                 ok and str(r).startswith('RAISES')))
report('F1', 'C10: kind classifier raises for valid relay / multi-event / timed / BAL, SPB codes', rows)

# ---------------------------------------------------------------- F2 (C17)
rows = []
for ev, g, ag in [('SP', 'M', 'U11'), ('JT', 'F', 'U11'), ('HT', 'F', 'U9'), ('DT', 'M', 'U9'),
                  ('SP', 'F', 'U12'), ('JT', 'M', 'U19'), ('SP', 'M', 'M40'), ('HT', 'M', '')]:
    w = call(get_implement_weight, ev, g, ag)
    r = call(get_specific_event_code, ev, g, ag)
    rows.append(('get_specific_event_code(%r,%r,%r) [table weight %r]' % (ev, g, ag, w),
                 'a valid throws code', r, str(r).startswith('RAISES')))
rows.append(("(contrast) get_specific_event_code('DT','F','U11')", 'a valid throws code',
             call(get_specific_event_code, 'DT', 'F', 'U11'), False))
report('F2', "C17: weight-specific code builder raises ValueError for the library's own labels U9/U11 (and any label the table does not know)", rows)

# ---------------------------------------------------------------- F3 (C10 + C07)
rows = []
for c in ['3000 SC', '110 H', '400 H', '80 H76.2cm8m', '5H', 'SC', 'LH']:
    ok = check_event_code(c) is not None
    k = call(discipline_sort_key, c)
    rows.append(('discipline_sort_key(%r) [valid=%s]' % (c, ok), 'family 2 (hurdles/steeple)', k,
                 ok and isinstance(k, tuple) and k[0] != 2))
lst = [dict(discipline=d) for d in ['5000', '3000 SC', '110 H', '1500']]
got = [d['discipline'] for d in sort_by_discipline(lst)]
rows.append(("sort_by_discipline(['5000','3000 SC','110 H','1500'])", "['1500','5000','110 H','3000 SC']", got,
             got != ['1500', '5000', '110 H', '3000 SC']))
for c in ['3000 SC', '110 H']:
    n = normalize_event_code(c)
    fi = bool(codes.PAT_HURDLES.match(c)); fo = bool(codes.PAT_HURDLES.match(n))
    rows.append(('PAT_HURDLES family of %r vs its normal form %r' % (c, n), 'same', '%s vs %s' % (fi, fo), fi != fo))
    rows.append(('sort family of %r vs its normal form %r' % (c, n), 'same',
                 '%s vs %s' % (discipline_sort_key(c)[0], discipline_sort_key(n)[0]),
                 discipline_sort_key(c)[0] != discipline_sort_key(n)[0]))
report('F3', 'C10/C07: hurdles and steeplechase written with the white space the pattern admits are keyed as flat track', rows)

# ---------------------------------------------------------------- F4 (C10)
rows = []
for c, exp in [('4x2.01K', 4 * 2010), ('4x4.02K', 4 * 4020), ('4x1.001K', 4 * 1001), ('9x1.019K', 9 * 1019),
               ('2.01K', 2010)]:
    r = call(get_distance, c)
    rows.append(('get_distance(%r)' % c, exp, r, r != exp))
report('F4', 'C10: relay distance is not legs x leg distance (binary floating point truncated by int())', rows)

# ---------------------------------------------------------------- F5 (C07 / C10)
rows = []
def fams(c):
    return sorted(k for k in ('PAT_TRACK', 'PAT_ROAD', 'PAT_HURDLES', 'PAT_RELAYS', 'PAT_THROWS', 'PAT_JUMPS')
                  if getattr(codes, k).match(c))
for c in ['mile', 'Mile', 'milew', '5 W']:
    n = call(normalize_event_code, c)
    rows.append(('families(%r) vs families(normalize -> %r)' % (c, n), 'equal', '%s vs %s' % (fams(c), fams(n)),
                 fams(c) != fams(n)))
for a, b in [('mile', 'MILE')]:
    rows.append(('discipline_sort_key(%r) vs (%r)' % (a, b), 'same family+distance',
                 '%s vs %s' % (discipline_sort_key(a)[:2], discipline_sort_key(b)[:2]),
                 discipline_sort_key(a)[:2] != discipline_sort_key(b)[:2]))
report('F5', "C07: normalisation moves a code into another family ('mile' is road only, 'MILE' is track+road)", rows)

# ---------------------------------------------------------------- F8 (C07, low)
rows = []
for a, b in [('SP4.０K', 'SP4K'), ('SP4.٠kg', 'SP4K'), ('80H76.2٠cm', '80H76.2cm')]:
    ok = check_event_code(a) is not None and check_event_code(b) is not None
    na, nb = call(normalize_event_code, a), call(normalize_event_code, b)
    rows.append(('normalize(%s) vs normalize(%r) [both valid=%s]' % (ascii(a), b, ok), 'identical',
                 '%s vs %r' % (ascii(na), nb), ok and na != nb))
report('F8', r'C07 (low): \d admits non-ASCII decimal digits; a trailing non-ASCII zero is not removed', rows)

# ---------------------------------------------------------------- JS
def run_js(items):
    f = os.path.join(here, '_demo_codes.json')
    with open(f, 'w') as fh:
        json.dump(items, fh)
    out = subprocess.check_output(['/usr/bin/node', os.path.join(here, 'jsh.js'), root, f])
    os.remove(f)
    return json.loads(out)

try:
    js1 = ['100H76.2cm8.5m8.5m', '100H84cm8.50m8.50m', '80H76.2cm12m2m']
    r1 = run_js(js1)
    r1n = run_js([r['norm'] for r in r1])
    rows = []
    for c, r, rn in zip(js1, r1, r1n):
        py = normalize_event_code(c)
        rows.append(('JS normalizeEventCode(%r)' % c, '%r (Python), accepted' % py,
                     '%r accepted-by-JS-checkEventCode=%s' % (r['norm'], rn['chk']), r['norm'] != py or not rn['chk']))
    report('F6', 'C07 (JS port): normalizeEventCode locates captures with indexOf; equal or nested hurdle spacing fields give a code that is not accepted', rows)

    js2 = ['4x100H', '4x1.5K', 'MILE', '2MILE', 'SC', 'TART', '4xRELAY']
    r2 = run_js(js2)
    rows = []
    for c, r in zip(js2, r2):
        pk = list(discipline_sort_key(c)); ptk = text_discipline_sort_key(c)
        rows.append(('JS discipline_sort_key(%r) / text key' % c, '%s / %s' % (pk[:2], ptk),
                     '%s / %s' % (r['key'][:2], r['tkey']), r['key'][:2] != pk[:2]))
    for c in ['4x1.5K', '4x2.5K', '4xSMR', '2MT']:
        r = run_js([c])[0]
        rows.append(('JS getDistance(%r)' % c, get_distance(c), r['dist'], r['dist'] != get_distance(c)))
    report('F7', 'C10 (JS port): sort key distance is NaN / -1 for valid relay, mile, SC and TART codes; relay distance of K legs wrong', rows)
except Exception as e:  # node missing etc.
    print('JS findings could not be run: %r' % e)

print('=' * 78)
print('reproduced:', ', '.join(reproduced) if reproduced else 'none')
sys.exit(1 if reproduced else 0)
