"""Shared by C06 and C18: request domains, driver line encoding, canonical forms and the property oracles
for round_up_str_num / format_seconds_as_time / parse_hms / is_hand_timing."""
import re, itertools, math
from fractions import Fraction

# ---------------------------------------------------------------- encoding
def cps(s):
    return ' '.join(str(ord(c)) for c in s)

def uncps(t):
    return ''.join(chr(int(x)) for x in t.split())

def line_rus(s, p, m):
    return 'tm\trus\t%s\t%d\t%d' % (cps(s), p, m)

def line_fmt(whole, text, p):
    return 'tm\tfmt\t%d\t%s\t%d' % (whole, cps(text), p)

def line_hms(t):
    return 'tm\thms\t' + cps(t)

def line_hand(t):
    return 'tm\thand\t' + cps(t)

def model_str(reply):
    """driver reply of rus/fmt -> ('s', text) or ('exc', name)"""
    if reply.startswith('s'):
        return ('s', uncps(reply[1:]))
    return ('exc', reply)

# ---------------------------------------------------------------- domains
DEC_RE = re.compile(r'[0-9]*(?:\.[0-9]*)?\Z')          # the modelled domain of round_up_str_num
FIXED_RE = re.compile(r'0\.[0-9]+\Z|1\.0+\Z|0\Z')      # fixed-notation residue text = Lean `FixedResidue`
MODEL_ALPHABET = set('0123456789+-.:;')

INT_PARTS = ['', '0', '00', '000', '9', '99', '999', '9999', '09', '099', '0999', '007', '0010', '1', '5', '10',
             '12', '59', '60', '100', '123', '1234', '3599', '8999']

def fractions_over(alpha, maxlen):
    out = ['']
    for n in range(1, maxlen + 1):
        out += [''.join(p) for p in itertools.product(alpha, repeat=n)]
    return out

def rus_requests(ctx, quick, mid=False):
    """(s, prec, maxDP) — quick: 24 integer parts x every fraction of 0-7 digits over {0,5,9} x prec 0..5
    (exhaustive over that alphabet), the dot-less and empty forms, and seeded others."""
    reqs = []
    fr = fractions_over('059', 7)
    for i in INT_PARTS:
        for p in range(6):
            reqs.append((i, p, 5))                       # no dot at all
        for f in fr:
            s = i + '.' + f
            for p in range(6):
                reqs.append((s, p, 5))
    if not quick:
        # full decimal alphabet: every 0-2 digit integer part (and the 24 above) x every 0-3 digit fraction; every 3 digit
        # integer part x every 0-2 digit fraction; four of the 24 parts x every 4-5 digit fraction
        d2 = fractions_over('0123456789', 2); d3 = fractions_over('0123456789', 3)
        for i in d2 + INT_PARTS:
            for f in d3:
                s = i + '.' + f
                for p in ((0, 2) if mid else range(5)):
                    reqs.append((s, p, 5))
        for i in d3[len(d2):]:
            for f in d2:
                s = i + '.' + f
                for p in ((1, 3) if mid else range(4)):
                    reqs.append((s, p, 5))
        for n in (() if mid else (4, 5)):
            for tup in itertools.product('0123456789', repeat=n):
                f = ''.join(tup)
                for i in INT_PARTS[::6]:
                    s = i + '.' + f
                    for p in range(6):
                        reqs.append((s, p, 5))
    rng = ctx.rng
    for _ in range(200000 if quick or mid else 500000):
        r = rng.random()
        li = rng.choice((0, 1, 1, 2, 2, 3, 4, 4, 5, 8, 15, 16, 17, 30)) if r < 0.9 else rng.randrange(0, 60)
        i = ''.join(rng.choice('0123456789' if rng.random() < 0.6 else '099') for _ in range(li))
        lf = rng.randrange(0, 10)
        f = ''.join(rng.choice('0123456789' if rng.random() < 0.5 else '0059') for _ in range(lf))
        s = i + ('.' + f if (f or rng.random() < 0.7) else '')
        p = rng.randrange(0, 6) if rng.random() < 0.9 else rng.randrange(6, 10)
        m = 5 if rng.random() < 0.8 else rng.randrange(0, 9)
        reqs.append((s, p, m))
    return reqs

CARRY_BASES = [1, 59, 60, 61, 119, 120, 599, 600, 3599, 3600, 3659, 3660, 7199, 7200, 35999, 36000, 86399, 86400,
               359999, 360000]

def fmt_requests(ctx, quick, mid=False):
    """(seconds, prec): every ms in 20 windows (+-1 s) around minute/hour carries up to 100 h, residues n*eps
    above integers, sums/products of grid values, a few ints; prec 0..3 (4, 5 must be refused)."""
    reqs = []
    rng = ctx.rng
    for b in CARRY_BASES:
        for k in range((b - 1) * 1000, (b + 1) * 1000 + 1):
            x = k / 1000.0
            for p in range(4):
                reqs.append((x, p))
    for w in (0, 1, 59, 60, 65, 3599, 3600, 359999):
        for e in range(4, 17):
            for n in range(1, 10):
                x = w + n * 10.0 ** -e
                for p in range(4):
                    reqs.append((x, p))
    for x in (65.00000000000001, 1e-05, 5e-05, 1e-07, 0.0, 59.99999999, 3599.9999999, 12.000000001, 0.1 + 0.2, 0.99999,
              0.999994, 0.9999949999, 59.9995, 3599.99, 0.9999999999, 0.12300999996, 0, 59, 60, 3600, 360000,
              -0.0, round(-1e-9, 3), 0.0 * -1):   # a zero with the sign bit set is a non-negative duration (== 0)
        for p in range(6):
            reqs.append((x, p))
    n = 6000 if quick else 60000
    for _ in range(n):
        a = rng.randrange(0, 720000) / 100.0
        b = rng.randrange(0, 7200000) / 1000.0
        c = rng.randrange(1, 1000) / 100.0
        for x in (a + b, a * c, b / 3, a + 0.1 + 0.2, b * 1.1):
            reqs.append((x, rng.randrange(0, 4)))
    if not quick:
        # the whole 0.001 grid to 2 h (precision cycling with the index), strided to 100 h
        for k in range(0, 7200001, 3 if mid else 1):
            reqs.append((k / 1000.0, k % 4))
        for k in range(7200001, 360000001, 997):
            reqs.append((k / 1000.0, k % 4))
    return reqs

FIELDS = ['0', '00', '7', '07', '59', '60', '61', '99', '100', '5.5', '05.50', '59.99', '.5', '5.', '0.001',
          '', '.', '-1', '+2', '-0.5', '1.2.3', 'x', '--1', '+']
EXOTIC_FIELDS = ['1e3', ' 5', '5 ', '1_0', 'inf', 'nan', '-Infinity', '٣', '１２', '1E-2', '0x10', '1__0', '_1',
                 '\t7\n', '1e400', '9' * 400, '9' * 400 + '.5', '9' * 5000, '1e', 'e1', '\x00', '1,5']

def hms_requests(ctx, quick, mid=False):
    """texts: all 1-3 field strings over FIELDS with ':' and with ';', mixed separators, 4 fields, exotic and junk"""
    out = []
    for n in (1, 2, 3):
        for tup in itertools.product(FIELDS, repeat=n):
            if n == 1:
                out.append(tup[0])
            else:
                out.append(':'.join(tup)); out.append(';'.join(tup))
    rng = ctx.rng
    for _ in range(3000):
        a, b, c, d = (rng.choice(FIELDS) for _ in range(4))
        out += [a + ':' + b + ';' + c, a + ';' + b + ':' + c, ':'.join((a, b, c, d)), ';'.join((a, b, c, d))]
    # exotic float()/int() syntax: totality only
    for e in EXOTIC_FIELDS:
        out.append(e)
        for f in FIELDS[:14] + EXOTIC_FIELDS[:6]:
            out += [e + ':' + f, f + ':' + e, f + ';' + e, '1:' + f + ':' + e, e + ':' + f + ':2.5']
    # seeded digit strings of realistic shape
    for _ in range(20000 if quick else 200000):
        k = rng.randrange(1, 4)
        fs = []
        for j in range(k):
            s = str(rng.randrange(0, rng.choice((10, 60, 100, 1000, 10 ** 6, 10 ** 17))))
            if rng.random() < 0.3: s = '0' + s
            if rng.random() < 0.4: s += '.' + ''.join(rng.choice('0123456789') for _ in range(rng.randrange(0, 5)))
            fs.append(s)
        out.append(rng.choice(':;').join(fs))
    # junk
    alpha = list('0123456789') * 3 + list(':;..+-') * 2 + list(' _eEx,/\t\n') + ['inf', 'nan', '٣', '５', '²', '\x00', 'é', '\U0001d7d8']
    for _ in range(20000 if quick else 200000):
        out.append(''.join(rng.choice(alpha) for _ in range(rng.randrange(0, 9))))
    return out

def hms_in_model(t):
    """the modelled grammar's alphabet, fields short enough that Python floats do not overflow"""
    return set(t) <= MODEL_ALPHABET and all(len(f) <= 300 for f in re.split('[:;]', t))

def hand_requests(ctx):
    out = ['12.0', '12.05', '12', '1:02.3', '1:02.34', '12.', '.5', '', '.', '1.2.34', '1.2.3', '10.123', '..', '1:2.5.', 'abc']
    rng = ctx.rng
    for _ in range(3000):
        out.append(''.join(rng.choice('0123456789.:1') for _ in range(rng.randrange(0, 9))))
    return out

# ---------------------------------------------------------------- canonical forms
def canon_dec(s):
    """decimal text up to leading zeros of the integer part: (int value of integer part, fraction digits | None)"""
    m = re.fullmatch(r'([0-9]*)(?:\.([0-9]*))?', s)
    if not m or s == '':
        return ('raw', s)
    return (int(m.group(1) or '0'), m.group(2))

def call(f, *a):
    try:
        return ('ok', f(*a))
    except Exception as e:
        return ('exc', type(e).__name__)

def canon_num(r):
    """result of parse_hms: ('i', n) | ('f', Fraction) | ('special', text) | ('exc', name)"""
    if r[0] == 'exc':
        return r
    v = r[1]
    if isinstance(v, bool):
        return ('other', repr(v))
    if isinstance(v, int):
        return ('i', v)
    if isinstance(v, float):
        if math.isinf(v) or math.isnan(v):
            return ('special', repr(v))
        return ('f', Fraction(v))
    return ('other', type(v).__name__)

def model_num(reply):
    if reply == 'ValueError':
        return ('exc', 'ValueError')
    w = reply.split()
    if w[0] == 'i':
        return ('i', int(w[1]))
    if w[0] == 'f':
        return ('f', Fraction(int(w[1]), 10 ** int(w[2])))
    return ('bad', reply)

FTOL = Fraction(4, 2 ** 52)
def num_agree(a, b, scale=1):
    """implementation value a vs exact model value b: same kind; ints equal; floats within relative 2^-50 of the
    larger of the value and `scale` (the sum of the magnitudes of the terms, for signed fields that cancel)"""
    if a[0] != b[0]:
        return False
    if a[0] == 'f':
        return abs(a[1] - b[1]) <= FTOL * max(1, abs(b[1]), scale)
    return a[1] == b[1]

def hms_scale(t):
    """sum of |field| * 60^k over the fields that are plain decimals (1 if none)"""
    tot = Fraction(0)
    for f in re.split('[:;]', t):
        m = re.fullmatch(r'[+-]?([0-9]*)\.?([0-9]*)', f)
        tot = tot * 60 + (Fraction(int((m.group(1) + m.group(2)) or '0'), 10 ** len(m.group(2))) if m else 0)
    return max(tot, 1)

# ---------------------------------------------------------------- oracles (from the property text)
def oracle_rus(s, p, m):
    """value of s truncated to m decimals, rounded up to p decimals -> scaled integer (value * 10^p)"""
    i, _, f = s.partition('.')
    f = f[:m]
    num = int(i or '0') * 10 ** len(f) + int(f or '0')          # / 10^len(f)
    return -((-num * 10 ** p) // 10 ** len(f))

def check_rus(s, p, m, res):
    """None if res (a string) is what the property demands, else a description"""
    mm = re.fullmatch(r'([0-9]*)(?:\.([0-9]*))?', res)
    if not mm or res in ('', '.'):
        return 'not a decimal string'
    i, f = mm.group(1), mm.group(2)
    if p == 0:
        if f is not None: return 'has a decimal point at precision 0'
        f = ''
    elif f is None or len(f) != p:
        return 'does not have exactly %d decimals' % p
    got = int(i or '0') * 10 ** p + int(f or '0')
    want = oracle_rus(s, p, m)
    if got != want:
        return 'value %s/10^%d, ceiling is %s/10^%d' % (got, p, want, p)
    return None

FMT_RE = re.compile(r'(?:([0-9]+):([0-9]{2}):([0-9]{2})|([0-9]+):([0-9]{2})|([0-9]+))(?:\.([0-9]+))?\Z')
def check_fmt(x, p, res):
    """the property for one formatted duration; returns (problem | None, value as Fraction | None)"""
    m = FMT_RE.match(res)
    if not m:
        return 'not h:mm:ss text', None
    h, mi, s, mi2, s2, s3, fd = m.groups()
    if h is not None:
        H, M, S = int(h), int(mi), int(s)
        if H == 0 or (len(h) > 1 and h[0] == '0'): return 'zero or zero-padded hours field', None
    elif mi2 is not None:
        H, M, S = 0, int(mi2), int(s2)
        if M == 0 or (len(mi2) > 1 and mi2[0] == '0'): return 'zero or zero-padded leading minutes field', None
    else:
        H, M, S = 0, 0, int(s3)
        if len(s3) > 1 and s3[0] == '0': return 'zero-padded seconds', None
    if M >= 60 or S >= 60:
        return 'minutes or seconds field not below 60', None
    if len(fd or '') != p or (p == 0 and fd is not None):
        return 'does not have %d decimals' % p, None
    v = Fraction(H * 3600 + M * 60 + S) + (Fraction(int(fd), 10 ** p) if fd else 0)
    X = Fraction(x)
    lo = Fraction(math.floor(X * 10 ** 5), 10 ** 5)
    if v < lo:
        return 'rounded down: %s < duration (5-decimal truncation %s)' % (v, lo), v
    if not v < X + Fraction(1, 10 ** p) + Fraction(1, 10 ** 9):
        return 'a whole unit of the last digit (or more) above the duration', v
    return None, v

def oracle_hms(t):
    """exact sexagesimal value for the modelled grammar: ('i', n) | ('f', Fraction) | ('exc','ValueError')"""
    sep = ':' if ':' in t else ';' if ';' in t else None
    fields = t.split(sep) if sep else [t]
    tot = Fraction(0); isint = True
    for f in fields:
        m = re.fullmatch(r'([+-]?)(?:([0-9]+)|([0-9]+)\.([0-9]*)|\.([0-9]+))', f)
        if not m:
            return ('exc', 'ValueError')
        sg = -1 if m.group(1) == '-' else 1
        if m.group(2) is not None:
            v = Fraction(int(m.group(2)))
        else:
            isint = False
            a = m.group(3) or '0'; b = (m.group(4) if m.group(3) is not None else m.group(5)) or ''
            v = Fraction(int(a + b), 10 ** len(b))
        tot = tot * 60 + sg * v
    return ('i', int(tot)) if isint else ('f', tot)

def residue_texts(x):
    """int(seconds), the exact residue, and candidate texts for it: '%.9f' (the repaired code), repr, other widths"""
    whole = int(x)
    frac = x - whole
    exact = (Fraction(x) - whole) == Fraction(frac)
    return whole, frac, exact

def text_is_rendering(text, frac, tol=Fraction(1, 10 ** 9)):
    """the hint text is fixed notation and a correct decimal rendering of the residue (to within tol)"""
    if not FIXED_RE.match(text):
        return False
    return abs(Fraction(text) - Fraction(frac)) <= tol
