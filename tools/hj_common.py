"""High-jump harness pieces shared by C02 / C03 / C08: operations on the real object, observable snapshot,
an independent referee written from the property text (cards only, no flags), generators."""
from decimal import Decimal as D
import itertools

TR = {'o': 'cleared', 'x': 'failed', 'p': 'passed', 'r': 'retired'}
LET = {'o': 'o', 'x': 'x', 'p': '-', 'r': 'r'}

def new_comp(athlib, float_heights=False, scale=100, int_bibs=False):
    """float_heights: bar heights are passed as Python floats (as the unit tests do) instead of Decimal;
    scale: the integer heights of the ops are 1/scale metres (1000: millimetre heights, e.g. converted imperial marks)"""
    c = athlib.HighJumpCompetition()
    c._verif_float = float_heights
    c._verif_scale = scale
    c._verif_intbibs = int_bibs          # bibs handed over as numbers (7) instead of text ('7'): a caller's choice the library keeps as given
    return c

_SCALE = [100]
def _c(v):
    return int(round(v * _SCALE[0]))

def apply_op(athlib, c, op):
    """op = ('add', bib:int) | ('bar', h:int hundredths) | ('trial', bib:int, t in 'oxpr'); returns outcome string"""
    try:
        if op[0] == 'peek':
            c.to_matrix(); c.trials; c.remaining; [j.place for j in c.jumpers]
        elif op[0] == 'add':
            if op[1] == 0: c.add_jumper()                      # no bib given: the library files the athlete under its default bib '0'
            else: c.add_jumper(bib=op[1] if getattr(c, '_verif_intbibs', False) else str(op[1]))
        elif op[0] == 'bar':
            sc = getattr(c, '_verif_scale', 100)
            c.set_bar_height(op[1] / float(sc) if getattr(c, '_verif_float', False) else D(op[1]) / sc)
        else:
            getattr(c, TR[op[2]])(op[1] if getattr(c, '_verif_intbibs', False) else str(op[1]))
        return 'ok'
    except athlib.RuleViolation:
        return 'rule'
    except KeyError:
        return 'key'
    except AssertionError:
        return 'assert'
    except Exception as e:                                  # anything else is reported verbatim
        return 'other:' + type(e).__name__

def snap(c):
    """everything C02 calls observable: state, heights, every card, best, place, remaining/eliminated lists,
    action log, trials"""
    _SCALE[0] = getattr(c, '_verif_scale', 100)
    js = []
    for j in c.jumpers:
        js.append('%s:%s:%d:%s' % (j.bib, j.place if j.place != '' else '-', _c(j.highest_cleared),
                                   '/'.join(j.attempts_by_height)))
    rem = ','.join(str(j.bib) for j in c.remaining)
    acts = []
    for a, v in c.actions:
        if a == 'add_jumper': acts.append('a%s' % v.get('bib', '0'))
        elif a == 'set_bar_height': acts.append('b%d' % _c(v))
        else: acts.append('%s%s' % (c.action_letter[a], v))
    tr = ','.join('%s@%d%s' % (b, _c(h), r) for b, h, r in c.trials)
    return '%s|%s|%s|%s|%s|%s' % (c.state, ','.join(str(_c(h)) for h in c.heights), ';'.join(js), rem,
                                  ' '.join(acts), tr)

def op_line(op):
    if op[0] == 'peek': return None                          # read-only views: nothing for the model to do
    if op[0] == 'add': return 'hj\tadd\t%d' % op[1]
    if op[0] == 'bar': return 'hj\tbar\t%d' % op[1]
    return 'hj\ttrial\t%d\t%s' % (op[1], op[2])

def fmt_ops(ops):
    out = []
    for op in ops:
        if op[0] == 'peek': out.append('to_matrix()')
        elif op[0] == 'add': out.append('add %d' % op[1])
        elif op[0] == 'bar': out.append('bar %.2f' % (op[1] / 100))
        else: out.append('%s %d' % (TR[op[2]], op[1]))
    return out

def replay_py(ops, float_heights=False, scale=100, int_bibs=False):
    """python statements that rebuild the history on the real object"""
    L = ['from decimal import Decimal as D', 'c = athlib.HighJumpCompetition()', 'log = []', 'def _do(f, *a):',
         '    try: f(*a); log.append("ok")', '    except Exception as e: log.append(type(e).__name__)']
    for op in ops:
        if op[0] == 'peek': L.append("_do(c.to_matrix)")
        elif op[0] == 'add' and op[1] == 0: L.append("_do(lambda: c.add_jumper())")
        elif op[0] == 'add': L.append("_do(lambda: c.add_jumper(bib=%r))" % (op[1] if int_bibs else str(op[1])))
        elif op[0] == 'bar' and float_heights: L.append("_do(c.set_bar_height, %r)" % (op[1] / float(scale)))
        elif op[0] == 'bar' and scale != 100: L.append("_do(c.set_bar_height, D(%r) / %d)" % (str(op[1]), scale))
        elif op[0] == 'bar': L.append("_do(c.set_bar_height, D(%r))" % ('%.2f' % (op[1] / 100)))
        else: L.append("_do(c.%s, %r)" % (TR[op[2]], op[1] if int_bibs else str(op[1])))
    L.append("result = (log, c.state, [(j.bib, j.place, str(j.highest_cleared), j.attempts_by_height) for j in c.jumpers])")
    return '\n'.join(L)


# ----------------------------------------------------------------------------------------------
# Referee: written from the text of C02 / C03 over the accepted history (cards, counters of
# consecutive failures, jump-off participant sets).  No dismissed/eliminated flags, no ranked list.
# Answers are three-valued: True / False / None (= the property text does not settle it).
# ----------------------------------------------------------------------------------------------
class Ref:
    def __init__(self):
        self.bibs = []            # registration order
        self.heights = []
        self.cards = {}           # bib -> list of strings, one per height
        self.phase = 'scheduled'
        self.P = None             # jump-off: participants of the current jump-off height
        self.T0 = set()           # everybody who was tied for first when the jump-off was declared (retired or not)
        self.lim = {}             # attempts per height: 3, or 1 for a jump-off participant
        self.consec = {}          # consecutive failures since the last clearance / reinstatement
        self.waiting = set()      # reinstated at the height they went out at: must wait for the next bar
        self.fuzzy = False        # a pass / skipped height inside a jump-off: jump-off questions are unspecified

    # ---- card helpers
    def cell(self, b):
        c = self.cards[b]
        while len(c) < len(self.heights): c.append('')
        return c[-1] if c else ''
    def retired(self, b):
        return any('r' in x for x in self.cards[b])
    def out(self, b):
        return self.retired(b) or self.consec[b] >= self.lim[b]
    def best(self, b):
        hs = [h for h, x in zip(self.heights, self.cards[b]) if 'o' in x]
        return max(hs) if hs else None
    def key(self, b):
        """countback key from the card alone: greatest height cleared, failures at that height (the first
        column where it was cleared), failures up to and including that column; None = no clearance"""
        bh = self.best(b)
        if bh is None: return None
        col = min(i for i, (h, x) in enumerate(zip(self.heights, self.cards[b])) if 'o' in x and h == bh)
        fa = self.cards[b][col].count('x')
        fb = sum(x.count('x') for x in self.cards[b][:col + 1])
        return (-bh, fa, fb)

    # ---- is the call allowed?  True / False / None (not settled by the property text)
    def allowed(self, op):
        if op[0] == 'add':
            return self.phase == 'scheduled' and op[1] not in self.bibs
        if self.fuzzy: return None                         # after a pass inside a jump-off nothing more is settled
        if op[0] == 'bar':
            if self.phase in ('finished', 'drawn'): return False
            if self.phase == 'jumpoff': return True
            last = self.heights[-1] if self.heights else 0
            return op[1] > last
        b = op[1]
        if b not in self.bibs: return None                  # not a bib of this competition
        if self.phase in ('scheduled', 'finished', 'drawn'): return False
        if not self.heights: return False
        if self.retired(b): return False
        cur = self.cell(b)
        if 'o' in cur or '-' in cur: return False           # cleared or passed the current height
        if self.phase == 'jumpoff':
            if self.fuzzy: return None
            if b not in self.P: return False                # decided against them
            if b in self.waiting: return False              # went out at this height; jump-off starts at the next bar
            if self.consec[b] >= self.lim[b]: return False
            return len(cur) < 1
        if self.consec[b] >= self.lim[b]: return False      # three consecutive failures
        if self.phase == 'won' and self.out(b): return False
        return len(cur) < self.lim[b]

    # ---- record an accepted call
    def record(self, op):
        if op[0] == 'add':
            b = op[1]; self.bibs.append(b); self.cards[b] = []; self.lim[b] = 3; self.consec[b] = 0
            return
        if op[0] == 'bar':
            if self.phase == 'scheduled': self.phase = 'started'
            if self.phase == 'jumpoff':
                # survivors of the previous jump-off height
                if any(b not in self.waiting and self.cell(b) == '' for b in self.P if not self.out(b)):
                    self.fuzzy = True                        # somebody skipped a jump-off height
                S = {b for b in self.P if not self.out(b)}
                if S: self.P = S
            self.heights.append(op[1])
            self.waiting = set()
            return
        b, t = op[1], op[2]
        self.cell(b)
        self.cards[b][-1] += LET[t]
        if t == 'o': self.consec[b] = 0
        elif t == 'x': self.consec[b] += 1
        elif t == 'p' and self.phase == 'jumpoff': self.fuzzy = True
        self.decide()

    def reinstate(self, Q):
        self.P = set(Q)
        for b in Q:
            self.consec[b] = 0; self.lim[b] = 1
            self.waiting.add(b)

    def decide(self):
        if not self.bibs: return
        alive = [b for b in self.bibs if not self.out(b)]
        if not alive:
            if self.phase == 'jumpoff' and not self.fuzzy:
                # nobody cleared this jump-off height: the same participants go on, minus retirements
                Q = [b for b in self.bibs if b in self.P and not self.retired(b)]
                if Q: self.reinstate(Q)
                else: self.phase = 'drawn'               # every remaining participant retired: the tie stands
                return
            ks = {b: self.key(b) for b in self.bibs}
            withk = [b for b in self.bibs if ks[b] is not None]
            pool = withk if withk else self.bibs
            bestk = min(ks[b] for b in pool) if withk else None
            F = [b for b in pool if ks[b] == bestk]
            if len(F) >= 2:
                Q = [b for b in F if not self.retired(b)]
                self.T0 |= set(F)
                if Q: self.phase = 'jumpoff'; self.reinstate(Q)
                else: self.phase = 'drawn'
            elif self.phase == 'jumpoff' and not self.retired(F[0]):
                self.reinstate(F)                            # (only reachable after a pass inside a jump-off)
            else:
                self.phase = 'finished'
        elif len(alive) == 1:
            w = alive[0]
            if len(self.cards[w]) == len(self.heights) and 'o' in self.cards[w][-1]:
                self.phase = 'won' if self.phase in ('started', 'won') else 'finished'

    # ---- final places from the cards (C03)
    def places(self):
        """bib -> place or None (no clearance).  Countback; exact ties share; competition ranking;
        a jump-off survivor is first, the other jump-off participants keep countback order among themselves,
        ahead of everybody who was not tied for first."""
        ks = {b: self.key(b) for b in self.bibs}
        def group(b):
            if b in self.T0:
                if self.phase == 'finished' and not self.out(b): return 0
                return 1
            return 2
        full = {b: (group(b),) + ks[b] for b in self.bibs if ks[b] is not None}
        res = {}
        for b in self.bibs:
            res[b] = None if ks[b] is None else 1 + sum(1 for c in full if full[c] < full[b])
        return res


# ----------------------------------------------------------------------------------------------
# structured generator for C03: complete competitions over the legal attempt strings
# ----------------------------------------------------------------------------------------------
ATT = ['o', 'xo', 'xxo', 'xxx', 'x-', 'xx-', '-', 'r', 'xr', 'xxr', '']
ATT_W = [6, 3, 2, 4, 1, 1, 2, 1, 1, 1, 1]
# sampled plans also stop after one or two failures with attempts left (the bar moves on: a cell of failures only)
ATT_ALL = ATT + ['x', 'xx']
ATT_W_ALL = ATT_W + [1, 1]

def gen_competition(rng, athlib, nath=None, nheights=None, jo_heights=3, att_choice=None, jo_letters=('oxr', [4, 5, 1]),
                    on_call=None, probes=False, float_heights=False, h0=100, steps=(3, 5), peek=False):
    """drive a real competition + referee through a structured complete competition; returns
    (ops, comp, ref). Within a height athletes take trials round-robin (attempt 1 of everybody, ...).
    on_call(c, ref, ops_so_far, op) -> outcome may replace the plain application (it must record accepted
    calls in the referee itself); probes=True adds calls the rules forbid (athletes who are out, extra attempts)."""
    nath = nath or rng.randint(2, 4)
    nheights = nheights or rng.randint(1, 4)
    c = new_comp(athlib, float_heights); r = Ref(); ops = []
    def do(op):
        if on_call is not None:
            out = on_call(c, r, list(ops), op)
            ops.append(op)
            return out
        out = apply_op(athlib, c, op)
        ops.append(op)
        if out == 'ok': r.record(op)
        return out
    def probe():
        if peek and rng.random() < 0.6:
            # read-only views of the competition (card export, trial list, who is left): looking must not change anything
            apply_op(athlib, c, ('peek',)); ops.append(('peek',))
        if not probes: return
        for b in range(1, nath + 1):
            if rng.random() < 0.5:
                do(('trial', b, rng.choice('oxpr')))
    for b in range(1, nath + 1): do(('add', b))
    h = h0
    seen_heights = []
    for hi in range(nheights):
        if c.state not in ('started', 'scheduled', 'won'): break
        h += rng.choice(steps)
        if do(('bar', h)) != 'ok': break
        seen_heights.append(h)
        if peek and rng.random() < 0.4:
            apply_op(athlib, c, ('peek',)); ops.append(('peek',))          # the table read just after the bar has moved
        plan = {}
        for b in range(1, nath + 1):
            plan[b] = att_choice(rng) if att_choice else rng.choices(ATT_ALL, ATT_W_ALL)[0]
        for a in range(3):
            order = list(range(1, nath + 1))
            for b in order:
                if len(plan[b]) > a and c.state in ('started', 'won'):
                    if probes and rng.random() < 0.12:
                        do(('bar', h - rng.choice((0, 1, 2, 3))))      # mid-round: the bar cannot stay or go down; must be refused and change nothing
                    t = plan[b][a]
                    do(('trial', b, {'o': 'o', 'x': 'x', '-': 'p', 'r': 'r'}[t]))
        probe()
    # jump-off continuation: the bar is raised, repeated, or lowered (also to exactly an earlier height)
    k = 0
    while c.state == 'jumpoff' and k < jo_heights:
        k += 1
        pbest = [r.best(b) for b in r.bibs if b in (r.P or ()) and r.best(b)]
        if pbest and rng.random() < 0.35:
            h2 = rng.choice(pbest)                       # exactly a participant's best
        else:
            h2 = rng.choice(seen_heights + [h - 4, h - 2, h, h, h + 2, h + 3])
        if h2 <= 0: h2 = h
        h = h2
        do(('bar', h))
        seen_heights.append(h)
        if peek and rng.random() < 0.5:
            apply_op(athlib, c, ('peek',)); ops.append(('peek',))          # ... also inside a jump-off
        parts = [b for b in r.bibs if b in (r.P or ())]
        rng.shuffle(parts)
        for b in parts:
            if c.state != 'jumpoff': break
            do(('trial', b, rng.choices(jo_letters[0], jo_letters[1])[0]))
        probe()
    return ops, c, r
