"""Child of tools/checks/c16.py: one schedule (or one single-threaded order) run from a FRESH import of athlib, so that
first-call state is really first-call state (nothing the parent has consumed or cached).
  argv[1] = JSON {names: [...], directives: [[tid, relfile, line, occ, to], ...] | null, order: [...], seq: bool}
prints one JSON line: {"results": [...]}"""
import sys, os, json, io, contextlib
sys.path.insert(0, os.path.dirname(os.path.abspath(__file__)))


def main():
    spec = json.loads(sys.argv[1])
    with contextlib.redirect_stdout(io.StringIO()):
        from checks import c16
        import sched
        w = c16.World()
        names = spec['names']
        if spec.get('seq'):
            res = [None] * len(names)
            for i in spec['order']:
                res[i] = w.call(names[i])
        else:
            directives = [(d[0], (w.abs(d[1]), d[2]), d[3], d[4]) for d in spec['directives']]
            s = sched.Sched([w.thunk(n) for n in names], directives, order=spec['order'], prefix=w.prefix_raw, timeout=30.0)
            res = [c16.canon(r) for r in s.run()]
    print(json.dumps({'results': res}))


if __name__ == '__main__':
    main()
