"""Controlled line-level thread scheduler for CPython (DESIGN.md section 7/C16, appendix I).

Real threads run the real functions, but only the thread that holds the *baton* makes progress:
every thread has its own semaphore and blocks on it until another thread hands the baton over.
A `sys.settrace` local trace function sees every 'line' event inside files under `prefix`
(<repo>/athlib/) and, when the next *directive* of the schedule matches
(thread, (file, line), n-th execution of that line by that thread), hands the baton to the thread the
directive names *before* the line runs - a forced pre-emption at source-line granularity.
A thread that finishes hands the baton to the next unfinished thread (cyclically in `order`).

Locks: a thread that blocks in C on a `threading.Lock` held by a descheduled thread would hang the
run, so `patch_locks` swaps every lock object found in athlib module state for a `CoopLock` that
yields the baton instead of blocking.  Every run has a watchdog: if the run does not finish within
`timeout` seconds the threads are aborted and `Hang` is raised (an internal error, never a violation).
"""
import sys, threading, _thread


class Hang(BaseException):
    """a schedule could not be completed (deadlock, livelock, time-out): an internal error of the check,
    never a verdict about the code; BaseException so that no `except Exception` under test swallows it"""


class _Abort(BaseException):
    pass


_current = None          # the Sched that is running (CoopLock needs it)


class CoopLock:
    """stand-in for threading.Lock/RLock in module state of the code under test; only ever used by the
    baton holder, so it needs no atomicity of its own"""
    def __init__(self, reentrant=False):
        self.owner = None; self.depth = 0; self.reentrant = reentrant

    def acquire(self, blocking=True, timeout=-1):
        me = _thread.get_ident()
        while True:
            if self.owner is None or (self.reentrant and self.owner == me):
                self.owner = me; self.depth += 1
                return True
            if not blocking:
                return False
            s = _current
            if s is None:
                raise Hang('lock contended outside a scheduled run')
            s.blocked_yield()

    def release(self):
        self.depth -= 1
        if self.depth <= 0:
            self.owner = None; self.depth = 0

    def __enter__(self):
        return self.acquire()

    def __exit__(self, *a):
        self.release()

    def locked(self):
        return self.owner is not None


_LOCK_TYPES = (type(threading.Lock()), type(threading.RLock()))


class _ThreadingProxy:
    """what the code under test sees as the `threading` module: Lock/RLock make cooperative locks (so locks
    that are created lazily, inside a call, cannot block the baton holder either); the rest is delegated"""
    def __getattr__(self, name):
        return getattr(threading, name)
    @staticmethod
    def Lock():
        return CoopLock()
    @staticmethod
    def RLock():
        return CoopLock(reentrant=True)


_PROXY = _ThreadingProxy()
_FACTORIES = {id(threading.Lock): _ThreadingProxy.Lock, id(_thread.allocate_lock): _ThreadingProxy.Lock,
              id(threading.RLock): _ThreadingProxy.RLock}


def patch_locks(namespaces):
    """replace lock objects (and the `threading` module / its lock factories) in the given dict-like
    namespaces (module __dict__, instance __dict__); returns the list of (namespace-name, attribute) replaced"""
    done = []
    for label, ns in namespaces:
        for k, v in list(ns.items()):
            if isinstance(v, _LOCK_TYPES):
                ns[k] = CoopLock(reentrant=isinstance(v, _LOCK_TYPES[1]) and _LOCK_TYPES[0] is not _LOCK_TYPES[1])
                done.append((label, k))
            elif v is threading:
                ns[k] = _PROXY
            elif id(v) in _FACTORIES and not isinstance(v, type(_PROXY)):
                try:
                    ns[k] = _FACTORIES[id(v)]
                except TypeError:
                    pass
    return done


class Sched:
    """thunks: list of zero-argument callables, one per thread.
    directives: list of (tid, (filename, lineno), occurrence, to_tid), consumed strictly in order.
    order: permutation of thread ids; order[0] starts, a finishing thread hands over cyclically."""

    def __init__(self, thunks, directives=(), order=None, prefix='/repo/athlib/', timeout=20.0, record=False):
        self.thunks = thunks; self.n = len(thunks)
        self.directives = list(directives); self.di = 0
        self.order = list(order) if order is not None else list(range(self.n))
        self.prefix = prefix; self.timeout = timeout
        self.sems = [threading.Semaphore(0) for _ in thunks]
        self.main = threading.Semaphore(0)
        self.done = [False] * self.n
        self.res = [None] * self.n
        self.counts = [dict() for _ in thunks]
        self.trace = [[] for _ in thunks] if record else None
        self.fired = []            # (tid, filename, lineno, funcname, occurrence, to)
        self.switches = []         # compact history: thread ids in the order they held the baton
        self.steps = 0; self.yields = 0
        self.abort = False
        self.ident = {}

    # ---- baton -----------------------------------------------------------
    def _next_unfinished(self, tid):
        p = self.order.index(tid)
        for k in range(1, self.n):
            c = self.order[(p + k) % self.n]
            if not self.done[c]:
                return c
        return None

    def _handover(self, tid, to):
        self.switches.append(to)
        self.sems[to].release()
        self.sems[tid].acquire()
        if self.abort:
            raise _Abort()

    def blocked_yield(self):
        tid = self.ident.get(_thread.get_ident())
        to = None if tid is None else self._next_unfinished(tid)
        self.yields += 1
        if to is None or self.yields > 10000:
            raise Hang('deadlock: thread %r waits for a lock nobody can release' % tid)
        self._handover(tid, to)

    # ---- tracing ---------------------------------------------------------
    def _tracer(self, tid):
        counts = self.counts[tid]; prefix = self.prefix
        rec = self.trace[tid] if self.trace is not None else None

        def local(frame, event, arg):
            if event == 'line':
                if self.abort:
                    raise _Abort()
                code = frame.f_code
                key = (code.co_filename, frame.f_lineno)
                n = counts.get(key, 0) + 1
                counts[key] = n
                self.steps += 1
                if rec is not None:
                    rec.append((key, n, code.co_name))
                if self.di < len(self.directives):
                    d = self.directives[self.di]
                    if d[0] == tid and d[1] == key and d[2] == n:
                        self.di += 1
                        to = d[3]
                        if to is None or to == tid or self.done[to]:
                            to = self._next_unfinished(tid)
                        if to is not None:
                            self.fired.append((tid, key[0], key[1], code.co_name, n, to))
                            self._handover(tid, to)
            return local

        def glob(frame, event, arg):
            if frame.f_code.co_filename.startswith(prefix):
                return local
            return None
        return glob

    def _run(self, tid):
        self.sems[tid].acquire()
        self.ident[_thread.get_ident()] = tid
        try:
            if self.abort:
                return
            sys.settrace(self._tracer(tid))
            try:
                try:
                    self.res[tid] = ('ok', self.thunks[tid]())
                except _Abort:
                    self.res[tid] = ('aborted',)
                except Hang as e:
                    self.res[tid] = ('hang', str(e)); self.abort = True
                except BaseException as e:
                    self.res[tid] = ('exc', type(e).__name__, str(e)[:200])
            finally:
                sys.settrace(None)
        finally:
            self.done[tid] = True
            nxt = self._next_unfinished(tid)
            if nxt is None or self.abort:
                self.main.release()
            else:
                self.switches.append(nxt)
                self.sems[nxt].release()

    def run(self):
        global _current
        ts = [threading.Thread(target=self._run, args=(i,), daemon=True) for i in range(self.n)]
        prev = _current
        _current = self
        try:
            for t in ts:
                t.start()
            self.switches.append(self.order[0])
            self.sems[self.order[0]].release()
            ok = self.main.acquire(timeout=self.timeout)
            if not ok or self.abort:
                self.abort = True
                for s in self.sems:
                    s.release(); s.release()
                for t in ts:
                    t.join(2.0)
                why = [r for r in self.res if r and r[0] == 'hang']
                raise Hang(why[0][1] if why else 'schedule did not finish within %.0fs (switches %r, fired %r)'
                           % (self.timeout, self.switches[-6:], self.fired))
            for t in ts:
                t.join(self.timeout)
                if t.is_alive():
                    raise Hang('thread did not terminate')
        finally:
            _current = prev
        return self.res


def solo_trace(thunk, prefix):
    """run one thunk alone on a scheduled thread; returns (result, [((file, line), occurrence, func), ...])"""
    s = Sched([thunk], prefix=prefix, record=True)
    r = s.run()
    return r[0], s.trace[0]


def points_of(trace):
    """pre-emption points of a trace: for every distinct (file, line) its first, second and last execution"""
    last = {}
    for key, n, fn in trace:
        last[key] = (n, fn)
    pts = []
    seen = set()
    for key, n, fn in trace:
        if n in (1, 2, last[key][0]) and (key, n) not in seen:
            seen.add((key, n))
            pts.append((key, n, fn))
    return pts
