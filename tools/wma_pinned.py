"""Specification-side copy of the published WMA tables (as of the verified tree) and a cell-by-cell comparison with
the files of the tree under test.  The translators regenerate the Lean tables from the tree's own JSON, so an edited
cell would otherwise move model and implementation together; this pins what the tables say."""
import os, json, gzip
VERIF = os.path.dirname(os.path.dirname(os.path.abspath(__file__)))
PIN = os.path.join(VERIF, 'spec', 'wma_tables_pinned.json.gz')
FILES = ['wma-athlons-data.json', 'wma-data-2015.json', 'wma-data-2023.json']


def make(repo):
    d = {f: open(os.path.join(repo, 'athlib', 'wma', f), encoding='utf-8').read() for f in FILES}
    with gzip.open(PIN, 'wt', encoding='utf-8') as fh:
        json.dump(d, fh)


def load_pinned():
    with gzip.open(PIN, 'rt', encoding='utf-8') as fh:
        return {f: json.loads(t) for f, t in json.load(fh).items()}


def diffs(repo):
    """[(file, gender, event, column, pinned value, live value)] — column None: the row itself is missing / moved / new;
    column 'ages': the age header differs"""
    pinned = load_pinned()
    out = []
    for f in FILES:
        try:
            live = json.load(open(os.path.join(repo, 'athlib', 'wma', f), encoding='utf-8'))
        except Exception as e:
            out.append((f, None, None, 'file', 'a readable JSON file', repr(e))); continue
        p = pinned[f]
        if live.get('ages') != p.get('ages'):
            out.append((f, None, None, 'ages', p.get('ages'), live.get('ages')))
        for g in ('m', 'f'):
            pr = p.get(g, []); lr = live.get(g, [])
            pn = [r[0] for r in pr]; ln = [r[0] for r in lr]
            if pn != ln:
                out.append((f, g, None, None, 'rows in the order %r' % (pn,), repr(ln)))
            lmap = {}
            for r in lr: lmap.setdefault(r[0], r)
            for r in pr:
                lrw = lmap.get(r[0])
                if lrw is None:
                    out.append((f, g, r[0], None, 'a row', 'missing')); continue
                for k in range(1, max(len(r), len(lrw))):
                    a = r[k] if k < len(r) else 'no such column'
                    b = lrw[k] if k < len(lrw) else 'no such column'
                    if a != b:
                        out.append((f, g, r[0], k, a, b))
    return out


if __name__ == '__main__':
    import sys
    make(sys.argv[1] if len(sys.argv) > 1 else '/repo')
    print(len(diffs(sys.argv[1] if len(sys.argv) > 1 else '/repo')), 'differences')
