"""writes MANIFEST.json from the table below (kept as code so it stays valid and consistent)"""
import json, os
HERE = os.path.dirname(os.path.dirname(os.path.abspath(__file__)))
PY = '/venv/bin/python'
CHECKS = {
 'C04': dict(
   text='Machine-checked proof (Lean 4, kernel-evaluated reflection through a regex emptiness checker proved sound against the denotational language) that for ALL Unicode strings the general pattern equals the union of the families, every composite equals the union of its parts and the four measurement kinds are pairwise disjoint; corollary: first-match classification is order independent. The theorems are re-checked on every run against patterns regenerated from athlib/codes.py.',
   note='Trusted: Lean kernel; axioms propext, Classical.choice, Quot.sound; translator tools/gen_regex.py (CPython re._parser -> RE AST over a 54-symbol partition of the code points), validated each run by differential execution of the Lean matcher against re.match on >400k (pattern,string) pairs; CPython re engine as the meaning of a pattern.',
   technique='Lean 4 proof by reflection (Brzozowski-derivative emptiness checker, decide +kernel) over patterns regenerated from source',
   ref='7/C04'),
}
CHECKS['C01'] = dict(
   text='Machine-checked proof that the exact model of athlon_score equals the World Athletics formula floor(A*|x-Z|^X) over the reals (Mathlib Real.rpow) for every well-formed row, kind and mark, with the age-adjusted mark the ceiling (times) / floor (distances) to 0.01, that ages below the first masters band leave the score unadjusted and that unknown pairs give no score; obligations over the coefficient table regenerated from source are kernel-decided. That the implementation equals the model on the decimal grid (float, int forms, every age band, ESAA option) is the correspondence: sampled with every float-hazard mark in quick, the whole 0.01 grid in thorough.',
   note='Trusted: Lean kernel + Mathlib (rpow, floor); axioms propext, Classical.choice, Quot.sound; tools/gen_tables.py; binary floating point is not modelled (the model takes the decimal mark) and is observed only through the correspondence, cross-checked against an independent Python-integer oracle. Events with a scoring row but no WMA factor raise ValueError with a masters age: observed, not demanded.',
   technique='Lean 4 proof (exact integer-root model = real formula) + translator for coefficients + exhaustive grid correspondence',
   ref='7/C01')
CHECKS['C09'] = dict(
   text='Machine-checked proof that the model of performance-needed is a Galois inverse of the score for every positive-exponent row, every kind and every target >= 1 (needed mark reaches the target, next-worse grid mark scores strictly less), negative targets behave as zero, unknown pairs give no answer. Correspondence with the implementation and the property on the implementation\'s own pair of functions are exhaustive over all table rows x targets -10..1500 in both tiers.',
   note='Trusted: Lean kernel; axioms propext, Classical.choice, Quot.sound; tools/gen_tables.py; conversion of the returned float to hundredths (checked within 1e-6).',
   technique='Lean 4 proof (bisection invariant over monotone exact points) + exhaustive correspondence',
   ref='7/C09')
CHECKS['C02'] = dict(
   text='Machine-checked proofs about the Lean transcription of highjump.py (HJ.step): a refused call leaves the WHOLE state unchanged (all states); the log records exactly the accepted calls; add only while scheduled / before the first bar (reachable states); the bar only rises outside a jump-off and never in finished/drawn; an accepted trial implies the athlete was not eliminated, not dismissed and had attempts left; the state never moves backwards and nothing is accepted once finished or drawn (every reachable state, by the invariants DrawnInv and StartedInv proved over all call sequences); a refusal is the rule-violation error. That the real object equals the transcription is the correspondence: every call (legal or not) in every state of an exhaustive breadth-first exploration and of seeded random walks, snapshot of all public attributes compared after each call. The card-level reading of the rules (three consecutive failures, jump-off participants, decided against) is judged on the implementation by an independent referee written from the property text.',
   note='Trusted: Lean kernel; axioms propext, Quot.sound (Classical.choice where simp uses it); the snapshot function and the referee in tools/hj_common.py; athletes registered with a bib only. Partial: the equivalence "accepted iff the card-level rules allow it" is not a theorem; it is decided by exhaustive bounded exploration + walks against the referee.',
   technique='Lean 4 proof (invariants by induction over all call sequences) over a transcription tied by exhaustive differential exploration',
   ref='7/C02')
CHECKS['C03'] = dict(
   text='Machine-checked proofs: the countback key order is a strict total order; the ranking algorithm (stable insertion sort + shared-place numbering) gives every entry the place 1 + number of strictly better keys, so equal keys share a place, places form a competition ranking and do not depend on the previous order; the model\'s sort on bibs is that key sort; a clearance never lowers the best and the best is always a height cleared. The placing clause on reachable terminal states (places = places computed from the cards, jump-off survivor first, other participants ahead of non-participants, no standing tie in finished) is decided on the implementation by the referee over an exhaustive enumeration of small complete competitions plus structured samples with multi-round jump-offs, and the final states are compared with the Lean model.',
   note='Trusted: as C02. Partial: C03_statement (places of reachable terminal states equal the card-level referee) is stated, not proved.',
   technique='Lean 4 proof of the ranking algorithm + exhaustive enumeration of complete competitions against a card-level referee',
   ref='7/C03')
CHECKS['C08'] = dict(
   text='Machine-checked proofs for every history: replaying the recorded action log from the empty competition reproduces the whole state; the log is exactly the accepted calls; refused calls are noise. The card export/import round trip and the independence from per-height interleavings are decided on the implementation (all interleavings when few, seeded samples otherwise) and replayed on the Lean model.',
   note='Trusted: as C02. Partial: C08_interleaving_statement and the matrix round trip are stated / checked by enumeration, not proved.',
   technique='Lean 4 proof (log replay by induction + atomicity) + enumeration of interleavings and card round trips',
   ref='7/C08')
CHECKS['C19'] = dict(
   text='Machine-checked proof over a transcription of the two memo caches of utils.py (look-up, reversed() eviction, expect_failure branch): for EVERY history, every truth function (what jsonschema decides, incl. other errors) and every capacity, each call is answered exactly as a first call on empty caches; the caches never exceed their capacity; every cached entry equals truth; the repaired look-up keeps caching. The pinned look-up is refuted by a kernel-decided two-call history. Correspondence: every distinct call is first made in a fresh interpreter with network functions stubbed to raise (baseline = truth), then all call sequences of length <= 3 over calls sharing a key, shared-file pairs, and long random sequences overflowing the 20-entry caches are run on the real functions and on the Lean model; bundled valid/invalid samples are asserted.',
   note='Trusted: Lean kernel; axioms propext, Quot.sound; jsonschema and the file system are the parameter truth (observed per call in a fresh process); tools/c19_child.py network stubs.',
   technique='Lean 4 proof (cache invariant by induction over all histories) + differential call sequences against fresh-process baselines',
   ref='7/C19')
CHECKS['C13'] = dict(
   text='Machine-checked proof (Lean 4, core only) that for ALL valid dates and years the transcribed age-group functions equal Rules 107 (meetings 1 Jan-30 Sep) and 207/507 (cut-off = last 31 August on or before the day) restated from the rule text on ages defined by anniversaries, always return a well-formed label, never give a younger group for an earlier birth date, that vets/underage change only masters/U9 outcomes and ROAD = XC; ages follow dateutil (29 Feb -> 28 Feb in common years, truncation below zero, proved irrelevant to every group). Correspondence with calc_uka_age_group (date objects and ISO strings) on boundary-dense sweeps: 9.3 M pairs quick, 116 M thorough, classified by an independent rule oracle.',
   note='Trusted: Lean kernel; axioms propext, Classical.choice, Quot.sound; dateutil (relativedelta years modelled and confirmed by a direct correspondence, ISO parsing observed only); the readings of the rule text written out in DESIGN.md (TF October-December outside the asserted range as the property says; road/XC cut-off = the 31 August on or before the day).',
   technique='Lean 4 proof (calendar arithmetic by omega, decision lists as threshold sums) + sharded boundary-dense correspondence with an independent rule oracle',
   ref='7/C13')
CHECKS['C17'] = dict(
   text='Machine-checked proofs over the decision tree of get_implement_weight regenerated from the Python ast on every run: for ANY event, gender and label string the weight is one of the table texts (or empty); non-throw codes pass through; a weight-specific code is the generic code + the table weight (+K); kernel-decided over the regenerated data: masters implements exist for every band V35..V150 and never get heavier, every code built for the library labels is in the language of PAT_THROWS and PAT_EVENT_CODE and spells the table weight, and every event-code key of the combined-events, Hungarian, Tyrving, QuadKids, Sportshall, Bulgarian and WMA tables is accepted by the general pattern. The translation is cross-checked exhaustively against the live functions on events x genders x ~600 labels; "already normalised" is checked on the implementation.',
   note='Trusted: Lean kernel; axioms propext, Classical.choice, Quot.sound; tools/gen_implements.py and gen_regex.py (both cross-checked each run); ASCII labels. Where no weight is tabulated get_specific_event_code raises ValueError: observed, not demanded.',
   technique='Lean 4 proof + decide +kernel over a decision tree regenerated from the Python ast and over live table keys',
   ref='7/C17')
CHECKS['C16'] = dict(
   text='Machine-checked proofs (Lean 4, core) that the protocols the repaired code follows are linearizable for ANY number of threads and EVERY schedule (no bound, no fairness): build-locally-then-publish lazy tables, assign-after-build, grader look-ups with thread-local results, bounded memo cache with eviction under one lock step; each finished thread holds its sequential result; the pinned protocols (publish-empty-then-fill, shared scratch, unlocked check-then-read) are refuted by kernel-decided counter-schedules. Tie to the code: (T) the ordered shared-state accesses of the anchored functions are regenerated from the Python ast on every run and a kernel-decided discipline (globals only rebound to completed locals, no read-back of per-call attributes on shared graders, cache mutation only under a lock) must hold of them; (C) a controlled line-level scheduler (sys.settrace + baton passing) runs the REAL functions under every schedule with one forced pre-emption (two in thorough) at every distinct athlib source line, first-call / warmed-up / cache-at-limit variants, pairs and triples, and compares every thread result with a single-threaded order.',
   note='Partial by nature: the model and the scheduler work at athlib source-line granularity; bytecode-level pre-emption inside a line, C-level dict atomicity and free-threaded builds are outside both. Trusted: Lean kernel; axioms propext, Classical.choice, Quot.sound; tools/gen_access.py; tools/sched.py.',
   technique='Lean 4 invariant proofs over step machines (all schedules) + ast access-discipline obligation + sys.settrace schedule enumeration on the real code',
   ref='7/C16')
CHECKS['C07'] = dict(
   text='Machine-checked proofs over the Lean transcription of normalize_event_code (capture-reporting backtracking matcher on the patterns, group map and normaliser table regenerated from codes.py / utils.py): for ALL strings no result contains white space; a string is refused with ValueError exactly when the general pattern rejects it and no other error is possible; relay results have the shape legs x LEG; the zero-stripper removes exactly the fraction zeros and a then-bare point; unit normalisers end in their canonical unit. The closure clauses (result accepted, idempotent, same families, variants collapse) are decided over the language enumerated from the syntax tree with case / spacing / unit-suffix / trailing-zero variants and near-misses: on the implementation by the property oracle, and against the model by correspondence; the matcher itself is validated against re.match group spans.',
   note='Partial: C07_statement (closure) is stated, not proved; a reflection proof of upper-casing closure was attempted and abandoned (derivative automaton does not close without ACI normalisation). Trusted: Lean kernel; axioms propext, Quot.sound, Classical.choice; tools/gen_regex.py; ASCII letters for str.upper.',
   technique='Lean 4 proof over a transcription with regenerated patterns + enumerated-language correspondence and property oracle',
   ref='7/C07')
CHECKS['C10'] = dict(
   text='Machine-checked proofs over the Lean transcription of discipline_sort_key / text key / sorter / get_distance / duration / unit_name: the category of every key is that of the first family matching in programme order (track 1 < hurdles 2 < jumps 3 < throws 4 < relays 5 < other 6); five-digit zero padding is an order isomorphism below 100000 (text key sorts like the tuple key); text key shape; relay distance = legs x leg distance; the sorter keeps the number of entries; kernel-decided on regenerated data: conventional field order HJ PV LJ TJ SP DT HT JT and totality of the field-order look-up on every generic field code (this obligation exposed the TART defect). Totality on the whole accepted language is decided by correspondence + "returns, does not raise" on the implementation over the language enumerated from the syntax tree; ordering clauses on seeded pairs; sorter on lists with repeated / missing disciplines.',
   note='Partial: C10_total_statement is stated, not proved. get_distance values of non-integral quantities are compared only as "a value" (binary truncation of int(1000*float)). Trusted: as C07.',
   technique='Lean 4 proof over a transcription with regenerated patterns + enumerated-language correspondence',
   ref='7/C10')
CHECKS['C11'] = dict(
   text='Machine-checked proofs that the exact models of Tyrving (race / jump / three-piece), QuadKids, Sportshall (greatest row reached + beyond-table steps) and Bulgarian (run-length tables + clamps) scoring equal their formulas over the rationals (Mathlib floor), that the 1e-8 / 1e-6 fuzz terms can never cross an integer on the 0.01 grid for the regenerated multipliers, and kernel-decided obligations over tables regenerated from the live modules on every run: every table ordered, every key accepted by the regenerated PAT_EVENT_CODE, every row reachable. Correspondence of the real functions with the models over every table x the 0.01 grid in text, float, int and m:ss.xx forms (QuadKids, Sportshall, Bulgarian on the whole grid even in quick; Tyrving at thresholds, float-hazard marks and a stride; whole grid in thorough), cross-checked by a fractions oracle.',
   note='Trusted: Lean kernel + Mathlib floor; axioms propext, Classical.choice, Quot.sound; tools/gen_junior.py; binary floating point observed only through the exhaustive correspondence. Known findings: Sportshall 800 m duplicated thresholds (data), QuadKids Start SLJ increment inconsistent with its end marks (data).',
   technique='Lean 4 proof (exact evaluators = formulas) + decide +kernel over regenerated tables + exhaustive grid correspondence',
   ref='7/C11')
CHECKS['C05'] = dict(
   text='Machine-checked generic monotonicity theorems over parameters: power law with any age factor (from the integer-root lemmas), Hungarian parabola in its stated range and the repaired clamped score on the whole grid, Tyrving race / jump / three-piece (under a kernel-decided join condition) and hand-timed <= electronic, QuadKids monotone and within 10..100, Sportshall and Bulgarian monotone from sortedness, Bulgarian within 0..150; obligations over regenerated tables (positive multipliers / coefficients, join condition, sortedness) kernel-decided; C05 is the conjunction over every regenerated row. The verdict on the implementation is an adjacent-pair sweep of the REAL functions over 876 tables (all systems incl. Hungarian and athlon_score with and without an age), integer-ness and bounds of every result.',
   note='Trusted: as C11 / C01. Hungarian is tied to its model by sampled lines only. The rising Hungarian tail beyond the zero point lies outside the range the property states (reported as a note before the fix; repaired together with the negatives).',
   technique='Lean 4 generic monotonicity proofs + decide +kernel side-conditions on regenerated tables + exhaustive adjacent-pair sweep of the implementation',
   ref='7/C05')
CHECKS['C14'] = dict(
   text='Machine-checked proofs over an exact rational model (core Rat) of the WMA age grader on tables regenerated from the three JSON files on every run: interpolated factors are positive (generic convex-combination lemma + kernel-decided positivity of every non-null entry), the grade is (best/factor)/time for timed kinds and mark/(best/factor) for field kinds, the open best at factor 1 grades exactly 1, a better performance grades strictly higher, factor / best / grade are independent of the letter case of the event and of the gender spelling (first letter, any case; others rejected), ages past the last column use the last column. Correspondence of the real wrappers with the model (floats vs exact rationals within 1e-9 relative) over both years + athlons x gender spellings x every tabulated event in both cases x integer and half-integer ages x marks around the open best; all table entries are dumped back through the driver each run.',
   note='Trusted: Lean kernel; axioms propext, Classical.choice, Quot.sound; tools/gen_wma.py; float results compared within 1e-9. Known findings: 2015 women\'s PV has no factors past 90 (data); wma_athlon_age_grade has no open bests in its table.',
   technique='Lean 4 proof (exact rational model) + decide +kernel on regenerated tables + float-tolerant exhaustive correspondence',
   ref='7/C14')
CHECKS['C15'] = dict(
   text='Machine-checked proofs: linear interpolation lies between its end points; the speed-interpolated best is a Moebius function monotone between its bracket bests; factor betweenness for any table; the bracket rows found by the linear scan are the nearest shorter and longer tabulated events under a decidable no-seam condition; global monotonicity of the interpolated best over all distances under decidable chain conditions; distances shorter / longer than every row use the end row; all side-conditions kernel-decided over the regenerated tables. Correspondence of wma_age_factor / wma_world_best with the model and betweenness / monotonicity on the implementation over every whole metre 20 m .. 400 km and every N[.dd]K / N[.dd]M spelling x gender x 12 ages x both years (strided in quick).',
   note='Trusted: as C14; "nearest tabulated events" read with ties (5000 and 5K both at 5 km); int(1000*float) binary truncation passed as an observed hint checked to be at most 1 m below the exact floor.',
   technique='Lean 4 proof (interpolation lemmas, bracket theorem) + decide +kernel side-conditions on regenerated tables + exhaustive distance sweep',
   ref='7/C15')
CHECKS['C06'] = dict(
   text='Machine-checked proofs (core Lean) over string-level transcriptions of round_up_str_num, format_seconds_as_time and parse_hms: for digit strings of ANY length and every precision the round-up result has exactly p decimals and its value is the ceiling of the value truncated to maxDP decimals (empty integer part, leading zeros and dot-less inputs included); the formatted text has minutes and seconds below 60, two-digit fields, p decimals and is the ceiling of whole + truncated residue (carries through 59.9995 and 3599.99 shown); parse(format x) lies in [trunc5(x), trunc5(x) + 10^-p); parsing is exact with either separator, integers stay integers, and the model returns a number or ValueError, nothing else. The float subtraction and the fixed-notation rendering of the residue are inputs supplied by the harness and checked on every line. Correspondence on ~1 M lines in quick (exhaustive over fractions of 0-7 digits over {0,5,9} x 24 integer parts x precision 0..5; every ms around 20 carries up to 100 h; residues n*10^-e; all 1-3 field texts over a field alphabet with both separators; junk for totality).',
   note='Trusted: Lean kernel; axioms propext, Quot.sound, Classical.choice; float arithmetic observed (residue subtraction checked exact, %.9f text checked within 5e-10); other int()/float() syntaxes (underscores, exponents, inf/nan, Unicode digits, white space) only in the totality stream.',
   technique='Lean 4 proof (digit-string arithmetic, all lengths) + exhaustive small-alphabet correspondence',
   ref='7/C06')
CHECKS['C18'] = dict(
   text='Both ports are compared with ONE Lean model per ported function (the C06 models for roundUpStrNum / formatSecondsAsTime / parseHms / isHandTiming): agreement of Python and JS on an input follows from both agreeing with the model (C18_agree_of_correspondence), and where both equal the model the C06 theorems say both are right, not merely equal; proved: the JS integer increment is exact below 2^53 (in particular for <= 15 digits), with a concrete inexact witness at 2^53. normalizeEventCode on every scoring-table key and its case / padding variants, tyrvingScore and qkidsScore over every table x the grid incl. hand-timed one-decimal texts, the duplicated tables (deep equality) and every patterns.js export (vs. what the repo generator produces from athlib.codes) are compared directly JS <-> Python; js/src is loaded under plain node by a vm loader. "Both refuse" = Python raises and JS throws or returns NaN / undefined.',
   note='Partial by nature: no theorem speaks about node or CPython; agreement rests on the two correspondences. rus lines longer than 15 digits and exotic number syntaxes (1e3, ...) are outside the shared domain and not judged.',
   technique='two correspondences (Python <-> Lean model, JS <-> Lean model) on shared request lines + direct JS <-> Python comparison of tables, patterns and scores',
   ref='7/C18')
CHECKS['C12'] = dict(
   text='Machine-checked proofs over the Lean transcription of the validation cascade (default precision) on the patterns and code tuples regenerated from codes.py: the dispatch is total and every failure of the model is the caller\'s error class; multi-events: an accepted result is str(p) of the typed integer p <= 9999 and validating it again returns it unchanged (str/int round trip kernel-evaluated for all 10 000 values); field events: an accepted result is a two-decimal rendering within 1.2 x the record; timed events: an accepted time has seconds below 60 whenever minutes or hours are printed and minutes below 60 under hours. The model is exact on texts with at most two decimals (it answers "skip" where the Python rounds through binary floating point) and is compared with the implementation on a grammar of texts; the property itself (error class, well-formedness, speed window, record window, idempotence) is decided on the implementation for event codes drawn from the enumerated language + loose names x texts x gender x precision option x a custom error class.',
   note='Partial: idempotence and the speed window on the text level are not theorems (C12_statement); five narrowly matched known findings (plain seconds 60-99.99 pinned by the unit tests; three idempotence classes caused by the colon/stop muddle heuristics and the precision option; three-digit metres refused by PAT_PERF). Trusted: Lean kernel; axioms propext, Quot.sound, Classical.choice; tools/gen_regex.py; float formatting outside the two-decimal sub-domain is not modelled.',
   technique='Lean 4 proof over a transcription with regenerated patterns + grammar-based correspondence and property oracle',
   ref='7/C12')
NOT_YET = {}
def main():
    props = [json.loads(l) for l in open(os.path.join(HERE, 'properties.jsonl'))]
    checks = []
    for p in props:
        pid = p['id']
        if pid not in CHECKS: continue
        c = CHECKS[pid]
        checks.append({
            'property_id': pid,
            'quick_cmd': '%s tools/vcheck.py --property %s --tier quick' % (PY, pid),
            'thorough_cmd': '%s tools/vcheck.py --property %s --tier thorough' % (PY, pid),
            'evidence_file': 'evidence/%s.json' % pid,
            'replay_cmd_template': '%s tools/vcheck.py --replay {path}' % PY,
            'engine': 'lean4-athlibverif',
            'level_claimed': {'category': 'proof', 'text': c['text'], 'design_ref': 'DESIGN.md section ' + c['ref']},
            'level_note': c['note'],
            'technique': c['technique'],
        })
    na = [{'property_id': p['id'], 'reason': NOT_YET.get(p['id'], 'check under construction in this round (Lean model and correspondence not yet registered); see DESIGN.md section 7')}
          for p in props if p['id'] not in CHECKS]
    m = {
        'version': 1,
        'setup_cmd': 'cd lean && lake build AthlibVerif athdriver',
        'hooks': {'guard': 'ATHLIB_VERIF', 'enable': 'no source hooks are needed: checks import athlib from the working tree (ATHLIB_REPO, default /repo) and observe it through public attributes, sys.settrace and subprocesses; ATHLIB_VERIF=1 is exported by the checks for completeness',
                  'baseline_off_cmd': 'cd /repo && /venv/bin/python -m pytest -ra -q -p no:cacheprovider --timeout=900 --continue-on-collection-errors',
                  'source_commits': [], 'add_only': True},
        'engines': [{'name': 'lean4-athlibverif', 'path': 'lean/', 'serves_properties': sorted(CHECKS),
                     'kind_free_text': 'Lean 4 lake project: import-free executable models, theorems per property, obligations over data regenerated from /repo on every run, line-protocol driver for the correspondence'}],
        'checks': checks,
        'not_applicable': na,
        'notes': 'Every check: GEN (translators) -> lake build (theorems + decide +kernel obligations) -> axiom audit -> correspondence model<->implementation -> search for a failing input when anything broke. Known defects of the pinned tree: known_findings.jsonl.',
    }
    json.dump(m, open(os.path.join(HERE, 'MANIFEST.json'), 'w'), indent=1)
    print('checks', len(checks), 'not_applicable', len(na))
if __name__ == '__main__':
    main()
