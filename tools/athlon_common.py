"""shared by C01 / C05 / C09: independent exact oracle (Python integers), grids, canonical replies"""
import math
from fractions import Fraction
import vlib, gen_tables

def iroot(b, n):
    """largest p with p**b <= n"""
    if n < 0: raise ValueError
    if n == 0: return 0
    hi = 1 << ((n.bit_length() + b - 1) // b + 1)
    lo = 0
    while lo + 1 < hi:
        mid = (lo + hi) // 2
        if mid ** b <= n: lo = mid
        else: hi = mid
    return lo

class Row:
    def __init__(self, o):
        self.gender = o['gender']; self.event = o['event_code']
        self.A = gen_tables.frac(o['A']); self.Z = gen_tables.frac(o['Z']); self.X = gen_tables.frac(o['X'])
        self.z100 = int(self.Z * 100)
    def key(self):
        return ('%s-%s' % (self.gender, self.event)).upper()

def kind_of(mod_codes, event):
    if mod_codes.PAT_JUMPS.match(event): return 'jump'
    if mod_codes.PAT_THROWS.match(event): return 'throw'
    return 'track'

def exact_points(row, kind, k):
    """floor(A * |x - Z| ** X) in exact arithmetic; k = adjusted mark in hundredths"""
    if kind == 'jump': dn = 100 * k - row.z100
    elif kind == 'throw': dn = k - row.z100
    else: dn = row.z100 - k
    if dn <= 0: return 0
    a, b = row.X.numerator, row.X.denominator
    num = row.A.numerator ** b * dn ** a
    den = row.A.denominator ** b * 100 ** a
    return iroot(b, num // den)

def exact_adjust(kind, k, f):
    """f: Fraction age factor"""
    v = k * f
    if kind == 'track': return math.ceil(v)
    return math.floor(v)

def canon(call):
    try:
        r = call()
    except ValueError:
        return 'ValueError'
    except Exception as e:
        return 'OtherError:' + type(e).__name__
    if r is None: return 'none'
    if isinstance(r, bool) or not isinstance(r, int):
        return 'not-int:%r' % (r,)
    return 'p %d' % r

def kmax(row, kind):
    if kind == 'track': return row.z100 + 200
    if kind == 'jump': return max(900, row.z100 // 100 + 700)     # to 7 m past the zero point (cm)
    return row.z100 + 12000                                        # throws: 120 m past the zero point

def hazard(k):
    """does 100 * (k/100) differ from k in binary floating point?"""
    return 100 * (k / 100.0) != k
