#!/bin/bash
# usage: rebase.sh <seed id>...   tries git apply --3way in a scratch worktree; writes /tmp/rb/<id>.diff when clean
mkdir -p /tmp/rb
git -C /repo worktree remove --force /tmp/rebase_wt 2>/dev/null
git -C /repo worktree add -q --detach /tmp/rebase_wt HEAD
for id in "$@"; do
  cd /tmp/rebase_wt; git reset -q --hard; git clean -fdq
  if git apply --check /verif/seeded/$id/patch.diff 2>/dev/null; then echo "$id applies"; continue; fi
  out=$(git apply --3way /verif/seeded/$id/patch.diff 2>&1)
  if echo "$out" | grep -q "with conflicts\|error"; then echo "$id CONFLICT"; git diff > /tmp/rb/$id.conflict; continue; fi
  git diff HEAD > /tmp/rb/$id.diff
  s=$(/venv/bin/python -m pytest -q -p no:cacheprovider 2>&1 | tail -1)
  /venv/bin/python /verif/seeded/$id/demo.py /tmp/rebase_wt >/dev/null 2>&1; d=$?
  echo "$id rebased: $s demo=$d"
done
cd /; git -C /repo worktree remove --force /tmp/rebase_wt
