"""run every registered check (quick tier by default) on the current tree; print one line each. Not a registered command."""
import json, os, subprocess, sys, time
HERE = os.path.dirname(os.path.dirname(os.path.abspath(__file__)))
m = json.load(open(os.path.join(HERE, 'MANIFEST.json')))
tier = sys.argv[1] if len(sys.argv) > 1 else 'quick'
only = sys.argv[2:]
bad = 0
for c in m['checks']:
    if only and c['property_id'] not in only: continue
    cmd = c['quick_cmd'] if tier == 'quick' else c['thorough_cmd']
    t0 = time.time()
    p = subprocess.run(cmd, shell=True, cwd=HERE, capture_output=True, text=True)
    last = [l for l in p.stdout.strip().split('\n') if l][-1:] or ['']
    viol = [l for l in p.stdout.split('\n') if l.startswith('VIOLATION')]
    print('%s exit=%d %.0fs %s %s' % (c['property_id'], p.returncode, time.time() - t0, last[0][:150], viol[:1]), flush=True)
    if p.returncode != 0 or viol: bad += 1
sys.exit(1 if bad else 0)
