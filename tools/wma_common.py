"""shared by C14 / C15: the WMA tables as exact fractions (decimal TEXT of the JSON numbers) and an
independent exact oracle (Python `fractions`) of what the properties demand.  It is written from the
property text and the table layout, not from the Lean model; the checks compare all three
(implementation, Lean model through the driver, this oracle)."""
import os, json, decimal, re
from fractions import Fraction

YEARS = ('2015', '2023')
FILES = {'2015': 'wma-data-2015.json', '2023': 'wma-data-2023.json', 'athlons': 'wma-athlons-data.json'}


class Err(Exception):
    """oracle-side refusal; .kind is the canonical error word"""
    def __init__(self, kind):
        Exception.__init__(self, kind)
        self.kind = kind


def _num(x):
    if x is None:
        return None
    if isinstance(x, bool) or not isinstance(x, (int, decimal.Decimal)):
        raise ValueError('not a JSON number: %r' % (x,))
    return Fraction(x)


class Row:
    __slots__ = ('event', 'km', 'best', 'facs')
    def __init__(self, event, km, best, facs):
        self.event = event; self.km = km; self.best = best; self.facs = facs


class Table:
    def __init__(self, name, raw):
        self.name = name
        self.athlons = name == 'athlons'
        self.ages = [int(a) for a in raw['ages']]
        if any(isinstance(a, bool) or a != int(a) for a in raw['ages']):
            raise ValueError('non-integer age column')
        self.rows = {}
        for g in 'mf':
            rows = []
            for r in raw[g]:
                if not isinstance(r[0], str):
                    raise ValueError('row without an event name')
                if self.athlons:
                    # layout: [event, factor(ages[1]), factor(ages[2]), ...]; ages[0] has no factor
                    rows.append(Row(r[0], None, None, [None] + [_num(x) for x in r[1:]]))
                else:
                    # layout: [event, distance km, open best, factor(ages[0]), ...]
                    rows.append(Row(r[0], _num(r[1]), _num(r[2]), [_num(x) for x in r[3:]]))
                if len(rows[-1].facs) != len(self.ages):
                    raise ValueError('row %s: %d factors for %d ages' % (r[0], len(rows[-1].facs), len(self.ages)))
            self.rows[g] = rows

    def row(self, g, ev):
        for r in self.rows[g]:
            if r.event == ev:
                return r
        return None

    def run_start(self, g):
        for i, r in enumerate(self.rows[g]):
            if r.event == '50':
                return i
        raise Err('NoRunRows')

    def first_nonnull_age(self, g, ev):
        r = self.row(g, ev)
        for a, f in zip(self.ages, r.facs):
            if f is not None:
                return a
        return None


def load_tables(repo):
    out = {}
    for k, fn in FILES.items():
        with open(os.path.join(repo, 'athlib', 'wma', fn)) as f:
            out[k] = Table(k, json.load(f, parse_float=decimal.Decimal))
    return out


# ------------------------------------------------------------------ spelling
def ascii_upper(s):
    return ''.join(chr(ord(c) - 32) if 'a' <= c <= 'z' else c for c in s)

def ascii_lower(s):
    return ''.join(chr(ord(c) + 32) if 'A' <= c <= 'Z' else c for c in s)

def norm_gender(g):
    x = ascii_lower(g)[:1]
    if x in ('m', 'f'):
        return x
    raise Err('ValueError')

def kind_of(codes, event):
    """first-match classification with the LIVE patterns of the tree under test"""
    for n, p in (('throw', codes.PAT_THROWS), ('jump', codes.PAT_JUMPS), ('track', codes.PAT_TRACK), ('road', codes.PAT_ROAD)):
        if p.match(event):
            return n
    raise Err('ValueError')

def timed(kind):
    return kind in ('track', 'road')


_LEAD = re.compile(r'^([0-9]+)(?:\.([0-9]*))?')
def get_distance_exact(ev):
    """metres of an UPPER-CASE run code, in exact arithmetic (floor of the exact product); None if the
    code carries no distance.  Mirrors the documented cases of athlib.utils.get_distance that an
    upper-cased code can reach."""
    ev = ev.split()[0] if ev.split() else ev
    if ev == 'XC': return None
    if ev == 'MAR': return 42195
    if ev == 'HM': return 21098
    if ev in ('MILE', 'CHUNDER-MILE'): return 1609
    m = _LEAD.match(ev)
    if not m or not all('0' <= c <= '9' for c in m.group(1) + (m.group(2) or '')):
        return None
    q = Fraction(int(m.group(1))) + (Fraction(int(m.group(2)), 10 ** len(m.group(2))) if m.group(2) else 0)
    rest = ev[m.end():]
    if rest in ('', 'SC', 'H', 'W'): return q.numerator // q.denominator
    if rest in ('K', 'KW', 'KMW'): return (1000 * q).numerator // (1000 * q).denominator
    if rest in ('M', 'MI', 'MT'): return (1609 * q).numerator // (1609 * q).denominator
    if rest in ('Y', 'YD'):
        v = Fraction(9144, 10000) * q
        return v.numerator // v.denominator
    return None


# ------------------------------------------------------------------ ages
def find_age(age, ages):
    """(ax, ax1, page): first column with ages[i] >= age; interpolate between i-1 and i; an age exactly
    on a column reads that column only; clamp at both ends; a falsy age means 29"""
    if not age:
        age = 29
    age = Fraction(age)
    na = len(ages)
    i = 0
    while i < na and ages[i] < age:
        i += 1
    if i == 0:
        return 0, 0, Fraction(0)
    if i < na:
        if ages[i] == age:
            return i, i, Fraction(0)
        return i - 1, i, (age - ages[i - 1]) / (ages[i] - ages[i - 1])
    return na - 1, na - 1, Fraction(0)


def row_factor(T, row, age):
    ax, ax1, page = find_age(age, T.ages)
    a, b = row.facs[ax], row.facs[ax1]
    if a is None or b is None:
        raise Err('NoFactor')
    return (1 - page) * a + page * b


# ------------------------------------------------------------------ distance
def row_by_distance(T, g, dist):
    """the linear scan of find_row_by_distance: (fx, fx1, pfac) with exact arithmetic"""
    rows = T.rows[g]
    nt = len(rows)
    d = Fraction(dist, 1000)
    i = T.run_start(g)
    while i < nt and rows[i].km < d:
        i += 1
    if i == 0:
        return 0, 0, Fraction(0)
    if i < nt:
        return i - 1, i, (d - rows[i - 1].km) / (rows[i].km - rows[i - 1].km)
    return nt - 1, nt - 1, Fraction(0)


def clamp01(x):
    return min(Fraction(1), max(Fraction(0), x))


def factor_by_distance(T, g, age, dist):
    rows = T.rows[g]
    fx, fx1, _ = row_by_distance(T, g, dist)
    rs, rl = rows[fx], rows[fx1]
    ds, dl = get_distance_exact(rs.event), get_distance_exact(rl.event)
    if ds is None:
        return row_factor(T, rl, age)
    fs = row_factor(T, rs, age)
    if dl is None or dl == ds:
        return fs
    fl = row_factor(T, rl, age)
    frac = clamp01(Fraction(dist - ds, dl - ds))
    return (1 - frac) * fs + frac * fl


def best_by_distance(T, g, dist):
    rows = T.rows[g]
    fx, fx1, pfac = row_by_distance(T, g, dist)
    rs, rl = rows[fx], rows[fx1]
    if rs.best == 0 or rl.best == 0:
        raise Err('ZeroDivisionError')
    vs = rs.km * 1000 / rs.best
    vl = rl.km * 1000 / rl.best
    v = vl + (1 - pfac) * (vs - vl)
    if v == 0:
        raise Err('ZeroDivisionError')
    return Fraction(dist) / v


# ------------------------------------------------------------------ the three observables
def factor(T, codes, gender, age, event, dist_hint=None):
    if T.athlons:
        return athlon_factor(T, gender, age, event)
    kind_of(codes, event)
    ev = ascii_upper(event)
    g = norm_gender(gender)
    r = T.row(g, ev)
    if r is not None:
        return row_factor(T, r, age)
    dist = get_distance_exact(ev) if dist_hint is None else dist_hint
    if dist is None:
        raise Err('NoDistance')
    return factor_by_distance(T, g, age, dist)


def best(T, codes, gender, event, dist_hint=None):
    if T.athlons:
        raise Err('NoOpenBest')
    kind_of(codes, event)
    g = norm_gender(gender)
    ev = ascii_upper(event)
    r = T.row(g, ev)
    if r is not None:
        return r.best
    dist = get_distance_exact(ev) if dist_hint is None else dist_hint
    if dist is None:
        raise Err('NoDistance')
    return best_by_distance(T, g, dist)


def grade(T, codes, gender, age, event, perf, dist_hint=None):
    """perf: Fraction.  (open best / factor) / time for timed kinds, mark / (open best / factor) for field kinds"""
    wb = best(T, codes, gender, event, dist_hint)
    f = factor(T, codes, gender, age, event, dist_hint)
    if f == 0:
        raise Err('ZeroDivisionError')
    std = wb / f
    if timed(kind_of(codes, event)):
        if perf == 0:
            raise Err('ZeroDivisionError')
        return std / perf
    if std == 0:
        raise Err('ZeroDivisionError')
    return perf / std


def athlon_factor(T, gender, age, event, min_age=35):
    if Fraction(age) < min_age:
        return Fraction(1)
    ev = ascii_upper(event)
    if ev.endswith('H') and ev not in ('LH', 'SH', '60H'):
        t = ev[:-1]
        if not t or not all('0' <= c <= '9' for c in t):
            raise Err('ValueError')
        n = int(t)
        if n <= 110: ev = 'SH'
        elif n >= 200: ev = 'LH'
        else: raise Err('ValueError')
    g = norm_gender(gender)
    r = T.row(g, ev)
    if r is None:
        raise Err('ValueError')
    band = (Fraction(age).numerator // Fraction(age).denominator) // 5 * 5
    _, ax1, _ = find_age(band, T.ages)
    f = r.facs[ax1]
    if f is None:
        raise Err('NoFactor')
    return f


# ------------------------------------------------------------------ canonical forms
def canon_py(call):
    """run an implementation call; ('v', float) or ('e', exception class name)"""
    try:
        r = call()
    except Exception as e:
        return ('e', type(e).__name__)
    if isinstance(r, bool) or not isinstance(r, (int, float)):
        return ('x', repr(r)[:60])
    return ('v', r)


def parse_reply(s):
    """driver reply -> ('v', Fraction) or ('e', word)"""
    if '/' in s and s.replace('/', '').replace('-', '').isdigit():
        n, d = s.split('/')
        return ('v', Fraction(int(n), int(d)))
    return ('e', s)


def close(x, q, rel=1e-9):
    """float x against exact q within `rel` relative"""
    if x != x or x in (float('inf'), float('-inf')):
        return False
    return abs(Fraction(x) - q) <= Fraction(rel) * abs(q)


def frac_str(q):
    return '%d/%d' % (q.numerator, q.denominator)


def nominal_metres(code):
    """the distance an event code names, exactly (spec-side: independent of the table's km column and of get_distance)"""
    import re as _re
    from fractions import Fraction as F
    c = ascii_upper(code)
    if c == 'MILE': return F(1609344, 1000)
    if c == 'HM': return F(210975, 10)
    if c == 'MAR': return F(42195)
    m = _re.match(r'^(\d+(?:\.\d+)?)(K|KM|KW|MT|M|MW|MI)?(W|H|SC)?$', c)
    if not m: return None
    q = F(m.group(1)); u = m.group(2)
    if u in ('K', 'KM', 'KW'): return q * 1000
    if u in ('MT', 'M', 'MW', 'MI'): return q * F(1609344, 1000)
    return q
