"""Generate strings from the regex ASTs of gen_regex (structured, mostly valid) and near-misses."""
import random

def pick_char(ranges, rng, alpha):
    """a character of the class: interval end points, representatives, occasionally a random member"""
    lo, hi = rng.choice(ranges)
    r = rng.random()
    if r < 0.45: cp = lo
    elif r < 0.6: cp = hi
    else: cp = rng.randint(lo, hi)
    if 0xD800 <= cp <= 0xDFFF:
        cp = lo if not (0xD800 <= lo <= 0xDFFF) else 0x41
    return chr(cp)

def gen(t, rng, alpha, depth=0):
    k = t[0]
    if k == 'cls':
        ranges = t[1]
        if not ranges:
            return '\x00'        # the empty class (a pattern emitted as "matches nothing"): any character will do
        # prefer ASCII members when the class has some (keeps most strings "ordinary")
        asc = [r for r in ranges if r[0] < 128]
        if asc and rng.random() < 0.85:
            return pick_char(asc, rng, alpha)
        return pick_char(list(ranges), rng, alpha)
    if k == 'seq':
        return ''.join(gen(x, rng, alpha, depth + 1) for x in t[1])
    if k == 'alts':
        return gen(rng.choice(t[1]), rng, alpha, depth + 1)
    if k == 'group':
        return gen(t[3], rng, alpha, depth + 1)
    if k == 'rep':
        _, lo, hi, sub = t
        mx = lo + 3 if hi is None else min(hi, lo + 3)
        n = rng.choice([lo, lo, mx, rng.randint(lo, mx)])
        return ''.join(gen(sub, rng, alpha, depth + 1) for _ in range(n))
    if k in ('bol',):
        return ''
    if k == 'eol':
        return '\n' if rng.random() < 0.03 else ''
    raise ValueError(k)

def all_alternatives(t):
    """yield variants of t where each top-level/nested alternative is forced once (coverage of every branch)"""
    # enumerate paths: list of (path index) choices; simple recursive expansion limited in size
    k = t[0]
    if k == 'alts':
        for x in t[1]:
            yield from all_alternatives(x)
    elif k == 'seq':
        items = t[1]
        # force alternatives of one item at a time, others generic
        yielded = False
        for i, x in enumerate(items):
            subs = list(all_alternatives(x)) if x[0] in ('alts', 'group', 'seq', 'rep') else []
            if len(subs) > 1:
                for s in subs:
                    yield ('seq', items[:i] + [s] + items[i + 1:]); yielded = True
        if not yielded:
            yield t
    elif k == 'group':
        for s in all_alternatives(t[3]):
            yield ('group', t[1], t[2], s)
    elif k == 'rep':
        _, lo, hi, sub = t
        if lo == 0:
            yield ('seq', [])
        for s in all_alternatives(sub):
            yield ('rep', max(lo, 1), hi if hi is None else max(hi, 1), s)
    else:
        yield t

def mutate(s, rng, alphabet_chars):
    if not s:
        return rng.choice(alphabet_chars)
    r = rng.random(); i = rng.randrange(len(s))
    if r < 0.35:
        return s[:i] + rng.choice(alphabet_chars) + s[i + 1:]
    if r < 0.6:
        return s[:i] + rng.choice(alphabet_chars) + s[i:]
    if r < 0.85:
        return s[:i] + s[i + 1:]
    j = rng.randrange(len(s))
    l = list(s); l[i], l[j] = l[j], l[i]
    return ''.join(l)

def alphabet_chars(alpha):
    """representatives + interval end points of every symbol (no surrogates)"""
    out = []
    for lo, hi, s in alpha.atoms:
        for cp in (lo, hi):
            if not (0xD800 <= cp <= 0xDFFF):
                out.append(chr(cp))
    # weight ASCII letters/digits more
    out += list('0123456789abcdefghijklmnopqrstuvwxyzABCDEFGHIJKLMNOPQRSTUVWXYZ .:;,\t\n') * 3
    return out
