// Loads $ATHLIB_REPO/js/src under plain node (no npm, no Babel) by rewriting the ES `import {…} from './x.js'`
// lines into a tiny CommonJS-style registry, then serves a line protocol: one JSON request per line on stdin,
// one JSON reply per line on stdout.
//
// requests:  ["rus", s, prec, maxDP|null]   roundUpStrNum          ["fmt", seconds, prec]  formatSecondsAsTime
//            ["hms", text]  parseHms        ["hand", text] isHandTiming      ["norm", code] normalizeEventCode
//            ["ty", gender, age, event, perf] tyrvingScore           ["qk", compType, event, perf] qkidsScore
//            ["resid", seconds]  -> texts JS makes of the residue: [Math.floor(x), (x-floor).toFixed(9), ''+(x-floor)]
//            ["match", patternName, text] -> does the exported RegExp match
//            ["tables"]  the (module-private) Tyrving / QuadKids tables     ["patterns"]  exports of patterns.js
// replies (canonical):  ["num", x] | ["nan"] | ["inf", sign] | ["str", s] | ["bool", b] | ["undef"] | ["null"] |
//            ["json", value] | ["exc", message]
'use strict';
const fs = require('fs'), path = require('path'), vm = require('vm');
const SRC = path.join(process.env.ATHLIB_REPO || '/repo', 'js', 'src');
const cache = {};
// module-private names we want to look at (tables are not exported by the sources)
const INTERNALS = { 'tyrving_score.js': ['_tyrvingTables'], 'qkids_score.js': ['_qkidsTables', '_compTypeMap'] };

function load(name) {
  if (cache[name]) return cache[name].exports;
  let src = fs.readFileSync(path.join(SRC, name), 'utf8');
  src = src.replace(/import\s*\{([^}]*)\}\s*from\s*['"]\.\/([^'"]+)['"];?/g,
    (m, names, file) => `const {${names}} = __load('${file}');`);
  src = src.replace(/export\s+default\s+/g, 'module.exports = ');
  const extra = (INTERNALS[name] || []).map(n => `${n}: (typeof ${n} !== 'undefined' ? ${n} : undefined)`).join(', ');
  src += `\n;module.exports.__internals = {${extra}};`;
  const module = { exports: {} };
  cache[name] = module;
  const fn = vm.runInThisContext(`(function(module, exports, __load, require){${src}\n})`, { filename: name });
  fn(module, module.exports, load, require);
  return module.exports;
}

const U = load('utils.js'), T = load('tyrving_score.js'), Q = load('qkids_score.js'), P = load('patterns.js');

function canon(r) {
  if (r === undefined) return ['undef'];
  if (r === null) return ['null'];
  if (typeof r === 'number') {
    if (Number.isNaN(r)) return ['nan'];
    if (!Number.isFinite(r)) return ['inf', r > 0 ? 1 : -1];
    return ['num', r];
  }
  if (typeof r === 'string') return ['str', r];
  if (typeof r === 'boolean') return ['bool', r];
  return ['json', r];
}

function patterns() {
  const out = { regex: {}, values: {}, groups: {} };
  for (const k of Object.keys(P)) {
    const v = P[k];
    if (v instanceof RegExp) {
      out.regex[k] = [v.source, v.flags];
      const g = P.codesmap ? P.codesmap(k) : null;
      if (g) out.groups[k] = g;
    } else if (typeof v !== 'function' && k !== '__internals') out.values[k] = v;
  }
  return out;
}

function handle(a) {
  switch (a[0]) {
    case 'rus': return a[3] == null ? U.roundUpStrNum(a[1], a[2]) : U.roundUpStrNum(a[1], a[2], a[3]);
    case 'fmt': return U.formatSecondsAsTime(a[1], a[2]);
    case 'hms': return U.parseHms(a[1]);
    case 'hand': return U.isHandTiming(a[1]);
    case 'norm': return U.normalizeEventCode(a[1]);
    case 'ty': return T.tyrvingScore(a[1], a[2], a[3], a[4]);
    case 'qk': return Q.qkidsScore(a[1], a[2], a[3]);
    case 'resid': { const w = Math.floor(a[1]), f = a[1] - w; return [w, f.toFixed(9), '' + f]; }
    case 'match': return P[a[1]] instanceof RegExp ? P[a[1]].test(a[2]) : undefined;
    case 'tables': return { tyrving: T.__internals._tyrvingTables, qkids: Q.__internals._qkidsTables,
      compTypeMap: Q.__internals._compTypeMap };
    case 'patterns': return patterns();
    default: throw new Error('bad request ' + a[0]);
  }
}

const out = [];
function flush() { if (out.length) { process.stdout.write(out.join('\n') + '\n'); out.length = 0; } }
require('readline').createInterface({ input: process.stdin, crlfDelay: Infinity }).on('line', line => {
  if (!line) return;
  let rep;
  try { rep = canon(handle(JSON.parse(line))); } catch (e) { rep = ['exc', String(e && e.message).slice(0, 160)]; }
  out.push(JSON.stringify(rep));
  if (out.length >= 20000) flush();
}).on('close', flush);
