"""shared by C07 / C10 / C12: the language of the general event-code pattern enumerated from its syntax tree,
variants, near-misses; matcher validation against `re` group spans"""
import re
import vlib, strgen

FAMILIES = ['PAT_TRACK', 'PAT_HURDLES', 'PAT_ROAD', 'PAT_RELAYS', 'PAT_JUMPS', 'PAT_THROWS', 'PAT_MULTI',
            'PAT_RACES_FOR_DISTANCE', 'PAT_HIGHSCORING_EVENT', 'PAT_LOWSCORING_EVENT']

def cps(s): return ' '.join(str(ord(c)) for c in s)
def uncps(t): return ''.join(chr(int(x)) for x in t.split()) if t else ''

def enumerate_codes(ctx, trees, alpha, codes_mod, per_alt=6, extra=3000):
    """accepted strings: every alternative of the syntax tree forced, digit runs 0-4, class members at
    interval end points (incl. non-ASCII digits / white space), plus seeded random derivations"""
    rng = ctx.rng
    t = trees['PAT_EVENT_CODE']
    out = set()
    for v in strgen.all_alternatives(t):
        for _ in range(per_alt):
            out.add(strgen.gen(v, rng, alpha))
    for fam in FAMILIES:
        if fam in trees:
            for v in strgen.all_alternatives(trees[fam]):
                for _ in range(per_alt):
                    out.add(strgen.gen(v, rng, alpha))
            for _ in range(extra // 10):
                out.add(strgen.gen(trees[fam], rng, alpha))
    for _ in range(extra):
        out.add(strgen.gen(t, rng, alpha))
    pat = codes_mod.PAT_EVENT_CODE
    return sorted(s for s in out if pat.match(s))

def variants(s, rng, norm_spans=None):
    """spellings that may differ only in letter case, spacing, unit suffix or trailing zeros (filtered by the caller)"""
    out = set()
    for _ in range(3):
        out.add(''.join(c.swapcase() if c.isascii() and c.isalpha() and rng.random() < 0.5 else c for c in s))
    out.add(s.lower()); out.add(s.upper())
    for _ in range(3):
        i = rng.randrange(len(s) + 1)
        out.add(s[:i] + rng.choice([' ', ' ', '\t', ' ', '  ']) + s[i:])
    out.add(' ' + s + ' '); out.add(s + '\n')
    # unit suffix
    m = re.search(r'(\d)\s*[Kk][Gg]?$', s)
    if m:
        stem = s[:m.end(1)]
        for suf in ('K', 'k', 'kg', 'KG', 'Kg', ' kg', ' K'): out.add(stem + suf)
    if re.search(r'\d$', s):
        out.add(s + 'g'); out.add(s + ' g')
    if s.endswith('g'): out.add(s[:-1])
    # trailing zeros: only inside implement weights and hurdle specifications (the groups with a normaliser)
    for (a, b) in (norm_spans or []):
        seg = s[a:b]
        for m in re.finditer(r'\d+\.\d*', seg):
            out.add(s[:a + m.end()] + '0' + s[a + m.end():]); out.add(s[:a + m.end()] + '00' + s[a + m.end():])
        for m in re.finditer(r'(?<![\d.])\d+(?![\d.])', seg):
            out.add(s[:a + m.end()] + '.0' + s[a + m.end():]); out.add(s[:a + m.end()] + '.' + s[a + m.end():])
        for m in re.finditer(r'\.(\d*?)0+(?!\d)', seg):
            out.add(s[:a + m.start()] + ('.' + m.group(1) if m.group(1) else '') + s[a + m.end():])
    out.discard(s)
    return out

def near_misses(codes, rng, chars, n):
    out = set()
    for _ in range(n):
        out.add(strgen.mutate(rng.choice(codes), rng, chars))
    out |= {'', ' ', 'x', '4x', 'DTK', '1cm', 'H0', 'L0', 'SPBB', 'T', '100m', 'foo', '4 x 100', 'JT 800 g'}
    return sorted(out)

def validate_matcher(ctx, side, trees, alpha, strings, names):
    """Lean matcher (first match in priority order, group spans) vs re.match spans — validates Model/Match + GPatterns"""
    reqs = []; exp = []
    comp = {n: re.compile(side['patterns'][n]) for n in names}
    for s in strings:
        for n in names:
            reqs.append('cd\tm\t%s\t%s' % (n, cps(s)))
            m = comp[n].match(s)
            if m is None: exp.append('none')
            else:
                sp = ['%d:%d-%d' % (i, m.start(i), m.end(i)) for i in range(1, comp[n].groups + 1) if m.start(i) >= 0]
                exp.append(('e=%d ' % m.end()) + ' '.join(sp))
    got = vlib.driver_parallel(reqs)
    nd = 0
    for r, e, g in zip(reqs, exp, got):
        if e.strip() != g.strip():
            nd += 1
            if nd <= 3:
                ctx.oblig('correspondence:Lean matcher (groups) vs re.match spans', 'correspondence', False, '%r: re %r, Lean %r' % (r, e, g))
    ctx.count(len(reqs), 'matcher_span_lines')
    if nd == 0: ctx.oblig('correspondence:Lean matcher (groups) vs re.match spans', 'correspondence', True)
    return nd
