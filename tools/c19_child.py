"""Helper of checks/c19.py.

* `NetStub`: makes every attempt to reach the network raise (and counts the attempts), while
  `file:` URLs keep working — jsonschema resolves `file://` references through `urlopen`.
* `outcome_of`: one call of schema_valid / valid_against_schema, canonical outcome
  ('True' / 'False' / exception class name), athlib's own `print(e)` swallowed.
* run as a script: the fresh-interpreter baseline — import athlib from the given tree, stub the
  network, make ONE call, print one JSON line;

    python c19_child.py <repo> '["va", "sample-jsons/athlete.json", "json/athlete.json", false]'

  or, with `--batch <repo>`, a worker that runs many call sequences inside one interpreter, emptying
  the memo dicts (not re-importing) between sequences.
"""
import sys, io, json


class NetworkAccess(Exception):
    pass


class NetStub:
    def __init__(self):
        self.attempts = []
        self.saved = None

    def _blocked(self, what):
        self.attempts.append(what)
        raise NetworkAccess('network access attempted: %s' % what)

    def install(self):
        import socket, urllib.request
        stub = self
        orig_socket, orig_cc, orig_gai, orig_urlopen = (socket.socket, socket.create_connection,
                                                         socket.getaddrinfo, urllib.request.urlopen)

        class NoSocket(orig_socket):
            def __init__(self, *a, **k):
                stub._blocked('socket.socket')

        def create_connection(*a, **k):
            stub._blocked('socket.create_connection')

        def getaddrinfo(*a, **k):
            stub._blocked('socket.getaddrinfo')

        def urlopen(url, *a, **k):
            u = url if isinstance(url, str) else getattr(url, 'full_url', '')
            if not u.lower().startswith('file:'):
                stub._blocked('urlopen %s' % u[:80])
            return orig_urlopen(url, *a, **k)

        patched = []
        for name, m in list(sys.modules.items()):
            if m is not None and name.split('.')[0] in ('jsonschema', 'athlib', 'urllib'):
                if getattr(m, 'urlopen', None) is orig_urlopen:
                    m.urlopen = urlopen
                    patched.append(m)
        socket.socket, socket.create_connection, socket.getaddrinfo = NoSocket, create_connection, getaddrinfo
        self.saved = (orig_socket, orig_cc, orig_gai, orig_urlopen, patched)

    def uninstall(self):
        if self.saved is None:
            return
        import socket
        orig_socket, orig_cc, orig_gai, orig_urlopen, patched = self.saved
        socket.socket, socket.create_connection, socket.getaddrinfo = orig_socket, orig_cc, orig_gai
        for m in patched:
            m.urlopen = orig_urlopen
        self.saved = None


def outcome_of(U, jsonschema, call):
    """call = [fn, a, b, expect_failure]; fn 'sv': schema_valid(a, validator=getattr(jsonschema, b));
    fn 'va': valid_against_schema(a, b)"""
    fn, a, b, ef = call
    old = sys.stdout
    sys.stdout = io.StringIO()          # athlib prints the jsonschema error text
    try:
        try:
            positional = (len(a) + len(b)) % 2 == 1          # half of the calls give every argument positionally, in the documented order
            if fn == 'sv':
                r = U.schema_valid(a, getattr(jsonschema, b), ef) if positional else U.schema_valid(a, validator=getattr(jsonschema, b), expect_failure=ef)
            else:
                r = U.valid_against_schema(a, b, ef) if positional else U.valid_against_schema(a, b, expect_failure=ef)
            return repr(r)
        except Exception as e:
            return type(e).__name__
    finally:
        sys.stdout = old


def cache_dicts(U):
    """the module-level memo dicts (by naming convention, so that a renamed or added cache is still reset)"""
    return [v for n, v in vars(U).items() if 'cache' in n.lower() and isinstance(v, dict)]


def run_sequences(U, jsonschema, seqs):
    """each sequence on freshly emptied memo dicts; returns [[outcomes, sorted dict sizes], ...]"""
    res = []
    for seq in seqs:
        for d in cache_dicts(U):
            d.clear()
        outs = [outcome_of(U, jsonschema, c) for c in seq]
        res.append([outs, sorted(len(d) for d in cache_dicts(U))])
    return res


if __name__ == '__main__':
    batch = sys.argv[1] == '--batch'
    repo = sys.argv[2] if batch else sys.argv[1]
    sys.path.insert(0, repo)
    import jsonschema
    import athlib.utils as U
    stub = NetStub()
    stub.install()
    if batch:       # sequences as JSON on stdin, results as JSON on stdout
        seqs = json.load(sys.stdin)
        out = {'results': run_sequences(U, jsonschema, seqs), 'ncaches': len(cache_dicts(U))}
    else:
        out = {'outcome': outcome_of(U, jsonschema, json.loads(sys.argv[2]))}
    out.update({'net': stub.attempts[:20], 'file': U.__file__})
    sys.stdout.write(json.dumps(out) + '\n')
