#!/bin/bash
# usage: demo_all.sh <id>  -> prints id and demo exit code with the patch applied on /repo HEAD
id=$1; wt=/tmp/dw_$id
git -C /repo worktree add -q --detach $wt HEAD 2>/dev/null
if git -C $wt apply /verif/seeded/$id/patch.diff 2>/dev/null; then
  timeout 300 /venv/bin/python /verif/seeded/$id/demo.py $wt >/dev/null 2>&1; echo "$id $?"
else echo "$id noapply"; fi
git -C /repo worktree remove --force $wt 2>/dev/null
