import json, sys, shutil
for sid in sys.argv[1:]:
    shutil.copy('/tmp/rb/%s.diff' % sid, '/verif/seeded/%s/patch.diff' % sid)
    p = '/verif/seeded/%s/meta.json' % sid
    d = json.load(open(p))
    d['rebased'] = 'patch re-based onto /repo 738c38c (a later fix: commit touched the same lines); suite 92 passed / 3 failed and demo exit 1 re-confirmed'
    json.dump(d, open(p, 'w'), indent=1)
    print('installed', sid)
