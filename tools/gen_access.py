"""Translator for C16 (DESIGN.md section 5): Python `ast` of the anchored modules -> ordered shared-state
accesses per entry function -> lean/AthlibVerif/Gen/SharedAccess.lean.

For every top-level function and every (class, method) of the modules below the accesses are listed in source
order, with callees inlined at the call site (functions of the same module by name, `self.m(...)` through the
class hierarchy of the entry class; parameters bound to module globals are substituted, so `_add_to_cache(c, ..)`
called with `_schema_valid_cache` contributes mutations of `_schema_valid_cache`).  Kept accesses:

* module globals that some function rebinds (`global g; g = ...`) or mutates in place: reads, rebinding with the
  kind of right-hand side, in-place mutation; each with a flag `locked` (inside `with <module-level Lock>:`);
* in-place mutation of a local that the same function publishes into a global;
* `self.<attr>` stores (with a flag: does the stored value depend on the call's arguments?) and data loads.

The analysis is syntactic and conservative in the direction of *more* accesses (all branches are listed in
source order); what it cannot see (mutation through containers of containers, `setattr`, `globals()`, other
modules writing into these) is left to the scheduler correspondence.  The same discipline that Lean decides
(`Access.disciplineOK`) is also evaluated here, only to produce readable diagnostics.
"""
import ast, os

MODULES = ['athlib/athlon_score.py', 'athlib/hungarian_score.py', 'athlib/sportshall_score.py', 'athlib/utils.py',
           'athlib/wma/agegrader.py']
INSTANCE_SITES = MODULES + ['athlib/__init__.py', 'athlib/wma/__init__.py']
MUTATORS = {'pop', 'popitem', 'clear', 'update', 'setdefault', 'append', 'extend', 'insert', 'remove', 'sort', 'reverse',
            'add', 'discard', '__setitem__', '__delitem__', 'move_to_end', 'appendleft', 'popleft'}
MAX_DEPTH = 6


class FnInfo:
    def __init__(self, mod, cls, node):
        self.mod = mod; self.cls = cls; self.node = node; self.name = node.name
        a = node.args
        self.params = [x.arg for x in a.posonlyargs + a.args] + ([a.vararg.arg] if a.vararg else []) + \
                      [x.arg for x in a.kwonlyargs] + ([a.kwarg.arg] if a.kwarg else [])
        self.is_method = cls is not None and not any(
            isinstance(d, ast.Name) and d.id == 'staticmethod' for d in node.decorator_list)
        self.selfname = self.params[0] if (self.is_method and self.params) else None
        self.events = None


class ModInfo:
    def __init__(self, path, tree):
        self.path = path; self.short = os.path.splitext(os.path.basename(path))[0]
        self.globals = set(); self.locks = set(); self.funcs = {}; self.classes = {}; self.bases = {}
        for st in tree.body:
            if isinstance(st, (ast.Assign, ast.AnnAssign, ast.AugAssign)):
                tg = st.targets if isinstance(st, ast.Assign) else [st.target]
                for t in tg:
                    for n in ast.walk(t):
                        if isinstance(n, ast.Name):
                            self.globals.add(n.id)
                            v = getattr(st, 'value', None)
                            if isinstance(v, ast.Call):
                                f = v.func
                                fn = f.attr if isinstance(f, ast.Attribute) else getattr(f, 'id', '')
                                if fn in ('Lock', 'RLock'):
                                    self.locks.add(n.id)
            elif isinstance(st, ast.FunctionDef):
                self.funcs[st.name] = FnInfo(self, None, st)
            elif isinstance(st, ast.ClassDef):
                self.bases[st.name] = [b.id for b in st.bases if isinstance(b, ast.Name)]
                self.classes[st.name] = {s.name: FnInfo(self, st.name, s) for s in st.body if isinstance(s, ast.FunctionDef)}

    def mro(self, cls):
        out = []
        todo = [cls]
        while todo:
            c = todo.pop(0)
            if c in self.classes and c not in out:
                out.append(c); todo += self.bases.get(c, [])
        return out

    def resolve_method(self, cls, name):
        for c in self.mro(cls):
            if name in self.classes[c]:
                return self.classes[c][name]
        return None


def names_in(node):
    return {n.id for n in ast.walk(node) if isinstance(n, ast.Name)}


class Extract(ast.NodeVisitor):
    """raw events of one function body, in source / evaluation order"""

    def __init__(self, fi):
        self.fi = fi; self.mod = fi.mod
        self.ev = []
        self.globals_decl = set()
        self.locked = 0
        node = fi.node
        for n in ast.walk(node):
            if isinstance(n, ast.Global):
                self.globals_decl |= set(n.names)
        # local names = parameters + every name stored in the body that is not declared global
        self.locals = set(fi.params)
        for n in ast.walk(node):
            if isinstance(n, ast.Name) and isinstance(n.ctx, (ast.Store, ast.Del)) and n.id not in self.globals_decl:
                self.locals.add(n.id)
        self.alias = {}                       # local -> module global it was assigned from
        # taint: which locals depend on the call's arguments
        self.tainted = set(p for p in fi.params if p != fi.selfname)
        for _ in range(3):
            for n in ast.walk(node):
                if isinstance(n, ast.Assign) and self.expr_tainted(n.value):
                    for t in n.targets:
                        self.tainted |= {x.id for x in ast.walk(t) if isinstance(x, ast.Name)}
                elif isinstance(n, ast.AugAssign) and self.expr_tainted(n.value) and isinstance(n.target, ast.Name):
                    self.tainted.add(n.target.id)
                elif isinstance(n, (ast.For, ast.comprehension)) and self.expr_tainted(n.iter):
                    self.tainted |= {x.id for x in ast.walk(n.target) if isinstance(x, ast.Name)}
                elif isinstance(n, ast.withitem) and n.optional_vars is not None and self.expr_tainted(n.context_expr):
                    self.tainted |= {x.id for x in ast.walk(n.optional_vars) if isinstance(x, ast.Name)}
        for st in node.body:
            self.visit(st)

    def expr_tainted(self, e):
        return bool(names_in(e) & self.tainted)

    # ---- classification of a name -----------------------------------------------------------------
    def kind(self, name):
        if name in self.globals_decl:
            return ('g', name)
        if name in self.locals:
            if name in self.alias:
                return ('g', self.alias[name])
            if name in self.fi.params:
                return ('p', name)
            return ('l', name)
        if name in self.mod.globals:
            return ('g', name)
        return None

    def emit(self, what, k):
        if k is None:
            return
        self.ev.append((what, k[0], k[1], self.locked > 0))

    def is_self(self, node):
        return isinstance(node, ast.Attribute) and isinstance(node.value, ast.Name) and node.value.id == self.fi.selfname \
            and self.fi.selfname is not None

    # ---- statements -----------------------------------------------------------------------------
    def visit_FunctionDef(self, node):      # nested definitions: not followed
        pass
    visit_AsyncFunctionDef = visit_Lambda = visit_ClassDef = visit_FunctionDef

    def visit_Global(self, node):
        pass

    def store_target(self, t, value):
        if isinstance(t, (ast.Tuple, ast.List)):
            for x in t.elts:
                self.store_target(x, value)
        elif isinstance(t, ast.Starred):
            self.store_target(t.value, value)
        elif isinstance(t, ast.Name):
            k = self.kind(t.id)
            if k and k[0] == 'g' and t.id in self.globals_decl:
                self.ev.append(('rebind', 'g', t.id, self.rhs_kind(value)))
            elif t.id in self.locals:
                # alias tracking: local = <module global>
                self.alias.pop(t.id, None)
                if isinstance(value, ast.Name):
                    kv = self.kind(value.id)
                    if kv and kv[0] == 'g':
                        self.alias[t.id] = kv[1]
        elif isinstance(t, ast.Subscript):
            self.visit(t.slice)
            self.mutate(t.value)
        elif self.is_self(t):
            self.ev.append(('sstore', t.attr, value is None or self.expr_tainted(value)))
        elif isinstance(t, ast.Attribute):
            self.visit(t.value)

    def rhs_kind(self, v):
        if v is None:
            return ('other',)
        if isinstance(v, ast.Constant) and v.value is None:
            return ('none',)
        if (isinstance(v, (ast.Dict, ast.List, ast.Set)) and not (getattr(v, 'keys', None) or getattr(v, 'elts', None))) or \
                (isinstance(v, ast.Call) and isinstance(v.func, ast.Name) and v.func.id in ('dict', 'list', 'set', 'OrderedDict')
                 and not v.args and not v.keywords):
            return ('empty',)
        if isinstance(v, ast.Name) and v.id in self.locals and v.id not in self.alias:
            return ('local', v.id)
        if isinstance(v, ast.Call):
            return ('call',)
        return ('other',)

    def mutate(self, obj):
        """in-place mutation of the object `obj` evaluates to"""
        if isinstance(obj, ast.Name):
            self.emit('mut', self.kind(obj.id))
        elif self.is_self(obj):
            self.ev.append(('sload', obj.attr))       # self.a[k] = v : read of the attribute (container mutated in place)
        else:
            self.visit(obj)

    def visit_Assign(self, node):
        self.visit(node.value)
        for t in node.targets:
            self.store_target(t, node.value)

    def visit_AnnAssign(self, node):
        if node.value is not None:
            self.visit(node.value)
            self.store_target(node.target, node.value)

    def visit_AugAssign(self, node):
        self.visit(node.value)
        t = node.target
        if isinstance(t, ast.Name):
            k = self.kind(t.id)
            if k and k[0] == 'g':
                self.ev.append(('read', 'g', k[1], self.locked > 0))
                if t.id in self.globals_decl:
                    self.ev.append(('rebind', 'g', t.id, ('other',)))
        elif isinstance(t, ast.Subscript):
            self.visit(t.slice); self.mutate(t.value)
        elif self.is_self(t):
            self.ev.append(('sload', t.attr)); self.ev.append(('sstore', t.attr, True))

    def visit_Delete(self, node):
        for t in node.targets:
            if isinstance(t, ast.Subscript):
                self.visit(t.slice); self.mutate(t.value)
            elif self.is_self(t):
                self.ev.append(('sstore', t.attr, True))

    def visit_For(self, node):
        self.visit(node.iter)
        self.store_target(node.target, None)
        for s in node.body + node.orelse:
            self.visit(s)

    def visit_With(self, node):
        lock = False
        for it in node.items:
            ce = it.context_expr
            if isinstance(ce, ast.Name) and ce.id in self.mod.locks and ce.id not in self.locals:
                lock = True
            else:
                self.visit(ce)
            if it.optional_vars is not None:
                self.store_target(it.optional_vars, None)
        if lock:
            self.locked += 1
        for s in node.body:
            self.visit(s)
        if lock:
            self.locked -= 1

    # ---- expressions ------------------------------------------------------------------------------
    def visit_Name(self, node):
        if isinstance(node.ctx, ast.Load):
            k = self.kind(node.id)
            if k and k[0] in ('g', 'p'):
                self.emit('read', k)

    def visit_Attribute(self, node):
        if self.is_self(node):
            if isinstance(node.ctx, ast.Load):
                self.ev.append(('sload', node.attr))
        else:
            self.visit(node.value)

    def visit_Call(self, node):
        f = node.func
        callee = None; bind_args = node.args
        if isinstance(f, ast.Name) and f.id in self.mod.funcs and f.id not in self.locals:
            callee = ('fn', f.id)
        elif self.is_self(f):
            callee = ('method', f.attr)
        elif isinstance(f, ast.Attribute) and f.attr in MUTATORS and \
                (isinstance(f.value, ast.Name) or self.is_self(f.value)):
            for a in node.args:
                self.visit(a)
            for k in node.keywords:
                self.visit(k.value)
            self.mutate(f.value)
            return
        # arguments first (evaluation order), bare names that are passed on are bindings, not reads
        binding = []
        for i, a in enumerate(bind_args):
            if callee and isinstance(a, ast.Name) and self.kind(a.id) is not None:
                binding.append((i, None, self.kind(a.id)))
            else:
                self.visit(a)
        for kw in node.keywords:
            if callee and kw.arg and isinstance(kw.value, ast.Name) and self.kind(kw.value.id) is not None:
                binding.append((None, kw.arg, self.kind(kw.value.id)))
            else:
                self.visit(kw.value)
        if callee:
            self.ev.append(('call', callee, binding, self.locked > 0))
        else:
            self.visit(f)


def flatten(mod, fi, entry_cls, stack, locked=False, subst=None, depth=0):
    """events of `fi` with callees inlined; `subst`: parameter -> ('g', name) | ('l', qualified name) | None"""
    if fi.events is None:
        fi.events = Extract(fi).ev
    subst = subst or {}
    qual = '%s.%s' % ((fi.cls + '.' if fi.cls else '') + fi.name, '')
    out = []
    for e in fi.events:
        if e[0] in ('read', 'mut'):
            what, k, name, lk = e
            lk = lk or locked
            if k == 'p':
                b = subst.get(name)
                if b is None:
                    continue
                k, name2 = b
                if k == 'g':
                    out.append((what, 'g', name2, lk))
                elif k == 'l' and what == 'mut':
                    out.append(('lmut', name2))
            elif k == 'g':
                out.append((what, 'g', name, lk))
            elif k == 'l' and what == 'mut':
                out.append(('lmut', qual + name))
        elif e[0] == 'rebind':
            rhs = e[3]
            if rhs[0] == 'local':
                rhs = ('local', qual + rhs[1])
            out.append(('rebind', 'g', e[2], rhs))
        elif e[0] in ('sstore', 'sload'):
            out.append(e)
        elif e[0] == 'call':
            _, callee, binding, lk = e
            if callee[0] == 'fn':
                target = mod.funcs.get(callee[1])
            else:
                target = mod.resolve_method(entry_cls, callee[1]) if entry_cls else None
                if target is None and callee[0] == 'method':
                    out.append(('sload', callee[1]))      # calling a stored callable: a data load
                    continue
            if target is None or target in stack or depth >= MAX_DEPTH:
                continue
            params = list(target.params)
            if target.is_method and callee[0] == 'method':
                params = params[1:]
            sub = {}
            for pos, kw, k in binding:
                pname = kw if kw is not None else (params[pos] if pos < len(params) else None)
                if pname is None:
                    continue
                if k[0] == 'p':
                    k = subst.get(k[1])
                elif k[0] == 'l':
                    k = ('l', qual + k[1])
                if k is not None:
                    sub[pname] = k
            out += flatten(mod, target, entry_cls, stack + [target], lk or locked, sub, depth + 1)
    return out


def shared_classes(repo, mods):
    """classes of the analysed modules that are instantiated at module level somewhere in athlib"""
    known = {c for m in mods for c in m.classes}
    shared = set()
    for rel in INSTANCE_SITES:
        p = os.path.join(repo, rel)
        if not os.path.exists(p):
            continue
        tree = ast.parse(open(p).read(), p)
        for st in tree.body:
            if isinstance(st, (ast.Assign, ast.AnnAssign)) and isinstance(getattr(st, 'value', None), ast.Call):
                f = st.value.func
                n = f.id if isinstance(f, ast.Name) else (f.attr if isinstance(f, ast.Attribute) else None)
                if n in known:
                    shared.add(n)
    return shared


def analyse(repo):
    mods = []
    for rel in MODULES:
        p = os.path.join(repo, rel)
        mods.append(ModInfo(rel, ast.parse(open(p).read(), p)))
    shared = shared_classes(repo, mods)
    entries = []          # (display name, shared?, events)
    for m in mods:
        for fn in m.funcs.values():
            entries.append(('%s.%s' % (m.short, fn.name), False, flatten(m, fn, None, [fn])))
        for cls in m.classes:
            seen = set()
            for c in m.mro(cls):
                for name, fn in m.classes[c].items():
                    if name in seen:
                        continue
                    seen.add(name)
                    ev = flatten(m, fn, cls if fn.is_method else None, [fn])
                    entries.append(('%s.%s.%s' % (m.short, cls, name), cls in shared and fn.is_method, ev))
    # an attribute is call scratch as soon as ONE store to it anywhere is argument-dependent: then every store
    # to it counts (`self._pfac = 0` in find_row_by_event vs the computed value in find_row_by_distance)
    scratch = {e[1] for _, _, ev in entries for e in ev if e[0] == 'sstore' and e[2]}
    entries = [(n, sh, [('sstore', e[1], True) if (e[0] == 'sstore' and e[1] in scratch) else e for e in ev])
               for n, sh, ev in entries]
    # module globals that matter: rebound or mutated in place by some entry
    state = set()
    for _, _, ev in entries:
        for e in ev:
            if e[0] == 'rebind' or (e[0] == 'mut' and e[1] == 'g'):
                state.add(e[2])
    out = []
    for name, sh, ev in entries:
        published = {e[3][1] for e in ev if e[0] == 'rebind' and e[3][0] == 'local'}
        keep = []
        for e in ev:
            if e[0] in ('read', 'mut'):
                if e[2] in state:
                    keep.append(e)
            elif e[0] == 'rebind':
                keep.append(e)
            elif e[0] == 'lmut':
                if e[1] in published:
                    keep.append(e)
            elif e[0] in ('sstore', 'sload'):
                if sh:
                    keep.append(e)
        if keep:
            out.append((name, sh, keep))
    return out, sorted(shared), sorted(state)


def discipline(entries):
    """the same predicate as Access.disciplineOK, with readable reasons"""
    rb = {e[2] for _, _, ev in entries for e in ev if e[0] == 'rebind'}
    mu = {e[2] for _, _, ev in entries for e in ev if e[0] == 'mut'}
    breaks = []
    for name, sh, ev in entries:
        why = []
        for i, e in enumerate(ev):
            if e[0] == 'mut' and e[2] in rb:
                why.append('in-place mutation of published global %s' % e[2])
            if e[0] == 'mut' and e[2] not in rb and not e[3]:
                why.append('unlocked in-place mutation of %s' % e[2])
            if e[0] == 'rebind' and e[3][0] == 'local' and ('lmut', e[3][1]) in ev[i + 1:]:
                why.append('%s published from local %s which is mutated afterwards' % (e[2], e[3][1]))
            if sh and e[0] == 'sstore' and e[2] and ('sload', e[1]) in ev[i + 1:]:
                why.append('self.%s stored (argument-dependent) and read back on a shared instance' % e[1])
        for g in sorted(mu - rb):
            n = sum(1 for e in ev if e[0] == 'read' and e[2] == g and not e[3])
            if n > 1:
                why.append('%d unlocked reads of in-place mutated global %s' % (n, g))
        if why:
            breaks.append('%s: %s' % (name, ', '.join(sorted(set(why)))))
    return breaks


def generate(repo):
    entries, shared, state = analyse(repo)
    ids = {}
    def intern(kind, name):
        key = (kind, name)
        if key not in ids:
            ids[key] = len(ids)
        return ids[key]
    def bool_(b):
        return 'true' if b else 'false'
    lines = []
    for name, sh, ev in entries:
        accs = []
        for e in ev:
            if e[0] == 'read':
                accs.append('.gRead %d %s' % (intern('g', e[2]), bool_(e[3])))
            elif e[0] == 'mut':
                accs.append('.gMutate %d %s' % (intern('g', e[2]), bool_(e[3])))
            elif e[0] == 'rebind':
                r = e[3]
                rhs = {'none': '.none', 'empty': '.empty', 'call': '.call', 'other': '.other'}.get(r[0])
                if rhs is None:
                    rhs = '(.localVar %d)' % intern('l', r[1])
                accs.append('.gRebind %d %s' % (intern('g', e[2]), rhs))
            elif e[0] == 'lmut':
                accs.append('.lMutate %d' % intern('l', e[1]))
            elif e[0] == 'sstore':
                accs.append('.sStore %d %s' % (intern('a', e[1]), bool_(e[2])))
            elif e[0] == 'sload':
                accs.append('.sLoad %d' % intern('a', e[1]))
        lines.append('  { name := "%s", shared := %s, accs := [%s] }' % (name, bool_(sh), ', '.join(accs)))
    table = ', '.join('(%d, "%s:%s")' % (i, k[0], k[1]) for k, i in sorted(ids.items(), key=lambda x: x[1]))
    text = ('/- GENERATED by tools/gen_access.py from the Python ast of %s - do not edit.\n'
            '   names are interned: g = module global, l = local variable, a = self attribute -/\n'
            'import AthlibVerif.Model.Access\n'
            'namespace AthlibVerif.Gen\nopen AthlibVerif.Access\n\n'
            'def accessNames : List (Nat × String) := [%s]\n\n'
            'def sharedClasses : List String := [%s]\n\n'
            'def sharedAccess : List Fn := [\n%s\n]\n\nend AthlibVerif.Gen\n') % (
        ', '.join(MODULES), table, ', '.join('"%s"' % c for c in shared), ',\n'.join(lines))
    breaks = discipline(entries)
    side = {'functions': len(entries), 'accesses': sum(len(e[2]) for e in entries), 'ok': not breaks, 'breaks': breaks,
            'shared_classes': shared, 'state_globals': state,
            'entries': [{'name': n, 'shared': s, 'accs': [list(map(str, e)) for e in ev]} for n, s, ev in entries]}
    return text, side


if __name__ == '__main__':
    import sys, json
    t, s = generate(sys.argv[1] if len(sys.argv) > 1 else '/repo')
    print(t)
    print(json.dumps({k: v for k, v in s.items() if k != 'entries'}, indent=1), file=sys.stderr)
