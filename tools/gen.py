"""GEN step helpers shared by the checks"""
import os, re
import vlib, gen_regex

_cache = {}
def regex(ctx, needed=None):
    """regenerate Gen/Alphabet.lean + Gen/Patterns.lean from the working tree"""
    if 'regex' not in _cache:
        try:
            files, side, alpha, trees, mod = gen_regex.generate(vlib.REPO, vlib.GEN)
            files.update(gen_regex.gen_codes_data(vlib.REPO, vlib.GEN, mod))
        except Exception as e:                      # codes.py does not even import
            ctx.oblig('translate:athlib/codes.py', 'translator', False, repr(e))
            _cache['regex'] = None
            return None
        changed = [p for p, txt in files.items() if vlib.write_if_changed(p, txt)]
        _cache['regex'] = (side, alpha, trees, mod, changed)
    r = _cache['regex']
    if r is None:
        return None
    side, alpha, trees, mod, changed = r
    for n in (needed or []):
        if n in side['errors']:
            ctx.oblig('translate:' + n, 'translator', False, side['errors'][n])
        elif n not in trees:
            ctx.oblig('translate:' + n, 'translator', False, 'pattern %s no longer exported by athlib.codes' % n)
    if changed:
        ctx.notes.append('regenerated: ' + ', '.join(os.path.basename(p) for p in changed))
    return r
