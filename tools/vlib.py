"""Shared machinery of the /verif checks: paths, lake build, driver, audit, known findings,
verdicts, evidence.  See DESIGN.md section 2."""
import os, sys, json, time, subprocess, hashlib, random, re, fcntl, shutil

VERIF = os.path.dirname(os.path.dirname(os.path.abspath(__file__)))
LEAN = os.path.join(VERIF, 'lean')
GEN = os.path.join(LEAN, 'AthlibVerif', 'Gen')
REPO = os.environ.get('ATHLIB_REPO', '/repo')
GUARD = 'ATHLIB_VERIF'
os.environ[GUARD] = '1'          # hooks on (there are no source hooks at present)
ALLOWED_AXIOMS = {'propext', 'Classical.choice', 'Quot.sound'}
FORBIDDEN = re.compile(r'\b(sorry|admit|native_decide|bv_decide|implemented_by)\b|^\s*axiom\s|unsafe\s|maxHeartbeats\s+0')


class InternalError(Exception):
    pass


def use_repo():
    """make `import athlib` resolve to the working tree under test"""
    if REPO not in sys.path:
        sys.path.insert(0, REPO)
    for m in list(sys.modules):
        if m == 'athlib' or m.startswith('athlib.'):
            f = getattr(sys.modules[m], '__file__', '') or ''
            if not f.startswith(REPO):
                del sys.modules[m]


class _Lock:
    def __enter__(self):
        os.makedirs(os.path.join(LEAN, '.lake'), exist_ok=True)
        self.f = open(os.path.join(LEAN, '.lake', 'verif.lock'), 'w')
        fcntl.flock(self.f, fcntl.LOCK_EX)
        return self
    def __exit__(self, *a):
        fcntl.flock(self.f, fcntl.LOCK_UN)
        self.f.close()


def write_if_changed(path, text):
    old = None
    if os.path.exists(path):
        with open(path) as f:
            old = f.read()
    if old != text:
        os.makedirs(os.path.dirname(path), exist_ok=True)
        with open(path, 'w') as f:
            f.write(text)
        return True
    return False


def lake_build(targets, timeout=3000):
    """build lake targets (modules as `AthlibVerif.X.Y` or exe names).
    returns (ok, log, failed) where failed lists the module names lake reports as failing"""
    with _Lock():
        t0 = time.time()
        p = subprocess.run(['lake', 'build'] + list(targets), cwd=LEAN, capture_output=True, text=True,
                           timeout=timeout)
        log = p.stdout + p.stderr
        failed = re.findall(r'^- (\S+)$', log, re.M)
        return p.returncode == 0, log, failed, time.time() - t0


_driver_ready = False
def driver(lines, timeout=3000):
    """run request lines through the Lean driver; returns reply lines"""
    global _driver_ready
    exe = os.path.join(LEAN, '.lake', 'build', 'bin', 'athdriver')
    if not _driver_ready:
        ok, log, failed, _ = lake_build(['athdriver'])
        if not ok:
            raise DriverBuildError(log)
        _driver_ready = True
    if not lines:
        return []
    data = '\n'.join(lines) + '\n'
    p = subprocess.run([exe], input=data, capture_output=True, text=True, timeout=timeout)
    if p.returncode != 0:
        raise InternalError('driver failed: %s' % p.stderr[:2000])
    out = p.stdout.split('\n')
    if out and out[-1] == '':
        out.pop()
    if len(out) != len(lines):
        raise InternalError('driver returned %d lines for %d requests; stderr=%s' % (len(out), len(lines), p.stderr[:500]))
    return out


class DriverBuildError(Exception):
    pass


def driver_parallel(lines, nproc=16, chunk=200000):
    """same as driver() but sharded over processes for big sweeps"""
    if len(lines) <= chunk:
        return driver(lines)
    driver([])  # make sure it is built
    from concurrent.futures import ThreadPoolExecutor
    parts = [lines[i:i + chunk] for i in range(0, len(lines), chunk)]
    with ThreadPoolExecutor(max_workers=nproc) as ex:
        res = list(ex.map(driver, parts))
    out = []
    for r in res:
        out.extend(r)
    return out


def scan_sources():
    """textual audit of lean/: forbidden constructs outside comments"""
    hits = []
    for root, dirs, files in os.walk(LEAN):
        if '.lake' in root:
            continue
        for fn in files:
            if not fn.endswith('.lean'):
                continue
            p = os.path.join(root, fn)
            txt = open(p).read()
            # strip block comments and line comments
            txt2 = re.sub(r'/-.*?-/', lambda m: '\n' * m.group(0).count('\n'), txt, flags=re.S)
            for i, line in enumerate(txt2.split('\n'), 1):
                line = line.split('--')[0]
                if FORBIDDEN.search(line):
                    hits.append('%s:%d: %s' % (os.path.relpath(p, VERIF), i, line.strip()[:120]))
    return hits


def print_axioms(imports, names, tag):
    """#print axioms for every name; returns {name: [axioms]}"""
    src = ''.join('import %s\n' % m for m in imports) + ''.join('#print axioms %s\n' % n for n in names)
    path = os.path.join(LEAN, '.lake', 'audit_%s.lean' % tag)
    with _Lock():
        with open(path, 'w') as f:
            f.write(src)
        p = subprocess.run(['lake', 'env', 'lean', path], cwd=LEAN, capture_output=True, text=True, timeout=1800)
    out = p.stdout + p.stderr
    res = {}
    for m in re.finditer(r"'([^']+)' depends on axioms: \[([^\]]*)\]", out, re.S):
        res[m.group(1)] = [a.strip() for a in m.group(2).replace('\n', ' ').split(',') if a.strip()]
    for m in re.finditer(r"'([^']+)' does not depend on any axioms", out):
        res[m.group(1)] = []
    missing = [n for n in names if n not in res and n.split('.')[-1] not in {k.split('.')[-1] for k in res}]
    if p.returncode != 0 or missing:
        raise InternalError('axiom audit failed (%s): %s' % (missing, out[:3000]))
    return res


def load_known():
    path = os.path.join(VERIF, 'known_findings.jsonl')
    known = []
    fixed = []
    if os.path.exists(path):
        for line in open(path):
            line = line.strip()
            if not line or line.startswith('#'):
                continue
            if line.startswith('fixed:'):
                fixed.append(line)
                continue
            known.append(json.loads(line))
    return known, fixed


def _canon(x):
    return json.dumps(x, sort_keys=True, default=str, ensure_ascii=True)


class Ctx:
    def __init__(self, prop, tier, seed):
        self.prop = prop; self.tier = tier; self.seed = seed
        self.rng = random.Random('%s/%s' % (prop, seed))
        self.t0 = time.time()
        self.obligations = []       # dicts: name, kind, ok, detail
        self.failing = []           # concrete failing inputs (dicts)
        self.broken = []            # (name, detail) proof obligations / correspondences that no longer check
        self.evaluations = 0
        self.distinct = set()
        self.samples = []
        self.stats = {}
        self.assumptions = []
        self.trusted = ['Lean 4.33 kernel', 'axioms ⊆ {propext, Classical.choice, Quot.sound}']
        self.checker_cmds = []
        self.axioms = {}
        self.exhaustive = False
        self.known, self.fixed = load_known()
        self.known = [k for k in self.known if k.get('property') == prop]
        self.notes = []

    # ---- bookkeeping -------------------------------------------------
    def quick(self):
        return self.tier == 'quick'

    def count(self, n=1, key=None):
        self.evaluations += n
        if key is not None:
            self.stats[key] = self.stats.get(key, 0) + n

    def sample(self, x, limit=12):
        if len(self.samples) < limit:
            self.samples.append(x)

    def seen(self, x):
        """record a distinct non-trivial case (hashed)"""
        self.distinct.add(hash(x))

    def oblig(self, name, kind, ok, detail=''):
        self.obligations.append({'name': name, 'kind': kind, 'ok': bool(ok), 'detail': detail[:400] if detail else ''})
        if not ok:
            self.broken.append((name, detail))

    def fail(self, fn, args, expected, got, note='', replay_py=None):
        """a concrete input on which the *implementation* violates the property"""
        self.failing.append({'fn': fn, 'args': args, 'expected': expected, 'got': got, 'note': note,
                             'replay_py': replay_py})

    def failures_new(self):
        """failing inputs recorded so far that no known finding accounts for"""
        return [f for f in self.failing if self._match_known(f) is None]

    # ---- Lean ---------------------------------------------------------
    def build(self, modules, label=None):
        """build theorem / obligation modules; each module is one obligation"""
        ok, log, failed, dt = lake_build(modules)
        self.checker_cmds.append('cd lean && lake build ' + ' '.join(modules))
        status = {}
        if ok:
            status = {m: (True, '') for m in modules}
        else:
            # a failing dependency is not listed under the target's own name: settle each target on its own
            for m in modules:
                ok1, log1, failed1, _ = lake_build([m])
                detail = ''
                if not ok1:
                    errs = re.findall(r'error: [^\n]*(?:\n(?!error:|trace:|✖|✔|⚠)[^\n]*){0,8}', log1)
                    detail = '\n'.join(errs[:3]) if errs else log1[-1500:]
                status[m] = (ok1, detail)
        for m in modules:
            self.oblig(m, 'lean-module', status[m][0], status[m][1])
        failed = [m for m in modules if not status[m][0]]
        return ok, log, failed

    def audit(self, imports, names):
        hits = scan_sources()
        if hits:
            raise InternalError('forbidden constructs in lean/: %s' % hits[:5])
        ax = print_axioms(imports, names, self.prop)
        for n, a in ax.items():
            extra = set(a) - ALLOWED_AXIOMS
            if extra:
                raise InternalError('theorem %s depends on axioms %s' % (n, sorted(extra)))
        self.axioms.update(ax)
        for n in names:
            self.oblig(n, 'theorem', True)
        return ax

    def leanchecker(self, modules):
        with _Lock():
            p = subprocess.run(['lake', 'env', 'leanchecker'] + list(modules), cwd=LEAN, capture_output=True,
                               text=True, timeout=3000)
        self.checker_cmds.append('cd lean && lake env leanchecker ' + ' '.join(modules))
        self.oblig('leanchecker:' + ','.join(m.split('.')[-1] for m in modules), 'recheck', p.returncode == 0,
                   (p.stdout + p.stderr)[-800:])

    # ---- verdict ------------------------------------------------------
    def _match_known(self, f):
        for k in self.known:
            m = k.get('match', {})
            if 'fn' in m and m['fn'] != f['fn']:
                continue
            if 'args_regex' in m and not re.search(m['args_regex'], _canon(f['args'])):
                continue
            if 'got_regex' in m and not re.search(m['got_regex'], str(f['got'])):
                continue
            if 'expected_regex' in m and not re.search(m['expected_regex'], str(f['expected'])):
                continue
            if 'note_regex' in m and not re.search(m['note_regex'], str(f.get('note', ''))):
                continue
            return k
        return None

    def finish(self):
        wall = time.time() - self.t0
        new = []; hits = {}
        for f in self.failing:
            k = self._match_known(f)
            if k is None:
                new.append(f)
            else:
                hits.setdefault(k['id'], [k, 0, f])
                hits[k['id']][1] += 1
        new.sort(key=lambda f: len(_canon(f['args'])))        # smallest failing input first
        # a broken obligation may be explained by a known finding (explicit link)
        unexplained = []
        for name, detail in self.broken:
            expl = None
            for k in self.known:
                for pat in k.get('explains', []):
                    if re.search(pat, name):
                        expl = k
            if expl is None:
                unexplained.append((name, detail))
            else:
                hits.setdefault(expl['id'], [expl, 0, None])
        nob = len(self.obligations)
        ndis = sum(1 for o in self.obligations if o['ok'])
        violations = 0
        lines = []
        for kid, (k, n, f) in sorted(hits.items()):
            lines.append('KNOWN-FINDING: property=%s %s [%s; %d failing inputs this run]' % (self.prop, k['what'], kid, n))
        replay = None
        if new or unexplained:
            violations = len(new) if new else 1
            os.makedirs(os.path.join(VERIF, 'replays'), exist_ok=True)
            body = {'property': self.prop, 'tier': self.tier, 'seed': self.seed,
                    'failing_inputs': new[:40], 'failing_inputs_total': len(new),
                    'no_longer_checks': [{'name': n, 'detail': d} for n, d in unexplained][:40],
                    'how_to_replay': '/venv/bin/python tools/vcheck.py --replay <this file>'}
            h = hashlib.sha1(_canon(body).encode()).hexdigest()[:10]
            replay = os.path.join('replays', '%s-%s.json' % (self.prop, h))
            with open(os.path.join(VERIF, replay), 'w') as fh:
                json.dump(body, fh, indent=1, default=str)
            if new:
                lines.append('VIOLATION property=%s replay=%s' % (self.prop, replay))
            else:
                lines.append('VIOLATION property=%s replay=%s no-failing-input-found' % (self.prop, replay))
        ev = {
            'property_id': self.prop, 'tier': self.tier, 'seed': self.seed, 'level': 'proof',
            'coverage': {
                'obligations': nob, 'discharged': ndis,
                'checker_cmd': ' ; '.join(dict.fromkeys(self.checker_cmds)) or 'cd lean && lake build',
                'trusted_base': self.trusted,
                'evaluations': self.evaluations,
                'distinct_nontrivial': len(self.distinct),
                'rule': getattr(self, 'rule', ''),
                'samples': self.samples[:12] or ['(none)'],
                'exhaustive': bool(self.exhaustive),
                'obligation_list': self.obligations[:400],
                'axioms': self.axioms,
                'correspondence': self.stats,
                'known_findings_hit': sorted(hits),
                'notes': self.notes,
            },
            'assumptions': self.assumptions,
            'wall_s': round(wall, 2),
            'violations': violations,
        }
        os.makedirs(os.path.join(VERIF, 'evidence'), exist_ok=True)
        with open(os.path.join(VERIF, 'evidence', '%s.json' % self.prop), 'w') as fh:
            json.dump(ev, fh, indent=1, default=str)
        for l in lines:
            print(l)
        print('%s tier=%s seed=%s: obligations %d/%d, correspondence/oracle evaluations %d, %s, %.1fs' % (
            self.prop, self.tier, self.seed, ndis, nob, self.evaluations,
            'VIOLATION' if violations else 'ok', wall))
        return 1 if violations else 0


# ---- text arguments that are str subclasses (an Enum with str mixin, a str whose __str__ says something else): the
# ---- library must treat them as the text they ARE (their str value), not as what str()/repr()/format() print
import enum as _enum
class _Odd(str):
    def __str__(self): return 'Man:' + str.__str__(self)
    def __repr__(self): return '<odd %s>' % str.__str__(self)
def strlike_forms(s):
    """[a str-Enum member whose value is s (class name starts with 'M'), a str subclass with its own __str__]"""
    E = _enum.Enum('MastersText', {'MEMBER': s}, type=str)
    return [E.MEMBER, _Odd(s)]
