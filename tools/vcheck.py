#!/venv/bin/python
"""Entry point: /venv/bin/python tools/vcheck.py --property Cxx --tier quick|thorough
   env: VERIF_SEED (default 0), VERIF_TIER (overrides --tier), ATHLIB_REPO (default /repo)
   exit 0: held on everything explored; 1: VIOLATION line printed; 2: internal error / timeout"""
import sys, os, argparse, importlib, json, traceback
sys.path.insert(0, os.path.dirname(os.path.abspath(__file__)))
import vlib

def replay(path):
    body = json.load(open(path if os.path.isabs(path) else os.path.join(vlib.VERIF, path)))
    vlib.use_repo()
    print('property', body['property'])
    for f in body.get('failing_inputs', []):
        print('- %s%r' % (f['fn'], tuple(f['args']) if isinstance(f['args'], list) else f['args']))
        print('    property demands:', f['expected'])
        print('    recorded result :', f['got'], f.get('note', ''))
        if f.get('replay_py'):
            env = {}
            try:
                exec('import athlib\n' + f['replay_py'], env)
                print('    replayed now    :', env.get('result'))
            except Exception as e:
                print('    replayed now    : raised %s: %s' % (type(e).__name__, e))
    for b in body.get('no_longer_checks', []):
        print('- no longer checks:', b['name'])
        print('   ', (b['detail'] or '').replace('\n', '\n    ')[:1500])
    return 0

def main():
    ap = argparse.ArgumentParser()
    ap.add_argument('--property')
    ap.add_argument('--tier', default='quick')
    ap.add_argument('--replay')
    a = ap.parse_args()
    if a.replay:
        sys.exit(replay(a.replay))
    tier = os.environ.get('VERIF_TIER') or a.tier
    if tier not in ('quick', 'thorough'):
        tier = 'quick'
    try:
        seed = int(os.environ.get('VERIF_SEED', '0'))
    except ValueError:
        seed = 0
    prop = a.property.upper()
    ctx = vlib.Ctx(prop, tier, seed)
    try:
        mod = importlib.import_module('checks.' + prop.lower())
        mod.run(ctx)
        rc = ctx.finish()
    except vlib.InternalError as e:
        print('INTERNAL ERROR in check %s: %s' % (prop, e))
        sys.exit(2)
    except Exception as e:
        # an exception that escapes from the library under test, in a call the check takes to be safe (it returns on the
        # unchanged tree), is a finding about the library, not an internal error of the check: report it with the call
        tb = traceback.extract_tb(e.__traceback__)
        repo = os.path.realpath(vlib.REPO)
        inner = tb[-1] if tb else None
        if inner is not None and os.path.realpath(inner.filename).startswith(repo + os.sep):
            caller = next((f for f in reversed(tb) if not os.path.realpath(f.filename).startswith(repo + os.sep)), None)
            where = '%s:%d' % (os.path.relpath(inner.filename, repo), inner.lineno)
            ctx.fail('library call made by the check', [caller.line if caller else '?'], 'returns, as on the unchanged tree',
                     '%s: %s (raised at %s)' % (type(e).__name__, e, where),
                     note='unexpected exception from the library in a call that returns on the unchanged tree; the check stopped there',
                     replay_py='# the check stopped at %s:%s\n# %s' % (os.path.basename(caller.filename) if caller else '?', caller.lineno if caller else '?', caller.line if caller else ''))
            traceback.print_exc()
            try:
                rc = ctx.finish()
            except Exception:
                traceback.print_exc()
                print('INTERNAL ERROR in check %s' % prop)
                sys.exit(2)
            sys.exit(rc)
        traceback.print_exc()
        print('INTERNAL ERROR in check %s' % prop)
        sys.exit(2)
    sys.exit(rc)

if __name__ == '__main__':
    main()
