"""Helper for the seeded-change corpus (not part of any registered check).
  confirm <prop> <srcdir> <worktree> [offset] : verify a sub-agent's change (suite still 92/3, demo fails with / passes without),
                                         then store it as /verif/seeded/<prop>-<name>/ with meta.json
  run [<id> ...]                        : apply each stored patch to /repo, run the property's quick check, undo, report"""
import sys, os, json, subprocess, shutil, glob
VERIF = os.path.dirname(os.path.dirname(os.path.abspath(__file__)))
PY = '/venv/bin/python'

def sh(cmd, cwd=None, timeout=3000):
    p = subprocess.run(cmd, cwd=cwd, capture_output=True, text=True, timeout=timeout)
    return p.returncode, p.stdout + p.stderr

def suite(wt):
    rc, out = sh([PY, '-m', 'pytest', '-q', '-p', 'no:cacheprovider', 'tests'], cwd=wt)
    return out.strip().split('\n')[-1]

def confirm(prop, src, wt, offset=0):
    res = []
    for d in sorted(glob.glob(os.path.join(src, 'm*'))):
        name = os.path.basename(d)
        if offset: name = 'm%d' % (int(name[1:]) + offset)
        patch = os.path.join(d, 'patch.diff'); demo = os.path.join(d, 'demo.py')
        if not (os.path.exists(patch) and os.path.exists(demo)): continue
        sh(['git', 'checkout', '--', '.'], cwd=wt); sh(['git', 'clean', '-fdq'], cwd=wt)
        rc0, o0 = sh([PY, demo, wt])
        rca, oa = sh(['git', 'apply', patch], cwd=wt)
        tail = suite(wt) if rca == 0 else 'patch does not apply: ' + oa
        rc1, o1 = sh([PY, demo, wt]) if rca == 0 else (None, '')
        sh(['git', 'checkout', '--', '.'], cwd=wt); sh(['git', 'clean', '-fdq'], cwd=wt)
        ok = rca == 0 and '92 passed' in tail and '3 failed' in tail and rc0 == 0 and rc1 == 1
        res.append((name, ok, tail, rc0, rc1))
        if ok:
            dst = os.path.join(VERIF, 'seeded', '%s-%s' % (prop, name))
            os.makedirs(dst, exist_ok=True)
            shutil.copy(patch, dst); shutil.copy(demo, dst)
            notes = open(os.path.join(d, 'notes.md')).read() if os.path.exists(os.path.join(d, 'notes.md')) else ''
            open(os.path.join(dst, 'notes.md'), 'w').write(notes)
            json.dump({'property': prop, 'breaks': prop, 'source': 'independent sub-agent given only the property text and a scratch worktree',
                       'needs_to_manifest': notes[:1500],
                       'confirmed': {'suite_with_patch': tail, 'demo_exit_without_patch': rc0, 'demo_exit_with_patch': rc1,
                                     'demo_output_with_patch': o1[-800:]},
                       'ran': ['git apply patch.diff (scratch worktree)', '%s -m pytest -q -p no:cacheprovider tests' % PY,
                               '%s demo.py <worktree> (with and without the patch)' % PY]},
                      open(os.path.join(dst, 'meta.json'), 'w'), indent=1)
    for r in res: print(r)

def run(ids):
    """SEED_WT=<dir>: apply each patch in a scratch worktree <dir> of /repo's HEAD (ATHLIB_REPO=<dir> for the check)
    instead of /repo itself — for use while something else is reading /repo"""
    dirs = sorted(glob.glob(os.path.join(VERIF, 'seeded', '*')))
    out = []
    wt = os.environ.get('SEED_WT')
    target = wt or '/repo'
    env = dict(os.environ)
    if wt:
        sh(['git', '-C', '/repo', 'worktree', 'remove', '--force', wt])
        rc, o = sh(['git', '-C', '/repo', 'worktree', 'add', '-q', '--detach', wt, 'HEAD'])
        assert rc == 0, o
        env['ATHLIB_REPO'] = wt
    try:
        for d in dirs:
            sid = os.path.basename(d)
            if ids and sid not in ids and not any(sid.startswith(i) for i in ids): continue
            meta = json.load(open(os.path.join(d, 'meta.json')))
            props = meta.get('checks') or [meta['property']]
            rc, o = sh(['git', '-C', target, 'status', '--porcelain', '--untracked-files=no'])
            assert o.strip() == '', target + ' is dirty: ' + o
            rca, oa = sh(['git', '-C', target, 'apply', os.path.join(d, 'patch.diff')])
            try:
                for prop in props:
                    if rca != 0:
                        out.append((sid, prop, 'patch does not apply', oa[:200])); continue
                    p = subprocess.run([PY, 'tools/vcheck.py', '--property', prop, '--tier', 'quick'], cwd=VERIF, capture_output=True, text=True, timeout=3000, env=env)
                    rc, o = p.returncode, p.stdout + p.stderr
                    vl = [l for l in o.split('\n') if l.startswith('VIOLATION')]
                    out.append((sid, prop, 'exit %d' % rc, vl[0] if vl else o.strip().split('\n')[-1][:200]))
                    meta.setdefault('detected_by', {})[prop] = {'exit': rc, 'line': vl[0] if vl else None}
            finally:
                sh(['git', '-C', target, 'checkout', '--', '.'])
            json.dump(meta, open(os.path.join(d, 'meta.json'), 'w'), indent=1)
            print(out[-1], flush=True)
    finally:
        if wt:
            sh(['git', '-C', '/repo', 'worktree', 'remove', '--force', wt])
    return out

if __name__ == '__main__':
    if sys.argv[1] == 'confirm': confirm(sys.argv[2], sys.argv[3], sys.argv[4], int(sys.argv[5]) if len(sys.argv) > 5 else 0)
    else: run(sys.argv[2:])
