import ast, json, sys, os
mode = sys.argv[1]   # first | final
for log in sys.argv[2:]:
    for l in open(log):
        l = l.strip()
        if not l.startswith("('C"): continue
        sid, prop, ex, line = ast.literal_eval(l)
        p = '/verif/seeded/%s/meta.json' % sid
        d = json.load(open(p))
        if not ex.startswith('exit'):
            d.setdefault('first_run', {})[prop] = {'exit': None, 'line': ex + ': ' + line}
            json.dump(d, open(p, 'w'), indent=1); continue
        rec = {'exit': int(ex.split()[1]), 'line': line}
        if mode == 'first':
            d['first_run'] = {prop: rec}
            if rec['exit'] == 1: d['detected_by'] = {prop: rec}
        else:
            if rec['exit'] == 1: d['detected_by'] = {prop: rec}
            else: d['final_run'] = {prop: rec}
        json.dump(d, open(p, 'w'), indent=1)
        print(sid, mode, rec['exit'], 'nfi' if 'no-failing-input-found' in line else '')
