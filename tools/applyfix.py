"""apply a builder's fix diff to /repo as one 'fix:' commit (message = text before the diff), after the suite check"""
import sys, subprocess
for f in sys.argv[1:]:
    t = open(f).read()
    i = t.index('\n--- a/')
    msg = t[:i].strip()
    assert msg.startswith('fix:'), f
    p = subprocess.run(['patch', '-p1', '--no-backup-if-mismatch'], cwd='/repo', input=t, capture_output=True, text=True)
    if p.returncode != 0:
        print('PATCH FAILED', f, p.stdout[-400:], p.stderr[-200:]); subprocess.run(['git', 'checkout', '--', '.'], cwd='/repo'); sys.exit(1)
    r = subprocess.run(['/venv/bin/python', '-m', 'pytest', '-q', '-p', 'no:cacheprovider', 'tests'], cwd='/repo', capture_output=True, text=True)
    tail = r.stdout.strip().split('\n')[-1]
    if not ('92 passed' in tail and '3 failed' in tail):
        print('SUITE CHANGED', f, tail); subprocess.run(['git', 'checkout', '--', '.'], cwd='/repo'); sys.exit(1)
    subprocess.run(['git', 'commit', '-qam', msg], cwd='/repo', check=True)
    h = subprocess.run(['git', 'log', '--oneline', '-1'], cwd='/repo', capture_output=True, text=True).stdout.strip()
    print(h, '|', tail)
