"""Write spec/junior_tables_pinned.txt.gz: the published junior scoring tables as transcribed in the tree the
properties were written against (plus the recorded fix: commits).  Run by hand, never by a check:
    /venv/bin/python tools/pin_junior.py
C11 says "the published table"; the publication itself is not in the sandbox, so this copy is the spec-side
constant it is compared with (as ESAA_ROW is for C01).  A Python literal, read back with ast.literal_eval."""
import os, gzip, ast, pprint, types
import vlib
import junior_common as JC

PATH = os.path.join(vlib.VERIF, 'spec', 'junior_tables_pinned.txt.gz')


def snapshot(L):
    return {'ty': L['tyrving_score']._tyrvingTables, 'qk': L['qkids_score']._qkidsTables, 'qkmap': L['qkids_score']._compTypeMap,
            'sh': L['sh_db'], 'bg': L['bulgarian_score'].scores}


def load():
    with gzip.open(PATH, 'rt') as f:
        return ast.literal_eval(f.read())


def as_L(P, L):
    """the pinned tables behind the interface tools/junior_common.py reads"""
    NS = types.SimpleNamespace
    return {'tyrving_score': NS(_tyrvingTables=P['ty']), 'qkids_score': NS(_qkidsTables=P['qk'], _compTypeMap=P['qkmap']),
            'sh_db': P['sh'], 'bulgarian_score': NS(scores=P['bg']), 'codes': L['codes']}


if __name__ == '__main__':
    L = JC.live()
    txt = repr(snapshot(L))
    assert ast.literal_eval(txt) == snapshot(L)
    with gzip.GzipFile(PATH, 'wb', mtime=0) as f:
        f.write(txt.encode())
    print(PATH, os.path.getsize(PATH))
