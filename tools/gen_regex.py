"""Translator T1: every compiled pattern exported by athlib.codes -> Lean `RE` terms over a
finite symbol alphabet (Gen/Alphabet.lean, Gen/Patterns.lean) + a JSON side-car.

The pattern text is parsed with CPython's own `re._parser`, i.e. exactly as `re.compile` reads it.
Unsupported constructs raise TranslateError (reported by the caller as a broken obligation).
"""
import sys, os, re, json, importlib
import re._parser as sp
import re._constants as sc

MAXC = 0x10FFFF

class TranslateError(Exception):
    pass

def _cat_ranges(rx):
    """code-point ranges matched by a one-character compiled regex (scan of all code points)"""
    out = []; start = None
    m = rx.match
    for cp in range(MAXC + 1):
        ok = m(chr(cp)) is not None
        if ok and start is None: start = cp
        elif not ok and start is not None:
            out.append((start, cp - 1)); start = None
    if start is not None: out.append((start, MAXC))
    return out

_CAT = {}
def cat_ranges(name):
    if name not in _CAT:
        pat = {'digit': r'\d', 'space': r'\s', 'word': r'\w',
               'not_digit': r'\D', 'not_space': r'\S', 'not_word': r'\W'}[name]
        _CAT[name] = _cat_ranges(re.compile(pat))
    return _CAT[name]

def norm_ranges(rs):
    rs = sorted(rs); out = []
    for lo, hi in rs:
        if out and lo <= out[-1][1] + 1:
            out[-1] = (out[-1][0], max(out[-1][1], hi))
        else:
            out.append((lo, hi))
    return out

def compl(rs):
    out = []; prev = 0
    for lo, hi in norm_ranges(rs):
        if lo > prev: out.append((prev, lo - 1))
        prev = hi + 1
    if prev <= MAXC: out.append((prev, MAXC))
    return out

_CATMAP = {sc.CATEGORY_DIGIT: 'digit', sc.CATEGORY_SPACE: 'space', sc.CATEGORY_WORD: 'word',
           sc.CATEGORY_NOT_DIGIT: 'not_digit', sc.CATEGORY_NOT_SPACE: 'not_space',
           sc.CATEGORY_NOT_WORD: 'not_word'}

def cls_of(items):
    neg = False; rs = []
    for op, av in items:
        if op is sc.NEGATE: neg = True
        elif op is sc.LITERAL: rs.append((av, av))
        elif op is sc.RANGE: rs.append(tuple(av))
        elif op is sc.CATEGORY:
            if av not in _CATMAP: raise TranslateError('category %r' % (av,))
            rs += cat_ranges(_CATMAP[av])
        else:
            raise TranslateError('class item %r' % (op,))
    rs = norm_ranges(rs)
    return tuple(compl(rs) if neg else rs)

def tr(p, groupnames):
    """SubPattern -> nested tuple AST"""
    seq = []
    for op, av in p:
        if op is sc.LITERAL: seq.append(('cls', ((av, av),)))
        elif op is sc.NOT_LITERAL: seq.append(('cls', tuple(compl([(av, av)]))))
        elif op is sc.ANY: seq.append(('cls', tuple(compl([(10, 10)]))))
        elif op is sc.IN: seq.append(('cls', cls_of(av)))
        elif op is sc.CATEGORY: seq.append(('cls', cls_of([(op, av)])))
        elif op is sc.BRANCH: seq.append(('alts', [tr(x, groupnames) for x in av[1]]))
        elif op is sc.SUBPATTERN:
            g, af, df, sub = av
            if af or df: raise TranslateError('inline flags')
            t = tr(sub, groupnames)
            if g is None: seq.append(t)
            else: seq.append(('group', g, groupnames.get(g), t))
        elif op in (sc.MAX_REPEAT, sc.MIN_REPEAT):
            lo, hi, sub = av
            seq.append(('rep', lo, None if hi is sc.MAXREPEAT else hi, tr(sub, groupnames)))
        elif op is sc.AT:
            if av is sc.AT_BEGINNING: seq.append(('bol',))
            elif av is sc.AT_END: seq.append(('eol',))
            else: raise TranslateError('anchor %r' % (av,))
        else:
            raise TranslateError('op %r' % (op,))
    return ('seq', seq)

def parse(pattern_text, flags=0):
    if flags & ~re.UNICODE:
        raise TranslateError('flags %r' % flags)
    st = sp.parse(pattern_text)
    names = {v: k for k, v in st.state.groupdict.items()}
    t = tr(st, names)
    check_anchors(t)
    return t

def check_anchors(t):
    """we model full-match patterns: every path starts with '^' and ends with '$';
    '^' may only occur in head position, '$' only in tail position"""
    _chk(t, True, True)
    if not (_starts_bol(t) and _ends_eol(t)):
        raise TranslateError('pattern is not anchored at both ends')

def _chk(t, head, tail):
    k = t[0]
    if k == 'bol':
        if not head: raise TranslateError('^ not at start')
    elif k == 'eol':
        if not tail: raise TranslateError('$ not at end')
    elif k == 'seq':
        n = len(t[1])
        for i, x in enumerate(t[1]):
            _chk(x, head and i == 0, tail and i == n - 1)
    elif k == 'alts':
        for x in t[1]: _chk(x, head, tail)
    elif k == 'group': _chk(t[3], head, tail)
    elif k == 'rep': _chk(t[3], False, False)

def _starts_bol(t):
    k = t[0]
    if k == 'bol': return True
    if k == 'seq': return bool(t[1]) and _starts_bol(t[1][0])
    if k == 'alts': return all(_starts_bol(x) for x in t[1])
    if k == 'group': return _starts_bol(t[3])
    return False

def _ends_eol(t):
    k = t[0]
    if k == 'eol': return True
    if k == 'seq': return bool(t[1]) and _ends_eol(t[1][-1])
    if k == 'alts': return all(_ends_eol(x) for x in t[1])
    if k == 'group': return _ends_eol(t[3])
    return False

def collect_classes(t, acc):
    k = t[0]
    if k == 'cls': acc.add(tuple(t[1]))
    elif k in ('seq', 'alts'):
        for x in t[1]: collect_classes(x, acc)
    elif k == 'rep': collect_classes(t[3], acc)
    elif k == 'group': collect_classes(t[3], acc)

class Alphabet:
    """coarsest partition of code points on which every class is constant"""
    def __init__(self, classes):
        self.classes = sorted(set(classes) | {((10, 10),)})
        bounds = {0, MAXC + 1}
        for c in self.classes:
            for lo, hi in c:
                bounds.add(lo); bounds.add(hi + 1)
        bounds = sorted(bounds)
        atoms = [(bounds[i], bounds[i + 1] - 1) for i in range(len(bounds) - 1)]
        sigs = {}; self.atoms = []
        import bisect
        starts = {c: [r[0] for r in c] for c in self.classes}
        def inside(c, x):
            i = bisect.bisect_right(starts[c], x) - 1
            return i >= 0 and c[i][0] <= x <= c[i][1]
        for lo, hi in atoms:
            s = tuple(inside(c, lo) for c in self.classes)
            if s not in sigs: sigs[s] = len(sigs)
            self.atoms.append((lo, hi, sigs[s]))
        # merge adjacent atoms with equal symbol
        merged = []
        for lo, hi, s in self.atoms:
            if merged and merged[-1][2] == s and merged[-1][1] + 1 == lo:
                merged[-1] = (merged[-1][0], hi, s)
            else:
                merged.append((lo, hi, s))
        self.atoms = merged
        self.nsym = len(sigs)            # number of symbols; indices 0..nsym-1
        self.rep = {}
        for lo, hi, s in self.atoms:
            self.rep.setdefault(s, lo)
        self._los = [a[0] for a in self.atoms]
        self._inside = inside
    def sym_of(self, cp):
        import bisect
        i = bisect.bisect_right(self._los, cp) - 1
        return self.atoms[i][2]
    def mask(self, c):
        c = tuple(c)
        if c not in self.classes:
            raise TranslateError('class outside the alphabet partition')
        m = 0
        for s in range(self.nsym):
            if self._inside(c, self.rep[s]):
                m |= 1 << s
        return m

def lean_re(t, alpha):
    k = t[0]
    if k == 'cls': return '(.cls %d)' % alpha.mask(t[1])
    if k == 'group': return lean_re(t[3], alpha)
    if k == 'seq':
        items = [x for x in t[1] if x[0] != 'bol']
        if not items: return '.eps'
        r = None
        for x in reversed(items):
            lx = lean_re(x, alpha); r = lx if r is None else '(.cat %s %s)' % (lx, r)
        return r
    if k == 'alts':
        r = None
        for x in reversed(t[1]):
            lx = lean_re(x, alpha); r = lx if r is None else '(.alt %s %s)' % (lx, r)
        return r
    if k == 'rep':
        _, lo, hi, sub = t; s = lean_re(sub, alpha)
        if hi is None: r = '(.star %s)' % s
        else:
            r = None
            for _ in range(hi - lo):
                r = '(.alt .eps %s)' % s if r is None else '(.alt .eps (.cat %s %s))' % (s, r)
            if r is None: r = '.eps'
        for _ in range(lo):
            r = s if r == '.eps' else '(.cat %s %s)' % (s, r)
        return r
    if k == 'eol': return '(.alt .eps (.cls %d))' % alpha.mask(((10, 10),))
    if k == 'bol': return '.eps'
    raise TranslateError(k)

def lean_gre(t, alpha, anchored_only=True):
    """ordered, greedy, with groups: for the capture-reporting matcher"""
    k = t[0]
    if k == 'cls': return '(.cls %d)' % alpha.mask(t[1])
    if k == 'group': return '(.grp %d %s)' % (t[1], lean_gre(t[3], alpha))
    if k == 'seq':
        items = [x for x in t[1] if x[0] != 'bol']
        if not items: return '.eps'
        r = None
        for x in reversed(items):
            lx = lean_gre(x, alpha); r = lx if r is None else '(.cat %s %s)' % (lx, r)
        return r
    if k == 'alts':
        r = None
        for x in reversed(t[1]):
            lx = lean_gre(x, alpha); r = lx if r is None else '(.alt %s %s)' % (lx, r)
        return r
    if k == 'rep':
        _, lo, hi, sub = t; s = lean_gre(sub, alpha)
        if hi is None: r = '(.star %s)' % s
        else:
            r = None
            for _ in range(hi - lo):
                r = '(.alt %s .eps)' % s if r is None else '(.alt (.cat %s %s) .eps)' % (s, r)     # greedy: one more first
            if r is None: r = '.eps'
        for _ in range(lo):
            r = s if r == '.eps' else '(.cat %s %s)' % (s, r)
        return r
    if k == 'eol': return '(.eol %d)' % alpha.mask(((10, 10),))
    if k == 'bol': return '.eps'
    raise TranslateError(k)

def parse_prefix(pattern_text, flags=0):
    """patterns used as prefix matchers (`^\\d+`): leading ^ only"""
    if flags & ~re.UNICODE: raise TranslateError('flags %r' % flags)
    st = sp.parse(pattern_text)
    names = {v: k for k, v in st.state.groupdict.items()}
    t = tr(st, names)
    _chk(t, True, False)
    if not _starts_bol(t): raise TranslateError('prefix pattern does not start with ^')
    return t

def load_patterns(repo):
    """{name: pattern text} for every compiled regex in athlib.codes.__all__ (from the working tree)"""
    import importlib.util
    path = os.path.join(repo, 'athlib', 'codes.py')
    spec = importlib.util.spec_from_file_location('_athlib_codes_for_gen', path)
    mod = importlib.util.module_from_spec(spec)
    spec.loader.exec_module(mod)
    out = {}
    for n in dir(mod):
        v = getattr(mod, n)
        if n.startswith('PAT_') and hasattr(v, 'pattern'):
            out[n] = (v.pattern, v.flags)
    return out, mod

def generate(repo, outdir):
    pats, mod = load_patterns(repo)
    trees = {}; errors = {}
    for n, (p, fl) in sorted(pats.items()):
        try:
            trees[n] = parse(p, fl)
        except (TranslateError, re.error) as e:
            errors[n] = repr(e)
    prefix = {}
    for n in list(errors):
        try:
            prefix[n] = parse_prefix(*pats[n]); del errors[n]
        except (TranslateError, re.error):
            pass
    # a pattern that cannot be translated must not take the whole Lean build (and with it every other property's
    # check) down: it is emitted WITHOUT the flags we do not model, or as the pattern that matches nothing, and stays
    # listed in `errors` — every check that needs it reports the broken tie and searches the implementation
    for n in list(errors):
        p, fl = pats[n]
        try:
            trees[n] = parse(p, fl & re.UNICODE)
            errors[n] += ' (emitted without the unmodelled flags: the model does NOT represent this pattern)'
        except (TranslateError, re.error):
            try:
                prefix[n] = parse_prefix(p, fl & re.UNICODE)
                errors[n] += ' (emitted as a prefix pattern without the unmodelled flags)'
            except (TranslateError, re.error):
                trees[n] = ('seq', [('bol',), ('cls', ()), ('eol',)])
                errors[n] += ' (emitted as the pattern that matches nothing)'
    classes = set()
    for t in trees.values(): collect_classes(t, classes)
    for t in prefix.values(): collect_classes(t, classes)
    classes |= {tuple(cat_ranges('space')), tuple(cat_ranges('digit')), ((46, 46),), ((48, 57),), ((65, 90),), ((97, 122),)}
    alpha = Alphabet(classes)
    A = ['-- GENERATED by tools/gen_regex.py from athlib/codes.py; do not edit',
         'import AthlibVerif.Model.Regex', 'namespace AthlibVerif.Gen',
         '/-- greatest symbol index -/', 'def nsym : Nat := %d' % (alpha.nsym - 1),
         '/-- (lo, hi, symbol): code-point intervals, ascending, covering 0..0x10FFFF -/',
         'def symTable : List (Nat × Nat × Nat) := [']
    A.append(',\n'.join('  (%d, %d, %d)' % a for a in alpha.atoms))
    A.append(']')
    A.append('/-- representative (first) code point of each symbol -/')
    A.append('def symRep : List Nat := [%s]' % ', '.join(str(alpha.rep[s]) for s in range(alpha.nsym)))
    A.append('end AthlibVerif.Gen')
    P = ['-- GENERATED by tools/gen_regex.py from athlib/codes.py; do not edit',
         'import AthlibVerif.Model.Regex', 'namespace AthlibVerif.Gen', 'open AthlibVerif']
    for n in sorted(trees):
        P.append('def %s : RE := %s' % (n, lean_re(trees[n], alpha)))
    P.append('/-- name -> pattern, for the driver -/')
    P.append('def patternTable : List (String × RE) := [%s]' % ', '.join('("%s", %s)' % (n, n) for n in sorted(trees)))
    P.append('end AthlibVerif.Gen')
    G = ['-- GENERATED by tools/gen_regex.py from athlib/codes.py; do not edit',
         'import AthlibVerif.Model.Match', 'namespace AthlibVerif.Gen', 'open AthlibVerif']
    allg = dict(trees); allg.update(prefix)
    for n in sorted(allg):
        G.append('def G_%s : GRE := %s' % (n, lean_gre(allg[n], alpha)))
    G.append('def gPatternTable : List (String × GRE) := [%s]' % ', '.join('("%s", G_%s)' % (n, n) for n in sorted(allg)))
    def names_of(t, acc):
        k = t[0]
        if k == 'group':
            if t[2]: acc.append((t[2], t[1]))
            names_of(t[3], acc)
        elif k in ('seq', 'alts'):
            for x in t[1]: names_of(x, acc)
        elif k == 'rep': names_of(t[3], acc)
        return acc
    G.append('/-- named groups of each pattern: name -> group number -/')
    G.append('def gGroupNames : List (String × List (String × Nat)) := [%s]' % ', '.join(
        '("%s", [%s])' % (n, ', '.join('("%s", %d)' % (a, b) for a, b in names_of(allg[n], []))) for n in sorted(allg)))
    G.append('def spaceMask : Nat := %d' % alpha.mask(tuple(cat_ranges('space'))))
    G.append('def digitMask : Nat := %d' % alpha.mask(tuple(cat_ranges('digit'))))
    G.append('def asciiDigitMask : Nat := %d' % alpha.mask(((48, 57),)))
    G.append('def dotMask : Nat := %d' % alpha.mask(((46, 46),)))
    dz = []
    for lo, hi in cat_ranges('digit'):
        if (hi - lo + 1) % 10: raise TranslateError('digit block not a multiple of ten')
        import unicodedata
        if unicodedata.digit(chr(lo)) != 0: raise TranslateError('digit block does not start at zero')
        dz.append((lo, hi))
    G.append('/-- blocks of decimal digits (each starts at a zero digit, length a multiple of ten): value = (cp - lo) % 10 -/')
    G.append('def digitBlocks : List (Nat × Nat) := [%s]' % ', '.join('(%d, %d)' % d for d in dz))
    # upper-casing as a map on symbols, for the symbols PAT_EVENT_CODE uses (identity elsewhere)
    used = 0
    def masks_of(t):
        nonlocal used
        k = t[0]
        if k == 'cls': used |= alpha.mask(t[1])
        elif k in ('seq', 'alts'):
            for x in t[1]: masks_of(x)
        elif k in ('rep', 'group'): masks_of(t[3])
    if 'PAT_EVENT_CODE' in trees: masks_of(trees['PAT_EVENT_CODE'])
    used |= alpha.mask(((10, 10),))
    up = list(range(alpha.nsym))
    for lo, hi, sy in alpha.atoms:
        if not (used >> sy) & 1: continue
        for cp in range(lo, hi + 1):
            if 0xD800 <= cp <= 0xDFFF: continue
            u = chr(cp).upper()
            if len(u) != 1: raise TranslateError('upper() of U+%04X is not one character' % cp)
            su = alpha.sym_of(ord(u))
            if up[sy] != sy and up[sy] != su or (up[sy] == sy and su != sy and any(True for _ in [0]) and False):
                raise TranslateError('upper() is not a function on symbols at U+%04X' % cp)
            if su != sy: up[sy] = su
    # consistency: every code point of a used symbol must map into up[sy]
    for lo, hi, sy in alpha.atoms:
        if not (used >> sy) & 1: continue
        for cp in range(lo, hi + 1):
            if 0xD800 <= cp <= 0xDFFF: continue
            if alpha.sym_of(ord(chr(cp).upper())) != up[sy]:
                raise TranslateError('upper() is not a function on symbols at U+%04X' % cp)
    G.append('/-- str.upper as a map on symbols (for the symbols PAT_EVENT_CODE uses; identity elsewhere) -/')
    G.append('def upperSym : List Nat := [%s]' % ', '.join(map(str, up)))
    G.append('end AthlibVerif.Gen')
    side = {'nsym': alpha.nsym, 'atoms': alpha.atoms, 'patterns': {n: pats[n][0] for n in pats},
            'translated': sorted(trees), 'prefix': sorted(prefix), 'errors': errors,
            'rep': [alpha.rep[s] for s in range(alpha.nsym)]}
    files = {os.path.join(outdir, 'Alphabet.lean'): '\n'.join(A) + '\n',
             os.path.join(outdir, 'Patterns.lean'): '\n'.join(P) + '\n',
             os.path.join(outdir, 'GPatterns.lean'): '\n'.join(G) + '\n',
             os.path.join(outdir, 'patterns.json'): json.dumps(side, indent=0, sort_keys=True) + '\n'}
    return files, side, alpha, trees, mod

def gen_codes_data(repo, outdir, mod=None):
    """FIELD_SORT_ORDER and the code tuples of athlib.codes (live module), the group -> normaliser map of
    athlib.utils (`_gnorms = dict(name=_norm_x, ...)`, read with ast)"""
    import ast as _ast
    if mod is None:
        _, mod = load_patterns(repo)
    src = open(os.path.join(repo, 'athlib', 'utils.py')).read()
    gn = None
    for node in _ast.walk(_ast.parse(src)):
        if isinstance(node, _ast.Assign) and any(isinstance(t, _ast.Name) and t.id == '_gnorms' for t in node.targets):
            v = node.value
            if isinstance(v, _ast.Call) and getattr(v.func, 'id', None) == 'dict':
                gn = [(k.arg, k.value.id) for k in v.keywords if isinstance(k.value, _ast.Name)]
            elif isinstance(v, _ast.Dict):
                gn = [(k.value, x.id) for k, x in zip(v.keys, v.values) if isinstance(x, _ast.Name)]
    if gn is None: raise TranslateError('_gnorms not found in athlib/utils.py')
    kinds = {'_norm_g': '.g', '_norm_cm': '.cm', '_norm_m': '.m', '_norm_kg': '.kg'}
    for _, f in gn:
        if f not in kinds: raise TranslateError('unknown normaliser %s' % f)
    def strs(name):
        v = getattr(mod, name)
        return '[%s]' % ', '.join(json.dumps(str(x)) for x in v)
    L = ['-- GENERATED by tools/gen_regex.py from athlib/codes.py and athlib/utils.py; do not edit',
         'namespace AthlibVerif.Gen',
         'inductive NormKind | g | cm | m | kg deriving Repr, DecidableEq',
         'def gnorms : List (String × NormKind) := [%s]' % ', '.join('(%s, %s)' % (json.dumps(a), kinds[b]) for a, b in gn)]
    for n in ('FIELD_SORT_ORDER', 'FIELD_EVENTS', 'MULTI_EVENTS', 'CUSTOM_EVENTS', 'JUMPS', 'THROWS'):
        L.append('def %s : List String := %s' % (n, strs(n)))
    L.append('end AthlibVerif.Gen')
    return {os.path.join(outdir, 'CodesData.lean'): '\n'.join(L) + '\n'}

if __name__ == '__main__':
    repo = os.environ.get('ATHLIB_REPO', '/repo')
    out = sys.argv[1]
    files, side, alpha, trees, mod = generate(repo, out)
    files.update(gen_codes_data(repo, out, mod))
    for p, txt in files.items():
        old = open(p).read() if os.path.exists(p) else None
        if old != txt:
            open(p, 'w').write(txt)
            print('wrote', p)
    print('nsym', alpha.nsym, 'patterns', len(trees), 'errors', side['errors'])
