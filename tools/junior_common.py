"""shared by C11 / C05: enumeration of the junior scoring tables from the LIVE module objects, the 0.01 grids,
the documented input forms, an independent exact oracle (Python `fractions`) written from the property text,
and the multiprocessing worker that runs the real functions and the Lean driver side by side."""
import os, re, sys, math, subprocess, importlib
from fractions import Fraction
from decimal import Decimal
import vlib
from gen_tables import frac

EXE = os.path.join(vlib.LEAN, '.lake', 'build', 'bin', 'athdriver')
SH_HIGH_DOC = 'direction of the table (thresholds grow with the points)'

# ------------------------------------------------------------------ live objects
_live = None
def live():
    """the module objects of the working tree under test"""
    global _live
    if _live is None:
        vlib.use_repo()
        athlib = importlib.import_module('athlib')
        L = {'athlib': athlib}
        for n in ('tyrving_score', 'qkids_score', 'sportshall_score', 'bulgarian_score', 'hungarian_score', 'codes', 'utils'):
            L[n] = importlib.import_module('athlib.' + n)
        L['sh_db'] = L['sportshall_score'].load_data()
        _live = L
    return _live


def canon(call):
    try:
        r = call()
    except ValueError:
        return 'ValueError'
    except KeyError:
        return 'KeyError'
    except Exception as e:
        return 'OtherError:' + type(e).__name__
    if isinstance(r, bool) or not isinstance(r, int):
        return 'not-int:%r' % (r,)
    return 'p %d' % r


def hazard(k):
    return 100 * (k / 100.0) != k


# ------------------------------------------------------------------ text / number forms of a mark
def s2(k): return '%d.%02d' % divmod(k, 100)
def s1(k): return '%d.%d' % (k // 100, (k % 100) // 10)
def s0(k): return '%d' % (k // 100)
def mss(k): return '%d:%02d.%02d' % (k // 6000, (k % 6000) // 100, k % 100)

def forms(timed, k, text=True, number=True, colon=True):
    """[(form name, argument, hand-timed text?)]"""
    out = []
    if text: out.append(('str2', s2(k), False))
    if number: out.append(('float', k / 100.0, False))
    if timed and colon: out.append(('m:ss.xx', mss(k), False))
    if k % 10 == 0 and text: out.append(('str1', s1(k), True))
    if k % 100 == 0:
        if text: out.append(('str0', s0(k), True))
        if number: out.append(('int', k // 100, False))
    return out


# ------------------------------------------------------------------ units (one table x one age)
class Unit:
    """sys: ty|qk|sh|bg|hu; key: tuple identifying the table; lo..hi: grid range (hundredths); marks: thresholds"""
    def __init__(self, sys_, key, lo, hi, marks, timed):
        self.sys = sys_; self.key = key; self.lo = max(0, int(lo)); self.hi = int(hi); self.marks = sorted(set(int(m) for m in marks if m >= 0))
        self.timed = timed
    def __repr__(self):
        return 'Unit(%s,%r,%d..%d)' % (self.sys, self.key, self.lo, self.hi)


def _ty_base(yv):
    if isinstance(yv, dict): return {a: frac(v) for a, v in yv.items()}
    y, v = yv
    return {y + i: frac(x) for i, x in enumerate(v)}


def units_tyrving(L):
    out = []
    T = L['tyrving_score']._tyrvingTables
    for g, t in T.items():
        for ev, (kind, args) in t.items():
            if kind == 'race':
                dist, m, yv = args; m = frac(m); unit = Fraction(1, 100) if dist <= 500 else Fraction(1, 10)
                per = m / unit                      # points per second
                for a, B in sorted(_ty_base(yv).items()):
                    kz = (B + 1000 / per) * 100; k13 = max(0, (B - 300 / per) * 100)
                    out.append(Unit('ty', (g, ev, a), 0.8 * k13, 1.2 * kz + 1, [B * 100, kz, k13, B * 100 - 24, B * 100 - 20, B * 100 - 14, kz - 24, kz - 20, kz - 14], True))
            elif kind == 'jump':
                m, yv = args; m = frac(m)
                for a, B in sorted(_ty_base(yv).items()):
                    k0 = max(0, (B - 10 / m) * 100); k13 = (B + 3 / m) * 100
                    out.append(Unit('ty', (g, ev, a), 0.8 * k0, 1.2 * k13 + 1, [B * 100, k0, k13], False))
            elif kind in ('pv', 'throw', 'stav'):
                ms, yvs = args; ms = [frac(x) for x in ms]
                b0, b1, b2 = [_ty_base(x) for x in yvs]
                for a in sorted(b0):
                    if a not in b1 or a not in b2: continue
                    k0 = max(0, (b1[a] - b2[a] / ms[2] / 100) * 100); k13 = (b0[a] + 3 / ms[0]) * 100
                    out.append(Unit('ty', (g, ev, a), 0.8 * k0, 1.2 * k13 + 1, [b0[a] * 100, b1[a] * 100, k0, k13], False))
    return out


def units_qkids(L):
    out = []
    run = L['codes'].PAT_RUN
    for ct, t in L['qkids_score']._qkidsTables.items():
        for ev, row in t.items():
            inc = frac(row[0]) * 100; base = frac(row[1]) * 100
            timed = bool(run.match(ev))
            top = base - 90 * inc if timed else base + 90 * inc
            lo, hi = min(base, top), max(base, top)
            marks = [base + (-i if timed else i) * inc for i in range(-2, 93)]
            out.append(Unit('qk', (ct, ev), 0.8 * lo, 1.2 * hi + 1, marks, timed))
    return out


def sh_info(e):
    """(high?, [(points, threshold hundredths Fraction)], step in hundredths or None, incpoints)"""
    rows = [(p, Fraction(Decimal(v)) * 100) for p, v in e['perf2points']]
    high = rows[-1][1] >= rows[0][1]
    inc = (frac(e['increment']).limit_denominator(10 ** 6)) * 100 if 'increment' in e else None
    ip = 0 if e['incpoints'] == 'n/a' else int(e['incpoints'])
    return high, rows, inc, ip


def units_sportshall(L):
    out = []
    for code, e in L['sh_db'].items():
        high, rows, inc, ip = sh_info(e)
        th = [t for p, t in rows]
        lo, hi = min(th), max(th)
        marks = list(th)
        if inc:
            best = rows[-1][1]
            n = int((0.2 * float(hi) + 2) / float(inc)) + 2 if high else int((0.2 * float(lo) + 2) / float(inc)) + 2
            marks += [best + (i if high else -i) * inc for i in range(0, min(n, 400))]
        out.append(Unit('sh', (code,), 0.8 * lo, 1.2 * hi + 1, marks, not high))
    return out


_BGKEY = re.compile(r'^(U\d+)([MFX])(.+)$')
def units_bulgarian(L):
    out = []
    for key, t in L['bulgarian_score'].scores.items():
        m = _BGKEY.match(key)
        if not m: continue
        mn, mx = t['min'], t['max']
        ks = sorted(k for k in t if isinstance(k, int))
        marks = [mn, mx] + [k for i, k in enumerate(ks) if i == 0 or i == len(ks) - 1 or t[ks[i - 1]] != t[k] or t[ks[i + 1]] != t[k]]
        out.append(Unit('bg', m.groups(), 0.8 * min(mn, mx), 1.2 * max(mn, mx) + 1, marks, mx < mn))
    return out


def units_hungarian(L, records):
    """timed: from 0 to past the zero point; field: 0 .. 1.5 x record (or the mark worth 1400 points)"""
    out = []
    for (g, io, ev, a, b, c) in L['hungarian_score'].FACTORS:
        fa, fb, fc = frac(a), frac(b), frac(c)
        if fb < 0:
            z = -fb * 100
            out.append(Unit('hu', (g, io, ev), 0, z + 300, [z, z / 2], True))
        else:
            rec = records.get((g, ev))
            if rec is None:
                # the mark worth 1400 points: a (p+b)^2 + c = 1400
                rec = math.sqrt(float((1400 - fc) / fa)) - float(fb)
            out.append(Unit('hu', (g, io, ev), 0, 150 * rec, [0], False))
    return out


def pick(unit, lo, hi, off, stride=23, hazard_mod=1, plus_one=False):
    """the sampled marks of [lo, hi] within the unit's grid: thresholds +-2, a stride, the float-hazard marks"""
    ks = set()
    for m in unit.marks:
        ks.update(range(max(lo, m - 2), min(hi, m + 2) + 1))
    first = unit.lo + off
    if first < lo: first += ((lo - first + stride - 1) // stride) * stride
    ks.update(range(first, hi + 1, stride))
    ks.update(k for k in range(lo, hi + 1) if k % hazard_mod == 0 and hazard(k))
    if lo == unit.lo: ks.add(lo)
    if hi == unit.hi: ks.add(hi)
    if plus_one: ks.update([k + 1 for k in ks if k + 1 <= unit.hi])
    return sorted(ks)


def resolve(unit, spec):
    """spec = ('dense', lo, hi) | ('sample', lo, hi, off, stride, hazard_mod, plus_one)"""
    if spec[0] == 'dense': return range(spec[1], spec[2] + 1)
    return pick(unit, *spec[1:])


def split_tasks(units, quick, rng, sampled=('ty',), stride=23, hazard_mod=1, plus_one=False, extra=None, overlap=0):
    """one task per chunk of a unit's grid; the marks of a sampled chunk are picked inside the worker"""
    tasks = []
    for u in units:
        if quick and u.sys in sampled:
            st = stride(u) if callable(stride) else stride
            hm = hazard_mod(u) if callable(hazard_mod) else hazard_mod
            off = rng.randrange(st)
            size = 600000
            for lo in range(u.lo, u.hi + 1, size):
                tasks.append((u, ('sample', max(u.lo, lo - overlap), min(u.hi, lo + size - 1), off, st, hm, plus_one), extra))
        else:
            size = 60000
            for lo in range(u.lo, u.hi + 1, size):
                tasks.append((u, ('dense', max(u.lo, lo - overlap), min(u.hi, lo + size - 1)), extra))
    return tasks


# ------------------------------------------------------------------ the exact oracle (what the property demands)
def _fl(x):
    return math.floor(x)


def oracle(L, unit_sys, key, k, hand=False):
    """points demanded by C11 for mark k/100, computed with fractions from the live tables"""
    v = Fraction(k, 100)
    if unit_sys == 'ty':
        g, ev, age = key
        g = (g or '').upper().strip()[:1]
        if g not in ('M', 'F'): return 'ValueError'
        row = L['tyrving_score']._tyrvingTables.get(g, {}).get(ev)
        if not row: return 'ValueError'
        kind, args = row
        try:
            if kind == 'race':
                dist, m, yv = args
                B = _ty_base(yv).get(age)
                if B is None: return 'ValueError'
                if hand and L['codes'].PAT_RUN.match(ev):
                    v += Fraction(24, 100) if dist in (100, 110, 200) else Fraction(20, 100) if dist in (40, 60, 80, 300) else Fraction(14, 100) if dist == 400 else 0
                x = 1000 + (B - v) * frac(m) / (Fraction(1, 100) if dist <= 500 else Fraction(1, 10))
            elif kind == 'jump':
                m, yv = args
                B = _ty_base(yv).get(age)
                if B is None: return 'ValueError'
                x = 1000 + frac(m) * (v - B) * 100
            elif kind in ('pv', 'throw', 'stav'):
                ms, yvs = args; ms = [frac(z) for z in ms]
                lv = [_ty_base(z).get(age) for z in yvs]
                if any(z is None for z in lv): return 'ValueError'
                d0 = 100 * (v - lv[0]); d1 = 100 * (v - lv[1])
                x = 1000 + (d0 * ms[0] if d0 >= 0 else d0 * ms[1] if d1 > 0 else d1 * ms[2] + lv[2] - 1000)
            else:
                return 'ValueError'
        except (TypeError, ValueError, IndexError):
            return None
        return 'p %d' % max(0, _fl(x))
    if unit_sys == 'qk':
        ct, ev = key
        ct = ct.replace(' ', '').upper()
        Q = L['qkids_score']
        ct = Q._compTypeMap.get(ct, ct)
        row = Q._qkidsTables.get(ct, {}).get(ev)
        if not row: return 'ValueError'
        inc = frac(row[0]); base = frac(row[1])
        delta = (base - v) if L['codes'].PAT_RUN.match(ev) else (v - base)
        return 'p %d' % max(10, min(_fl(delta / inc + 10), 100))
    if unit_sys == 'sh':
        (code,) = key
        e = L['sh_db'].get(code.upper())
        if not e: return 'KeyError'
        high, rows, inc, ip = sh_info(e)
        kk = Fraction(k)
        bestp, bestt = rows[-1]
        if (high and kk > bestt) or (not high and kk < bestt):
            ex = (kk - bestt) if high else (bestt - kk)
            return 'p %d' % (bestp + (_fl(ex / inc) if inc else 0) * ip)
        reached = [p for p, t in rows if (t <= kk if high else kk <= t)]
        return 'p %d' % (max(reached) if reached else 0)
    if unit_sys == 'bg':
        ag, g, ev = key
        t = L['bulgarian_score'].scores.get(ag + g + ev)
        if t is None: return 'KeyError'
        mn, mx = t['min'], t['max']
        if mx < mn:
            if k > mn: return 'p 0'
            if k < mx: return 'p 150'
        else:
            if k < mn: return 'p 0'
            if k > mx: return 'p 150'
        return 'p %d' % t[k] if k in t else 'KeyError'
    raise ValueError(unit_sys)


def model_line(unit_sys, key, k, hand=False):
    if unit_sys == 'ty': return 'jr\tty\t%s\t%d\t%s\t%d\t%d' % (key[0], key[2], key[1], k, 1 if hand else 0)
    if unit_sys == 'qk': return 'jr\tqk\t%s\t%s\t%d' % (key[0], key[1], k)
    if unit_sys == 'sh': return 'jr\tsh\t%s\t%d' % (key[0], k)
    if unit_sys == 'bg': return 'jr\tbg\t%s\t%s\t%s\t%d' % (key[0], key[1], key[2], k)
    if unit_sys == 'hu': return 'jr\thu\t%s\t%s\t%s\t%d' % (key[0], key[1], key[2], k)
    raise ValueError(unit_sys)


def impl_call(L, unit_sys, key, arg):
    A = L['athlib']
    if unit_sys == 'ty': return lambda: A.tyrving_score(key[0], key[2], key[1], arg)
    if unit_sys == 'qk': return lambda: A.qkids_score(key[0], key[1], arg)
    if unit_sys == 'sh': return lambda: A.sportshall_score(key[0], arg)
    if unit_sys == 'bg': return lambda: A.bulgarian_score(key[0], key[1], key[2], arg)
    if unit_sys == 'hu': return lambda: A.hungarian_score(key[0], key[1], key[2], arg)
    raise ValueError(unit_sys)


def replay_py(unit_sys, key, arg):
    if unit_sys == 'ty': return 'result = athlib.tyrving_score(%r, %r, %r, %r)' % (key[0], key[2], key[1], arg)
    if unit_sys == 'qk': return 'result = athlib.qkids_score(%r, %r, %r)' % (key[0], key[1], arg)
    if unit_sys == 'sh': return 'result = athlib.sportshall_score(%r, %r)' % (key[0], arg)
    if unit_sys == 'bg': return 'result = athlib.bulgarian_score(%r, %r, %r, %r)' % (key[0], key[1], key[2], arg)
    if unit_sys == 'hu': return 'result = athlib.hungarian_score(%r, %r, %r, %r)' % (key[0], key[1], key[2], arg)


FN = {'ty': 'athlib.tyrving_score', 'qk': 'athlib.qkids_score', 'sh': 'athlib.sportshall_score', 'bg': 'athlib.bulgarian_score',
      'hu': 'athlib.hungarian_score'}


def fail_args(unit_sys, key, arg):
    if unit_sys == 'ty': return [key[0], key[2], key[1], arg]
    return list(key) + [arg]


def unit_forms(unit, k):
    """documented input forms per system"""
    if unit.sys == 'ty': return forms(unit.timed, k)
    if unit.sys == 'qk': return forms(unit.timed, k)
    if unit.sys == 'sh': return [(n, a, False) for n, a, h in forms(unit.timed, k)]      # timed events also as m:ss.xx text
    if unit.sys == 'bg':
        if unit.timed: return forms(True, k)
        return [(n, a, False) for n, a, h in forms(False, k)]                            # field marks as text too
    if unit.sys == 'hu': return [f for f in forms(False, k, text=False)]
    raise ValueError(unit.sys)


def run_driver(lines):
    if not lines: return []
    p = subprocess.run([EXE], input='\n'.join(lines) + '\n', capture_output=True, text=True, timeout=3000)
    if p.returncode != 0: raise vlib.InternalError('driver failed: %s' % p.stderr[:500])
    out = p.stdout.split('\n')
    if out and out[-1] == '': out.pop()
    if len(out) != len(lines): raise vlib.InternalError('driver returned %d lines for %d requests' % (len(out), len(lines)))
    return out


# ------------------------------------------------------------------ workers (fork pool; module state inherited)
MAXKEEP = 25

def work_c11(task):
    """task = (unit, ks, oracle_stride).  Real function in every input form vs the Lean model on every mark."""
    unit, spec, ostride = task
    L = live()
    ks = list(resolve(unit, spec))
    hands = unit.sys == 'ty' and unit.timed
    lines = [model_line(unit.sys, unit.key, k, False) for k in ks]
    hk = [k for k in ks if k % 10 == 0] if hands else []
    lines += [model_line(unit.sys, unit.key, k, True) for k in hk]
    rep = run_driver(lines)
    auto = dict(zip(ks, rep[:len(ks)])); manual = dict(zip(hk, rep[len(ks):]))
    res = {'lines': len(lines), 'calls': 0, 'mismatch': [], 'nmismatch': 0, 'oracle_bad': [], 'oracle_n': 0, 'nontrivial': 0, 'forms': {}}
    for i, k in enumerate(ks):
        for name, arg, hand in unit_forms(unit, k):
            mo = manual[k] if (hand and hands) else auto[k]
            im = canon(impl_call(L, unit.sys, unit.key, arg))
            res['calls'] += 1
            res['forms'][name] = res['forms'].get(name, 0) + 1
            if im != mo:
                res['nmismatch'] += 1
                if len(res['mismatch']) < MAXKEEP:
                    res['mismatch'].append((k, name, arg, hand and hands, im, mo))
        if auto[k] not in ('p 0', 'p 10', 'p 150', 'p 100'): res['nontrivial'] += 1
        if ostride and i % ostride == 0:
            res['oracle_n'] += 1
            o = oracle(L, unit.sys, unit.key, k, False)
            if o != auto[k] and len(res['oracle_bad']) < 5: res['oracle_bad'].append((k, False, o, auto[k]))
            if hands and k in manual:
                o = oracle(L, unit.sys, unit.key, k, True)
                if o != manual[k] and len(res['oracle_bad']) < 5: res['oracle_bad'].append((k, True, o, manual[k]))
    return unit, res


def pool_map(fn, tasks, nproc=16):
    import multiprocessing as mp
    live()                                   # import once, children inherit
    vlib.driver([])                          # make sure the driver is built
    tasks = sorted(tasks, key=lambda t: -(t[1][2] - t[1][1]))
    ctxm = mp.get_context('fork')
    with ctxm.Pool(nproc) as pool:
        return pool.map(fn, tasks, chunksize=1)


# ------------------------------------------------------------------ C05: direct sweep of the real functions
BOUNDS = {'ty': (0, None), 'qk': (10, 100), 'sh': (0, None), 'bg': (0, 150), 'hu': (0, None), 'ath': (0, None)}
FN['ath'] = 'athlib.athlon_score'


def c05_forms(unit):
    # 'strmin': the shortest text of the mark ('13.7', '14'), so that one sweep mixes one- and two-decimal texts
    # (not for Tyrving, where fewer decimals mean hand timing: compared separately below)
    if unit.sys == 'ty': return ['float', 'str2'] + (['m:ss.xx'] if unit.timed else [])
    if unit.sys == 'qk': return ['float', 'str2', 'strmin'] + (['m:ss.xx'] if unit.timed else [])
    if unit.sys == 'sh': return ['str2', 'float', 'strmin'] + (['m:ss.xx'] if unit.timed else [])
    if unit.sys == 'bg': return ['float', 'str2', 'm:ss.xx', 'strmin'] if unit.timed else ['float', 'str2', 'strmin']
    return ['float']


def c05_arg(form, k):
    if form == 'strmin':
        t = s2(k).rstrip('0')
        return t[:-1] if t.endswith('.') else t
    return k / 100.0 if form == 'float' else s2(k) if form == 'str2' else mss(k)


def c05_call(L, unit, arg):
    if unit.sys == 'ath':
        g, ev, age = unit.key
        return lambda: L['athlib'].athlon_score(g, ev, arg, age=age)
    return impl_call(L, unit.sys, unit.key, arg)


def c05_replay(unit, arg):
    if unit.sys == 'ath': return 'athlib.athlon_score(%r, %r, %r, age=%r)' % (unit.key[0], unit.key[1], arg, unit.key[2])
    return replay_py(unit.sys, unit.key, arg).replace('result = ', '')


def work_c05(task):
    """task = (unit, ks sorted ascending, _).  Monotonicity between consecutive examined marks, result type, bounds,
    Tyrving manual <= automatic — all on the implementation alone."""
    unit, spec, _ = task
    L = live()
    ks = list(resolve(unit, spec))
    lo, hi = BOUNDS[unit.sys]
    res = {'calls': 0, 'pairs': 0, 'adjacent': 0, 'viol': [], 'nviol': 0, 'errors': 0, 'strict': 0}
    def add(kind, detail):
        res['nviol'] += 1
        if len(res['viol']) < MAXKEEP: res['viol'].append((kind,) + detail)
    for form in c05_forms(unit):
        prev = None
        for k in ks:
            arg = c05_arg(form, k)
            r = canon(c05_call(L, unit, arg))
            res['calls'] += 1
            if not r.startswith('p '):
                if r.startswith('not-int'): add('type', (form, k, arg, r))
                else: res['errors'] += 1
                prev = None
                continue
            p = int(r[2:])
            if p < lo or (hi is not None and p > hi): add('bounds', (form, k, arg, p))
            if prev is not None:
                pk, pa, pp = prev
                res['pairs'] += 1
                if k == pk + 1: res['adjacent'] += 1
                # ks ascend: for timed events the earlier mark is the better one
                bad = (pp < p) if unit.timed else (p < pp)
                if bad: add('mono', (form, pk, pa, pp, k, arg, p))
                if pp != p: res['strict'] += 1
            prev = (k, arg, p)
    if unit.sys == 'ty' and unit.timed:
        for k in ks:
            if k % 10: continue
            a = canon(c05_call(L, unit, s2(k))); m = canon(c05_call(L, unit, s1(k)))
            res['calls'] += 2
            if a.startswith('p ') and m.startswith('p ') and int(m[2:]) > int(a[2:]):
                add('manual', (k, s1(k), int(m[2:]), s2(k), int(a[2:])))
    return unit, res
