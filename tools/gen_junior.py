"""Translator for the junior / table scoring systems: Tyrving, QuadKids, Sportshall, Bulgarian U16, Hungarian.
Reads the LIVE module objects of the working tree ($ATHLIB_REPO) right after import and emits
lean/AthlibVerif/Gen/Junior.lean + Gen/junior.json.  Every number is a scaled integer taken from the decimal
text (repr) of the Python value, never from its binary value."""
import os, re, sys, json, importlib
from fractions import Fraction
from decimal import Decimal
from gen_tables import frac, scaled, lstr, TranslateError


def _mod(name):
    import vlib
    vlib.use_repo()
    importlib.import_module('athlib')
    return importlib.import_module('athlib.' + name)


def _pow10_scale(values):
    s = 1
    for v in values:
        while (frac(v) * s).denominator != 1:
            s *= 10
            if s > 10 ** 12: raise TranslateError('no decimal scale for %r' % (v,))
    return s


# ------------------------------------------------------------------ Tyrving
def _basetab(yv):
    """[(age, hundredths)] from `[first_age, [v...]]` or `{age: v}`"""
    if isinstance(yv, dict):
        items = sorted(yv.items())
    else:
        y, v = yv
        if not isinstance(y, int) or isinstance(y, bool): raise TranslateError('first age %r' % (y,))
        items = [(y + i, x) for i, x in enumerate(v)]
    out = []
    for a, x in items:
        if not isinstance(a, int) or a < 0: raise TranslateError('age %r' % (a,))
        out.append((a, x))
    return out


def tyrving(mod):
    tabs = getattr(mod, '_tyrvingTables', None)
    if not isinstance(tabs, dict): raise TranslateError('athlib.tyrving_score._tyrvingTables not found')
    mults = []
    for g, t in tabs.items():
        for ev, (kind, args) in t.items():
            if kind == 'race': mults.append(args[1])
            elif kind == 'jump': mults.append(args[0])
            elif kind in ('pv', 'throw', 'stav'): mults += list(args[0])
    S = _pow10_scale(mults)
    rows = []
    for g, t in tabs.items():
        for ev, (kind, args) in t.items():
            if kind == 'race':
                dist, m, yv = args
                if not isinstance(dist, int): raise TranslateError('distance %r' % (dist,))
                rows.append(dict(gender=g, event=ev, kind='race', dist=dist, m=[scaled(m, S)],
                                 tabs=[[(a, scaled(x, 100)) for a, x in _basetab(yv)]]))
            elif kind == 'jump':
                m, yv = args
                rows.append(dict(gender=g, event=ev, kind='jump', dist=0, m=[scaled(m, S)],
                                 tabs=[[(a, scaled(x, 100)) for a, x in _basetab(yv)]]))
            elif kind in ('pv', 'throw', 'stav'):
                ms, yvs = args
                if len(ms) != 3 or len(yvs) != 3: raise TranslateError('stav shape %r' % (ev,))
                rows.append(dict(gender=g, event=ev, kind='stav', dist=0, m=[scaled(x, S) for x in ms],
                                 tabs=[[(a, scaled(x, 100)) for a, x in _basetab(yvs[0])],
                                       [(a, scaled(x, 100)) for a, x in _basetab(yvs[1])],
                                       [(a, scaled(x, 1)) for a, x in _basetab(yvs[2])]]))
            else:
                rows.append(dict(gender=g, event=ev, kind='bad', dist=0, m=[], tabs=[]))
    return S, rows


def _tab_lean(t):
    return '[' + ', '.join('(%d, %d)' % p for p in t) + ']'


def _ty_lean(r):
    k = r['kind']
    if k == 'race': c = '.race %d %d %s' % (r['dist'], r['m'][0], _tab_lean(r['tabs'][0]))
    elif k == 'jump': c = '.jump %d %s' % (r['m'][0], _tab_lean(r['tabs'][0]))
    elif k == 'stav': c = '.stav %d %d %d %s %s %s' % (r['m'][0], r['m'][1], r['m'][2], _tab_lean(r['tabs'][0]),
                                                      _tab_lean(r['tabs'][1]), _tab_lean(r['tabs'][2]))
    else: c = '.bad'
    return '⟨%s, %s, %s⟩' % (lstr(r['gender']), lstr(r['event']), c)


# ------------------------------------------------------------------ QuadKids
def qkids(mod):
    tabs = getattr(mod, '_qkidsTables', None); cmap = getattr(mod, '_compTypeMap', None)
    if not isinstance(tabs, dict) or not isinstance(cmap, dict): raise TranslateError('qkids tables not found')
    rows = []
    for ct, t in tabs.items():
        for ev, row in t.items():
            if len(row) < 2: raise TranslateError('qkids row %r' % (row,))
            inc = frac(row[0]) * 100           # increment in hundredths, as a fraction
            rows.append(dict(comp=ct, event=ev, incN=inc.numerator, incD=inc.denominator, base=scaled(row[1], 100),
                             top=scaled(row[2], 100) if len(row) > 2 else 0))
    return rows, sorted(cmap.items())


# ------------------------------------------------------------------ Sportshall
def sportshall(mod):
    db = mod.load_data()
    evs = []
    for code, e in db.items():
        p2p = e['perf2points']
        rows = []
        for pts, perf in p2p:
            if not isinstance(pts, int): raise TranslateError('points %r' % (pts,))
            rows.append((pts, scaled(perf, 100)))
        if not rows: raise TranslateError('empty sportshall table %s' % code)
        high = rows[-1][1] >= rows[0][1]          # direction of the table: thresholds grow with the points
        if 'increment' in e:
            inc = (frac(e['increment']).limit_denominator(10 ** 6)) * 100      # hundredths per step
            if inc <= 0: raise TranslateError('increment %r' % (e['increment'],))
            incN, incD = inc.numerator, inc.denominator
        else:
            incN, incD = 0, 1
        ip = e['incpoints']
        incP = 0 if ip == 'n/a' else int(ip)
        evs.append(dict(code=code, high=high, incN=incN, incD=incD, incPts=incP, rows=rows))
    return evs


# ------------------------------------------------------------------ Bulgarian
def bulgarian(mod):
    sc = getattr(mod, 'scores', None)
    if not isinstance(sc, dict): raise TranslateError('athlib.bulgarian_score.scores not found')
    tabs = []
    for key, t in sc.items():
        mn, mx = t['min'], t['max']
        ks = []
        for k, v in t.items():
            if k in ('min', 'max'): continue
            if not isinstance(k, int) or isinstance(k, bool) or k < 0 or not isinstance(v, int) or isinstance(v, bool) or v < 0:
                raise TranslateError('bulgarian entry %r: %r in %s' % (k, v, key))
            ks.append(k)
        ks.sort()
        runs = []
        for k in ks:
            if runs and runs[-1][1] == k - 1 and runs[-1][2] == t[k]: runs[-1][1] = k
            else: runs.append([k, k, t[k]])
        mk = re.match(r'^(U\d+)([MFX])(.+)$', key)
        tabs.append(dict(key=key, event=mk.group(3) if mk else '', timed=mx < mn, min=mn, max=mx, runs=[tuple(r) for r in runs]))
    return tabs


# ------------------------------------------------------------------ Hungarian
def hungarian(mod):
    F = getattr(mod, 'FACTORS', None)
    if not isinstance(F, list): raise TranslateError('athlib.hungarian_score.FACTORS not found')
    rows = []
    for (g, io, ev, a, b, c) in F:
        fa, fb, fc = frac(a), frac(b), frac(c)
        if fa < 0: raise TranslateError('negative a in %r' % ((g, io, ev),))
        rows.append(dict(gender=g, inout=io, event=ev, aN=fa.numerator, aD=fa.denominator, bN=fb.numerator, bD=fb.denominator,
                         cN=fc.numerator, cD=fc.denominator))
    return rows


def _int(n):
    return str(n) if n >= 0 else '(%d)' % n


def gen_junior(repo, outdir):
    S, ty = tyrving(_mod('tyrving_score'))
    qk, cmap = qkids(_mod('qkids_score'))
    sh = sportshall(_mod('sportshall_score'))
    bg = bulgarian(_mod('bulgarian_score'))
    hu = hungarian(_mod('hungarian_score'))
    L = ['-- GENERATED by tools/gen_junior.py from athlib/{tyrving,qkids,sportshall,bulgarian,hungarian}_score.py; do not edit',
         'import AthlibVerif.Model.Junior', 'set_option maxRecDepth 100000', 'namespace AthlibVerif.Gen', 'open AthlibVerif.Junior',
         '/-- Tyrving multipliers are `mN / tyrvingScale` -/', 'def tyrvingScale : Nat := %d' % S,
         'def tyrvingTables : List TyRow := [', ',\n'.join('  ' + _ty_lean(r) for r in ty), ']',
         '/-- QuadKids rows: increment `incN/incD` hundredths per point, 10-point mark, 100-point mark (hundredths) -/',
         'def qkidsTables : List QkRow := [',
         ',\n'.join('  ⟨%s, %s, %d, %d, %d, %d⟩' % (lstr(r['comp']), lstr(r['event']), r['incN'], r['incD'], r['base'], r['top']) for r in qk), ']',
         'def qkidsTypeMap : List (String × String) := [%s]' % ', '.join('(%s, %s)' % (lstr(a), lstr(b)) for a, b in cmap),
         '/-- Sportshall: result of `load_data()`; rows are (points, threshold in hundredths) in table order -/',
         'def sportshallTables : List ShEvent := [',
         ',\n'.join('  ⟨%s, %s, %d, %d, %d, [%s]⟩' % (lstr(e['code']), 'true' if e['high'] else 'false', e['incN'], e['incD'], e['incPts'],
                                                     ', '.join('(%d, %d)' % r for r in e['rows'])) for e in sh), ']',
         '/-- Bulgarian U16: per-centi tables, run-length encoded (lo, hi, points), ascending -/',
         'def bulgarianTables : List BgTable := [',
         ',\n'.join('  ⟨%s, %s, %s, %d, %d, [%s]⟩' % (lstr(t['key']), lstr(t['event']), 'true' if t['timed'] else 'false', t['min'], t['max'],
                                                 ', '.join('(%d, %d, %d)' % r for r in t['runs'])) for t in bg), ']',
         '/-- Hungarian factors: a = aN/aD, b = bN/bD, c = cN/cD -/',
         'def hungarianFactors : List HuRow := [',
         ',\n'.join('  ⟨%s, %s, %s, %d, %d, %s, %d, %s, %d⟩' % (lstr(r['gender']), lstr(r['inout']), lstr(r['event']), r['aN'], r['aD'],
                                                               _int(r['bN']), r['bD'], _int(r['cN']), r['cD']) for r in hu), ']',
         'end AthlibVerif.Gen']
    side = {'tyrvingScale': S, 'tyrving': ty, 'qkids': qk, 'qkidsTypeMap': cmap, 'sportshall': sh, 'bulgarian': bg, 'hungarian': hu}
    return {os.path.join(outdir, 'Junior.lean'): '\n'.join(L) + '\n',
            os.path.join(outdir, 'junior.json'): json.dumps(side, sort_keys=True) + '\n'}, side


if __name__ == '__main__':
    sys.path.insert(0, os.path.dirname(os.path.abspath(__file__)))
    import vlib
    files, side = gen_junior(vlib.REPO, vlib.GEN)
    for p, txt in files.items():
        if vlib.write_if_changed(p, txt): print('wrote', p)
