"""C15 — WMA interpolation between distances is order-preserving.
Lean: Props/C15.lean (interp_between, Moebius betweenness / monotonicity of the speed-interpolated best,
factor / best between the bracket rows, bracket rows are nearest tabulated events, global monotonicity
of the best, both ends of the table — for every table passing the decidable side-conditions) +
Oblig/C15/* (runOK, chainOK, noSeam kernel-decided on the regenerated tables);
tie: tables regenerated (T) + correspondence of wma_age_factor / wma_world_best on distance codes with
the exact rational model (C), floats within 1e-9 relative; plus the property's clauses checked directly
on the implementation: no exception, factor and best between those of the nearest shorter / longer
tabulated events (ties: between the extremes over all nearest candidates), best non-decreasing."""
import os, math, multiprocessing
from fractions import Fraction
import vlib
import wma_common as W
import wma_harness as H

THEOREMS = ['interp_between', 'mobius_between', 'mobius_mono', 'C15_factor_between', 'C15_best_between',
            'C15_best_mono_bracket', 'C15_best_mono', 'C15_bracket_nearest', 'C15_bracket',
            'C15_ends_factor_same_row', 'C15_ends_best_same_row', 'C15_ends_beyond', 'C15_ends_factor_short',
            'C15_ends_best_short', 'C15_ends_short_bracket', 'C15_observable', 'C15_best_mono_tables',
            'C15_bracket_nearest_tables', 'pinned_weight_exceeds_one', 'pinned_seam_factor_outside', 'pinned_mens_seam']
OBLIGS = ['dist_ok_2015_m', 'dist_ok_2015_f', 'run_names_2015', 'dist_ok_2023_m', 'dist_ok_2023_f', 'run_names_2023',
          'no_seam_2015_m', 'no_seam_2015_f', 'no_seam_2023_m', 'no_seam_2023_f']
FIXED_AGES2 = [16, 27, 60, 81, 150, 200, 211, 220, 260]        # half-years: 8, 13.5, 30, 40.5, 75, 100, 105.5, 110, 130
GSP = {'m': ['m', 'M', 'male', 'Male'], 'f': ['f', 'F', 'female', 'FEMALE']}
DMIN, DMAX = 20, 400000
_G = {}


def py_age(a2):
    return a2 // 2 if a2 % 2 == 0 else a2 / 2.0


def tab_info(T, athlib, ages2):
    """per (year, gender): run rows as (distance in micro-km, name), and the IMPLEMENTATION's own factor
    (per age) and open best of every run row — what the property relates the interpolated values to"""
    info = {}
    for y in W.YEARS:
        t = T[y]
        for g in 'mf':
            s = t.run_start(g)
            rows = t.rows[g][s:]
            # a tabulated event's distance is the one its code names (the km column must agree: obligation below)
            def mm(r):
                n = W.nominal_metres(r.event)
                return int(r.km * 10 ** 6) if n is None else int(n * 1000)
            kms = sorted({mm(r) for r in rows})
            by_km = {}
            FR = {}; BR = {}
            for r in rows:
                by_km.setdefault(mm(r), []).append(r.event)
                FR[r.event] = [W.canon_py(lambda: athlib.wma_age_factor(g, py_age(a2), r.event, year=int(y))) for a2 in ages2]
                BR[r.event] = W.canon_py(lambda: athlib.wma_world_best(g, r.event, year=int(y)))
            names = {r.event for r in t.rows[g]}
            info[(y, g)] = (kms, by_km, FR, BR, names)
    return info


def codes_of_job(job):
    """(code, nominal exact metres) in increasing distance"""
    kind, y, g, lo, hi, step, extra = job
    if kind == 'bare':
        ds = sorted(set(range(lo, hi, step)) | {d for d in extra if d < hi})          # extras are absolute (hazards below a seeded offset count too)
        return [(str(d), d) for d in ds]
    out = []
    cs = sorted(set(range(lo, hi, step)) | {c for c in extra if c < hi})
    for c in cs:                                    # c = hundredths of a km / mile
        if c % 100 == 0: txt = '%d' % (c // 100)
        elif c % 10 == 0: txt = '%d.%d' % (c // 100, c // 10 % 10)
        else: txt = '%d.%02d' % (c // 100, c % 100)
        forms = [txt] if c % 100 else [txt, txt + '.0', txt + '.00']
        for f in forms:
            out.append((f + kind, (1000 if kind == 'K' else 1609) * c // 100))
    return out


def _work(job):
    kind, y, g, lo, hi, step, extra = job
    athlib = _G['athlib']; T = _G['T']; codes = _G['codes']; ages2 = _G['ages2']
    kms, by_km, FR, BR, names = _G['info'][(y, g)]
    t = T[y]
    yi = int(y)
    items = codes_of_job(job)
    st = {'codes': 0, 'factor_calls': 0, 'best_calls': 0, 'hinted': 0, 'tabulated_codes': 0, 'beyond_ends': 0}
    fails = []; wrong = []
    lines = []; impl = []; meta = []
    agetxt = ','.join('%d/2' % a for a in ages2)
    pyages = [py_age(a) for a in ages2]
    gi = lo
    for code, nominal in items:
        gsp = GSP[g][gi % 4]; gi += 1
        up = W.ascii_upper(code)
        hint = None
        if kind != 'bare':
            dpy = athlib.get_distance(up)
            if dpy != nominal:
                if not (isinstance(dpy, int) and 0 <= nominal - dpy <= 1):
                    # the distance the library reads from the code is not the distance the code names: judged on the
                    # implementation (the estimator is part of this property), then skipped for the model comparison
                    fails.append(('athlib.get_distance', [up], 'the distance the code names: %d m (or one metre less)' % nominal, repr(dpy), 'distance-of-code',
                                  'result = athlib.get_distance(%r)' % up))
                    if DMIN <= nominal <= DMAX:
                        fv0 = W.canon_py(lambda: athlib.wma_age_factor(gsp, pyages[0], code, year=yi))
                        if fv0[0] != 'v':
                            fails.append(('athlib.wma_age_factor', [yi, gsp, pyages[0], code], 'a factor (no exception)', H.show(fv0), 'raises',
                                          'result = athlib.wma_age_factor(%r, %r, %r, year=%d)' % (gsp, pyages[0], code, yi)))
                    continue
                hint = dpy; st['hinted'] += 1
        dist = nominal if hint is None else hint
        if dist < DMIN or dist > DMAX:
            continue
        fv = [W.canon_py(lambda: athlib.wma_age_factor(gsp, a, code, year=yi)) for a in pyages]
        bv = W.canon_py(lambda: athlib.wma_world_best(gsp, code, year=yi))
        h = '-' if hint is None else str(hint)
        lines.append('wma\tfacs\t%s\t%s\t%s\t%s\t%s' % (y, gsp, code, h, agetxt))
        lines.append('wma\tbest\t%s\t%s\t%s\t%s' % (y, gsp, code, h))
        impl.append((fv, bv)); meta.append((code, gsp, dist, hint))
        st['codes'] += 1; st['factor_calls'] += len(pyages); st['best_calls'] += 1
    out = vlib.driver(lines)
    prev_best = None
    for j, ((fv, bv), (code, gsp, dist, hint)) in enumerate(zip(impl, meta)):
        mf = out[2 * j].split(' '); mb = out[2 * j + 1]
        # ---- correspondence with the model
        for ai, (im, mo) in enumerate(zip(fv, mf)):
            if not H.agree(im, mo):
                rq = ('factor', y, gsp, ages2[ai], code, None, '', hint)
                _disagree(rq, im, mo, T, codes, fails, wrong)
        if not H.agree(bv, mb):
            rq = ('best', y, gsp, None, code, None, '', hint)
            _disagree(rq, bv, mb, T, codes, fails, wrong)
        # ---- the Lean model against the independent Python oracle (exact equality), sampled
        if j % 53 == 0:
            ai = j % len(ages2)
            for rq, mo in ((('factor', y, gsp, ages2[ai], code, None, '', hint), mf[ai]), (('best', y, gsp, None, code, None, '', hint), mb)):
                want = H.oracle(T, codes, rq); mp = W.parse_reply(mo)
                st['oracle_crosscheck'] = st.get('oracle_crosscheck', 0) + 1
                if not (want == mp or (want[0] == 'e' and mp[0] == 'e' and want[1] == mp[1])):
                    wrong.append('%r: oracle %s, Lean model %s' % (rq, want, mo))
        # ---- the property on the implementation itself
        if W.ascii_upper(code) in names:
            st['tabulated_codes'] += 1
            continue
        dm = dist * 1000
        import bisect
        k = bisect.bisect_left(kms, dm)              # kms[k-1] < dm <= kms[k]
        shorter = by_km[kms[k - 1]] if k > 0 else []
        longer = by_km[kms[k]] if k < len(kms) else []
        cands = shorter + longer
        ends = not shorter or not longer
        if ends: st['beyond_ends'] += 1
        for ai, im in enumerate(fv):
            args = [yi, gsp, pyages[ai], code]
            rp = 'result = athlib.wma_age_factor(%r, %r, %r, year=%d)' % (gsp, pyages[ai], code, yi)
            if im[0] != 'v' or not math.isfinite(im[1]):
                fails.append(('athlib.wma_age_factor', args, 'a factor (no exception)', H.show(im), 'raises' if not ends else 'end-of-table', rp)); continue
            cv = [FR[n][ai] for n in cands]
            if any(c[0] != 'v' for c in cv):
                continue
            lo_, hi_ = min(c[1] for c in cv), max(c[1] for c in cv)
            if not (lo_ * (1 - H.TIGHT) <= im[1] <= hi_ * (1 + H.TIGHT)):
                what = ('the factor of the end row %s' % cands[0]) if ends else \
                    'between the factors of %s and %s: [%r, %r]' % ('/'.join(shorter), '/'.join(longer), lo_, hi_)
                fails.append(('athlib.wma_age_factor', args, what, repr(im[1]), 'end-of-table' if ends else 'factor-between', rp))
        args = [yi, gsp, code]
        rp = 'result = athlib.wma_world_best(%r, %r, year=%d)' % (gsp, code, yi)
        if bv[0] != 'v' or not (math.isfinite(bv[1]) and bv[1] > 0):
            fails.append(('athlib.wma_world_best', args, 'an open best (no exception)', H.show(bv), 'raises' if not ends else 'end-of-table', rp))
            continue
        cb = [BR[n] for n in cands]
        if all(c[0] == 'v' for c in cb):
            if not ends:
                lo_, hi_ = min(c[1] for c in cb), max(c[1] for c in cb)
                if not (lo_ * (1 - H.TIGHT) <= bv[1] <= hi_ * (1 + H.TIGHT)):
                    fails.append(('athlib.wma_world_best', args, 'between the bests of %s and %s: [%r, %r]' % ('/'.join(shorter), '/'.join(longer), lo_, hi_),
                                  repr(bv[1]), 'best-between', rp))
            elif not longer and bv[1] < max(c[1] for c in cb) * (1 - H.TIGHT):
                fails.append(('athlib.wma_world_best', args, 'at least the best of the last row %s' % cands[-1], repr(bv[1]), 'end-of-table', rp))
            elif not shorter and abs(bv[1] - cb[0][1]) > H.TIGHT * cb[0][1]:
                fails.append(('athlib.wma_world_best', args, 'the best of the first row %s, %r' % (cands[0], cb[0][1]), repr(bv[1]), 'end-of-table', rp))
        if prev_best is not None and prev_best[0] <= dist and bv[1] < prev_best[1] * (1 - H.TIGHT):
            fails.append(('athlib.wma_world_best', args, 'not below the best for the shorter %s, %r' % (prev_best[2], prev_best[1]), repr(bv[1]), 'best-monotone', rp))
        if prev_best is None or dist >= prev_best[0]:
            prev_best = (dist, bv[1], code)
    # cap what is sent back
    by = {}
    keep = []
    for f in fails:
        by[(f[0], f[4])] = by.get((f[0], f[4]), 0) + 1
        if by[(f[0], f[4])] <= 6:
            keep.append(f)
    return st, keep, by, wrong[:5], len(wrong)


def _disagree(rq, im, mo, T, codes, fails, wrong):
    want = H.oracle(T, codes, rq)
    mp = W.parse_reply(mo)
    if want == mp or (want[0] == 'e' and mp[0] == 'e' and want[1] == mp[1]):
        exp = ('%s (= %.12g)' % (mo, float(mp[1]))) if mp[0] == 'v' else mo
        note = 'raises' if im[0] != 'v' else 'value'
        fails.append((H.fn_name(rq), H.human_args(rq), exp, H.show(im), 'model:' + note, H.replay_py(rq)))
    else:
        wrong.append('%r: oracle %s, Lean model %s, implementation %s' % (rq, want, mo, H.show(im)))


def jobs_for(ctx, T):
    quick = ctx.quick()
    jobs = []
    for y in W.YEARS:
        t = T[y]
        for g in 'mf':
            # hazard distances: +-3 m around every tabulated distance (table km and get_distance of the name)
            hz = set()
            for r in t.rows[g][t.run_start(g):]:
                for c in (int(r.km * 1000), W.get_distance_exact(r.event) or 0):
                    hz |= set(range(c - 3, c + 5))
            hz |= {DMIN, DMIN + 1, 49, 50, 51, DMAX - 1, DMAX, 200001, 200002, 250000}
            hz = {d for d in hz if DMIN <= d <= DMAX}
            if quick:
                off = ctx.rng.randrange(50)
                jobs.append(('bare', y, g, DMIN + off, DMAX + 1, 50, sorted(hz)))
            else:
                for lo in range(DMIN, DMAX + 1, 10000):
                    # one metre of overlap so that monotonicity is checked across shard borders too
                    jobs.append(('bare', y, g, max(DMIN, lo - 1), min(DMAX + 1, lo + 10000), 1, []))
            # road spellings N[.dd]K (0.02 .. 400.00) and N[.dd]M (0.02 .. 248.00), in hundredths
            hzk = {int(r.km * 100) + d for r in t.rows[g][t.run_start(g):] for d in (-1, 0, 1)} | {2, 3, 4, 5, 40000, 20001}
            hzm = {int(r.km * 100000 / 1609) + d for r in t.rows[g][t.run_start(g):] for d in (-1, 0, 1)} | {2, 3, 4, 24800, 12431}
            if quick:
                jobs.append(('K', y, g, 2 + ctx.rng.randrange(37), 40001, 37, sorted(c for c in hzk if 2 <= c <= 40000)))
                jobs.append(('M', y, g, 2 + ctx.rng.randrange(41), 24801, 41, sorted(c for c in hzm if 2 <= c <= 24800)))
            else:
                for lo in range(2, 40001, 4000):
                    jobs.append(('K', y, g, max(2, lo - 1), min(40001, lo + 4000), 1, []))
                for lo in range(2, 24801, 4000):
                    jobs.append(('M', y, g, max(2, lo - 1), min(24801, lo + 4000), 1, []))
    return jobs


def run(ctx):
    ctx.rule = ('both years x {m,f} (gender spelling rotating over 4 spellings) x 12 ages (8, 13.5, 30, 40.5, 75, 100, 105.5, 110, 130 '
                'and three seeded half-integer ages) x distance codes: every whole metre 20 .. 400000 as a bare number, every '
                'N[.dd]K in 0.02K .. 400K and N[.dd]M in 0.02M .. 248M (plus the N.0 / N.00 forms); quick = stride 50 m (seeded '
                'offset) + every metre within -3..+4 of each tabulated distance and of get_distance of each row name, stride 37 / 41 '
                'over the K / M spellings + those next to every tabulated distance; thorough = everything. '
                'distinct = distinct (year, gender, code) triples; non-trivial = not itself a row name')
    ctx.trusted += ['tools/gen_wma.py (decimal TEXT of every JSON number -> scaled integers; validated by dumping every entry back through the driver)',
                    'tools/gen_regex.py (PAT_TRACK / PAT_ROAD as used by event_code_to_kind)',
                    'binary floating point is NOT modelled: the model is exact rational arithmetic']
    ctx.assumptions += ['floats returned by the implementation are compared with the exact rational of the model within 1e-9 relative; implementation-vs-implementation clauses (betweenness, monotone) within 1e-12 relative',
                        'get_distance computes int(1000*float(q)) in binary floating point: where that is one metre below the exact floor (e.g. 8.04K -> 8039) the harness passes the observed metres to the model as a hint and checks 0 <= exact - observed <= 1',
                        '"nearest shorter and longer tabulated events" is read with ties (5000 / 5K are both at 5 km): between the extremes over all nearest candidates, using the implementation\'s own factors / bests of those rows',
                        'beyond 200 km the open best is extrapolated at the last row\'s speed and below 50 m it is the 50 m best: accepted as "use the nearest end of the table"',
                        'the model is the REPAIRED behaviour of fixes/wma-*.diff; on a tree without them the differences are reported as violations']
    # the tables themselves against the specification-side copy (shared with C14): a mistyped open best, factor or distance
    # cell moves model and implementation together, so it is judged against the pinned published tables, before the translation
    try:
        import importlib
        importlib.import_module('checks.c14').pinned_tables(ctx)
    except Exception as e:
        ctx.oblig('spec:WMA tables of the tree = the pinned copy of the published tables', 'correspondence', False, repr(e))
    side = H.gen_step(ctx)
    if side is None:
        return
    ok, log, failed = ctx.build(H.OBLIG_C15 + ['AthlibVerif.Props.C15'])
    if ok:
        ctx.audit(['AthlibVerif.Props.C15'],
                  ['AthlibVerif.Props.C15.' + n for n in THEOREMS] + ['AthlibVerif.Oblig.C15.' + n for n in OBLIGS])
        if not ctx.quick():
            ctx.leanchecker(['AthlibVerif.Props.C15'])
    vlib.use_repo()
    import athlib
    from athlib import codes
    try:
        T = W.load_tables(vlib.REPO)
    except Exception as e:
        ctx.oblig('oracle:reading the WMA JSON files', 'translator', False, repr(e))
        return
    H.check_dump(ctx, T, side)
    bad = []
    for y in W.YEARS:
        for g in 'mf':
            for r in T[y].rows[g][T[y].run_start(g):]:
                nm = W.nominal_metres(r.event)
                if nm is not None and Fraction(str(r.km)) * 1000 != nm:
                    bad.append('%s %s %s: km column %s, the code names %s m' % (y, g, r.event, r.km, float(nm)))
    ctx.oblig('table:km column of every running row equals the distance its event code names', 'translator', not bad, '; '.join(bad[:4]))
    ages2 = sorted(set(FIXED_AGES2) | set(ctx.rng.sample(range(11, 231, 2), 3)))
    info = tab_info(T, athlib, ages2)
    jobs = jobs_for(ctx, T)
    ctx.rng.shuffle(jobs)
    vlib.driver([])
    _G.update({'athlib': athlib, 'T': T, 'codes': codes, 'ages2': ages2, 'info': info})
    nproc = min(16, os.cpu_count() or 1)
    pool = multiprocessing.get_context('fork').Pool(nproc)
    tot = {}; classes = {}; nwrong = 0; nfail = 0
    try:
        for st, keep, by, wrong, nw in pool.imap_unordered(_work, jobs):
            for k, v in st.items():
                tot[k] = tot.get(k, 0) + v
            for k, v in by.items():
                classes['%s [%s]' % k] = classes.get('%s [%s]' % k, 0) + v
            for fn, args, exp, got, note, rp in keep:
                if nfail < 400:
                    ctx.fail(fn, args, exp, got, note=note, replay_py=rp)
                nfail += 1
            for w in wrong:
                if nwrong < 5:
                    ctx.oblig('correspondence:Lean Wma model vs Python exact oracle', 'correspondence', False, w)
                nwrong += 1
            nwrong += nw - len(wrong)
    finally:
        pool.close(); pool.join()
    # ---- both table years asked for the same codes in ONE process, in alternating order (answers must not depend on
    # which edition was asked first); judged against the exact Python oracle
    ncross = 0; nbadc = 0
    for g in 'mf':
        ds = set()
        for y in W.YEARS:
            t = T[y]
            for r in t.rows[g][t.run_start(g):]:
                c = int(r.km * 1000)
                ds |= {c - 2, c - 1, c + 1, c + 2}
        ds |= set(range(60, 60000, 997))
        names = {n for y in W.YEARS for n in info[(y, g)][4]}
        for i, d in enumerate(sorted(x for x in ds if DMIN <= x <= DMAX and str(x) not in names)):
            code = str(d)
            order = list(W.YEARS) if i % 2 == 0 else list(reversed(W.YEARS))
            for y in order:
                for rq, call in ((('best', y, g, None, code, None, '', None), lambda: athlib.wma_world_best(g, code, year=int(y))),
                                 (('factor', y, g, 81, code, None, '', None), lambda: athlib.wma_age_factor(g, 40.5, code, year=int(y)))):
                    im = W.canon_py(call); want = H.oracle(T, codes, rq); ncross += 1
                    okv = (im[0] == 'v' and want[0] == 'v' and abs(im[1] - float(want[1])) <= 1e-9 * abs(float(want[1]))) or (im[0] != 'v' and want[0] != 'v')
                    if not okv:
                        nbadc += 1
                        if nbadc <= 6:
                            ctx.fail(H.fn_name(rq), H.human_args(rq) + ['asked in the order %s in one process' % '/'.join(order)],
                                     ('%.12g' % float(want[1])) if want[0] == 'v' else want[1], H.show(im),
                                     note='history: both table years asked for the same code in one process',
                                     replay_py='out = []\nfor y in (%s):\n    out.append((y, athlib.wma_world_best(%r, %r, year=y), athlib.wma_age_factor(%r, 40.5, %r, year=y)))\nresult = out' % (', '.join(order), g, code, g, code))
    ctx.count(ncross, 'cross_year_calls')
    # ---- every tabulated event looked up just before a non-tabulated distance on the same grader (one distance between
    # every two neighbouring rows, one before the first and one after the last): what the row look-up of the call
    # before left behind must not change the bracket of this one; judged against the exact Python oracle
    nstir = 0; nbads = 0
    for g in 'mf':
        for y in W.YEARS:
            t = T[y]
            names = sorted(info[(y, g)][4])
            ms = sorted({int(r.km * 1000) for r in t.rows[g][t.run_start(g):]})
            mids = [ms[0] // 2] + [(a + b) // 2 for a, b in zip(ms, ms[1:]) if b - a > 1] + [ms[-1] + 1000]
            allnames = {n for yy in W.YEARS for n in info[(yy, g)][4]}
            mids = [d for d in mids if DMIN <= d <= DMAX and str(d) not in allnames]
            for name in names:
                for d in mids:
                    code = str(d)
                    try: athlib.wma_age_factor(g, 40.5, name, year=int(y))
                    except Exception: pass
                    for rq, call in ((('factor', y, g, 81, code, None, '', None), lambda: athlib.wma_age_factor(g, 40.5, code, year=int(y))),
                                     (('best', y, g, None, code, None, '', None), lambda: athlib.wma_world_best(g, code, year=int(y)))):
                        im = W.canon_py(call); want = H.oracle(T, codes, rq); nstir += 1
                        okv = (im[0] == 'v' and want[0] == 'v' and abs(im[1] - float(want[1])) <= 1e-9 * abs(float(want[1]))) or (im[0] != 'v' and want[0] != 'v')
                        if not okv:
                            nbads += 1
                            if nbads <= 6:
                                ctx.fail(H.fn_name(rq), H.human_args(rq) + ['asked just after the tabulated event %s' % name],
                                         ('%.12g' % float(want[1])) if want[0] == 'v' else want[1], H.show(im),
                                         note='history: a tabulated event looked up on the same grader just before',
                                         replay_py='athlib.wma_age_factor(%r, 40.5, %r, year=%s)\nresult = (athlib.wma_age_factor(%r, 40.5, %r, year=%s), athlib.wma_world_best(%r, %r, year=%s))' % (g, name, y, g, code, y, g, code, y))
    ctx.count(nstir, 'after_tabulated_event_calls')
    if nbads:
        classes['after-tabulated-event [history]'] = nbads
    if nbadc:
        classes['cross-year [history]'] = nbadc
    ctx.count(tot.get('factor_calls', 0), 'factor_lines')
    ctx.count(tot.get('best_calls', 0), 'best_lines')
    ctx.count(tot.get('oracle_crosscheck', 0), 'oracle_crosscheck_lines')
    ctx.stats.update({'codes': tot.get('codes', 0), 'codes_with_float_truncated_distance': tot.get('hinted', 0),
                      'codes_that_are_row_names': tot.get('tabulated_codes', 0), 'codes_beyond_either_end': tot.get('beyond_ends', 0),
                      'ages': [a / 2.0 for a in ages2], 'jobs': len(jobs)})
    if classes:
        ctx.stats['failing_inputs_by_class'] = classes
    nmodel = sum(v for k, v in classes.items() if '[model:' in k)
    ctx.stats['disagreements'] = nmodel
    if nmodel == 0:
        ctx.oblig('correspondence:wma_age_factor / wma_world_best on distance codes vs Lean Wma model', 'correspondence', True)
    if nwrong == 0:
        ctx.oblig('correspondence:Lean Wma model vs Python exact oracle', 'correspondence', True)
    if not any('[model:' not in k for k in classes):
        ctx.oblig('oracle:betweenness, monotone best and both ends hold on the implementation', 'oracle', True)
    ctx.distinct = set(range(tot.get('codes', 0) - tot.get('tabulated_codes', 0)))
    # a few samples for the evidence
    for code in ('2400', '11K', '5.3M', '8020', '250000', '30'):
        im = W.canon_py(lambda: athlib.wma_age_factor('m', 40.5, code, year=2023))
        mo = vlib.driver(['wma\tfactor\t2023\tm\t81/2\t%s\t-' % code])[0]
        ctx.sample({'request': ['wma_age_factor', 'm', 40.5, code, 2023], 'implementation': H.show(im), 'model': mo})
    ctx.exhaustive = not ctx.quick()
