"""C11 — table-based junior scoring (Tyrving, QuadKids, Sportshall, Bulgarian U16) reproduces the published
tables exactly.
Lean: Props/C11.lean (each evaluator = the exact linear formula / table reading; fuzz harmless), obligations over
the regenerated tables in Oblig/C11/* (tables ordered, keys valid event codes, rows reachable).
Tie: T (tools/gen_junior.py, every run) + C: the real functions, in every documented input form, against the
Lean model on the 0.01 grid from 20 % below to 20 % above each tabulated range (exhaustive in the thorough tier;
in quick the three small systems are exhaustive and Tyrving is sampled: thresholds, float-hazard marks, stride 23).
Oracle: `fractions` re-evaluation from the live tables (tools/junior_common.py)."""
import os, json
import vlib, gen_junior
import junior_common as JC

THEOREMS = ['C11_tyrving_formula', 'C11_tyrving_stav_formula', 'C11_qkids_formula', 'C11_sportshall_spec', 'C11_sportshall_beyond',
            'C11_sportshall_row_reachable', 'C11_bulgarian_spec', 'C11_fuzz_harmless', 'C11_tyrving_fuzz', 'C11_qkids_fuzz',
            'C11_tables_ordered', 'C11_keys_valid', 'C11_rows_reachable', 'C11']
OBLIG = ['AthlibVerif.Oblig.C11.Tables', 'AthlibVerif.Oblig.C11.Keys', 'AthlibVerif.Oblig.C11.Reach']


def gen_step(ctx):
    try:
        files, side = gen_junior.gen_junior(vlib.REPO, vlib.GEN)
    except Exception as e:
        ctx.oblig('translate:junior tables', 'translator', False, repr(e))
        return None
    ch = [p for p, t in files.items() if vlib.write_if_changed(p, t)]
    if ch: ctx.notes.append('regenerated: ' + ', '.join(os.path.basename(p) for p in ch))
    return side


def side_stat(side):
    def tab(t): return sum(a + b for a, b in t)
    ty = side['tyrvingScale']
    for r in side['tyrving']:
        if r['kind'] != 'bad': ty += r['dist'] + sum(r['m']) + sum(tab(t) for t in r['tabs'])
    qk = sum(r['incN'] + r['incD'] + r['base'] + r['top'] for r in side['qkids'])
    sh = sum(e['incN'] + e['incD'] + e['incPts'] + tab(e['rows']) for e in side['sportshall'])
    bg = sum(t['min'] + t['max'] + sum(sum(r) for r in t['runs']) for t in side['bulgarian'])
    hu = sum(r['aN'] + r['aD'] + abs(r['bN']) + r['bD'] + abs(r['cN']) + r['cD'] for r in side['hungarian'])
    return 'ty %d %d qk %d %d sh %d %d bg %d %d hu %d %d' % (len(side['tyrving']), ty, len(side['qkids']), qk, len(side['sportshall']), sh,
                                                            len(side['bulgarian']), bg, len(side['hungarian']), hu)


def report_mismatches(ctx, L, results, prop_note=''):
    """decide every implementation/model disagreement with the oracle"""
    nd = 0
    for unit, res in results:
        nd += res['nmismatch']
        for (k, form, arg, hand, im, mo) in res['mismatch']:
            want = JC.oracle(L, unit.sys, unit.key, k, hand)
            if want is not None and want != mo:
                ctx.oblig('correspondence:Lean junior model vs exact oracle', 'correspondence', False,
                          '%s %r k=%d hand=%s: oracle %s, Lean model %s, implementation %s' % (unit.sys, unit.key, k, hand, want, mo, im))
            else:
                ctx.fail(JC.FN[unit.sys], JC.fail_args(unit.sys, unit.key, arg), mo, im,
                         note='%s form, mark %s%s' % (form, JC.s2(k), '; %d disagreements in this table' % res['nmismatch'] if res['nmismatch'] > 1 else ''),
                         replay_py=JC.replay_py(unit.sys, unit.key, arg))
        for (k, hand, o, mo) in res['oracle_bad']:
            ctx.oblig('correspondence:Lean junior model vs exact oracle', 'correspondence', False,
                      '%s %r k=%d hand=%s: oracle %s, Lean model %s' % (unit.sys, unit.key, k, hand, o, mo))
    return nd


def key_checks(ctx, L):
    """every table key is a valid event code and its own normal form (reachability through the public function)"""
    U = L['utils']
    keys = []
    for g, t in L['tyrving_score']._tyrvingTables.items():
        keys += [('athlib.tyrving_score', [g, ev]) for ev in t]
    for ct, t in L['qkids_score']._qkidsTables.items():
        keys += [('athlib.qkids_score', [ct, ev]) for ev in t]
    keys += [('athlib.sportshall_score', [c]) for c in L['sh_db']]
    for key in L['bulgarian_score'].scores:
        m = JC._BGKEY.match(key)
        if not m:
            ctx.fail('athlib.bulgarian_score', [key], 'key = age group + gender + event code', 'unparsable key', note='table-key')
        else:
            keys.append(('athlib.bulgarian_score', list(m.groups())))
    n = 0
    for fn, args in keys:
        ev = args[-1]; n += 1
        ok = L['codes'].PAT_EVENT_CODE.match(ev) is not None
        norm = None
        if ok:
            try: norm = U.normalize_event_code(ev)
            except Exception as e: norm = 'raised %s' % type(e).__name__
        if not ok or (norm != ev and fn in ('athlib.tyrving_score', 'athlib.qkids_score')):
            ctx.fail(fn, args, 'a valid event code in normal form', 'not an event code' if not ok else 'normalises to %r' % norm,
                     note='table-key: the row cannot be reached under its own key',
                     replay_py='import athlib.utils\nresult = athlib.utils.normalize_event_code(%r)' % ev)
    ctx.count(n, 'table_keys')


def table_order(ctx, L):
    """the ordering clauses on the live tables, row by row, so that a broken Oblig/C11/Tables names its witness"""
    n = 0
    for g, t in L['tyrving_score']._tyrvingTables.items():
        for ev, (kind, args) in t.items():
            tabs = [(args[2], True)] if kind == 'race' else [(args[1], False)] if kind == 'jump' else \
                   [(args[1][0], False), (args[1][1], False), (args[1][2], True)] if kind in ('pv', 'throw', 'stav') else []
            for yv, down in tabs:
                items = sorted(JC._ty_base(yv).items())
                for (a, x), (b, y) in zip(items, items[1:]):
                    n += 1
                    if b != a + 1 or (y > x if down else y < x):
                        ctx.fail('athlib.tyrving_score', [g, ev, a, b], 'consecutive ages, the standard never easier for the older age',
                                 'age %d: %s, age %d: %s' % (a, float(x), b, float(y)), note='table-order: Tyrving base performances')
    for ct, t in L['qkids_score']._qkidsTables.items():
        for ev, row in t.items():
            n += 1
            inc, base, top = [JC.frac(x) for x in row[:3]]
            timed = bool(L['codes'].PAT_RUN.match(ev))
            if inc <= 0 or (top >= base if timed else top <= base):
                ctx.fail('athlib.qkids_score', [ct, ev], 'positive increment, 100-point mark better than the 10-point mark', repr(row), note='table-order: QuadKids row')
            elif (base - 90 * inc if timed else base + 90 * inc) != top:
                ctx.fail('athlib.qkids_score', [ct, ev], '100-point mark = 10-point mark %s 90 increments = %s' % ('-' if timed else '+', float(base - 90 * inc if timed else base + 90 * inc)),
                         repr(row), note='table-consistency: QuadKids increment does not fit the two published marks')
    for code, e in L['sh_db'].items():
        high, rows, inc, ip = JC.sh_info(e)
        for (p, a), (q, b) in zip(rows, rows[1:]):
            n += 1
            if not p < q or (b < a if high else b > a):
                ctx.fail('athlib.sportshall_score', [code, e['perf2points'][[r[0] for r in rows].index(p)][1], e['perf2points'][[r[0] for r in rows].index(q)][1]],
                         'more points need a mark at least as good', '%d points at %s, %d points at %s' % (p, float(a) / 100, q, float(b) / 100),
                         note='table-order: Sportshall rows')
    for key, t in L['bulgarian_score'].scores.items():
        m = JC._BGKEY.match(key)
        if not m: continue
        timed = t['max'] < t['min']
        ks = sorted(k for k in t if isinstance(k, int))
        for a, b in zip(ks, ks[1:]):
            n += 1
            if (t[b] > t[a]) if timed else (t[b] < t[a]):
                ctx.fail('athlib.bulgarian_score', list(m.groups()) + [a / 100.0, b / 100.0], 'the better mark has at least as many points',
                         '%s -> %d, %s -> %d' % (JC.s2(a), t[a], JC.s2(b), t[b]), note='table-order: Bulgarian per-centi table',
                         replay_py='result = (athlib.bulgarian_score(%r, %r, %r, %r), athlib.bulgarian_score(%r, %r, %r, %r))' % (m.groups() + (a / 100.0,) + m.groups() + (b / 100.0,)))
    ctx.count(n, 'table_order_pairs')


def row_reachability(ctx, L):
    """every Sportshall row is returned for the mark that equals its threshold (real function)"""
    n = 0
    for code, e in L['sh_db'].items():
        for p, v in e['perf2points']:
            n += 1
            got = JC.canon(lambda: L['athlib'].sportshall_score(code, v))
            if got != 'p %d' % p:
                ctx.fail('athlib.sportshall_score', [code, v], 'p %d' % p, got, note='unreachable-row: the threshold mark of the %d-point row does not score %d' % (p, p),
                         replay_py='result = athlib.sportshall_score(%r, %r)' % (code, v))
    ctx.count(n, 'sportshall_rows')
    # the documented verbose switch only prints a trace: the points must be those of the quiet call (every threshold, and one
    # hundredth either side of it)
    import io, contextlib
    nv = 0
    for code, e in L['sh_db'].items():
        for p, v in e['perf2points']:
            try: c = int(round(float(v) * 100))
            except Exception: continue
            for k in (c - 1, c, c + 1):
                if k < 0: continue
                t = '%d.%02d' % (k // 100, k % 100)
                quiet = JC.canon(lambda: L['athlib'].sportshall_score(code, t))
                buf = io.StringIO()
                with contextlib.redirect_stdout(buf):
                    loud = JC.canon(lambda: L['athlib'].sportshall_score(code, t, verbose=True))
                nv += 1
                if loud != quiet:
                    ctx.fail('athlib.sportshall_score', [code, t, 'verbose=True'], quiet + ' (the answer without verbose)', loud, note='glue: the verbose option changes the points',
                             replay_py='result = (athlib.sportshall_score(%r, %r), athlib.sportshall_score(%r, %r, verbose=True))' % (code, t, code, t))
    ctx.count(nv, 'sportshall_verbose_calls')


def glue(ctx, L):
    """error paths and spellings: same verdict from model and code"""
    reqs = []
    T = L['tyrving_score']._tyrvingTables
    for g, t in T.items():
        for ev, (kind, args) in t.items():
            yv = args[2] if kind == 'race' else args[1] if kind == 'jump' else args[1][0]
            ages = sorted(JC._ty_base(yv))
            for a in (ages[0] - 1, ages[-1] + 1, 0, 99):
                if a >= 0: reqs.append(('ty', (g, ev, a), 1000))
    for g in ('m', 'f', 'X', '', 'male', 'Female'):
        reqs.append(('ty', (g, '100', 15), 1300)); reqs.append(('ty', (g, 'HJ', 12), 150))
    for ev in ('XYZ', '150', 'JT', 'DT2K', '4x100'):
        reqs.append(('ty', ('M', ev, 15), 1300))
    for ct in ('QuadKids Start', 'quadkids club u13', 'Wessex League (U13)', 'QKPRE', 'qkwl', 'NOPE', '', 'QUADKIDS PRE-START'):
        for ev in ('50', '75', '100', '400', '600', '800', 'SLJ', 'LJ', 'OT', 'SP', '4x100', '70H', '75H', '300', 'HJ'):
            reqs.append(('qk', (ct, ev), 1000))
    for code in ('slj', 'Shj', 'XYZ', '', '100', '200', 'bal'):
        reqs.append(('sh', (code,), 150))
    for key in (('U16', 'M', '60'), ('U16', 'F', '600'), ('U16', 'M', '600'), ('U18', 'M', '60'), ('U16', 'F', 'HJ'), ('U16', 'M', 'JT')):
        reqs.append(('bg', key, 900))
    lines = [JC.model_line(s, key, k) for s, key, k in reqs]
    model = vlib.driver(lines)
    bad = 0
    for (s, key, k), mo in zip(reqs, model):
        arg = k / 100.0
        im = JC.canon(JC.impl_call(L, s, key, arg))
        if im.startswith('OtherError:AssertionError') and mo == 'KeyError': continue     # bulgarian asserts before the look-up
        if im != mo:
            want = JC.oracle(L, s, key, k, False)
            bad += 1
            if want is not None and want != mo:
                ctx.oblig('correspondence:Lean junior model vs exact oracle', 'correspondence', False,
                          'glue %s %r: oracle %s, model %s, implementation %s' % (s, key, want, mo, im))
            else:
                ctx.fail(JC.FN[s], JC.fail_args(s, key, arg), mo, im, note='glue: spelling / error path', replay_py=JC.replay_py(s, key, arg))
    ctx.count(len(reqs), 'glue_lines')
    return bad

def method_entry(ctx, L):
    """the calculator object behind tyrving_score, called directly: `TyrvingCalculator(...).points(age, mark, timing_kind)`
    must give what the function gives (automatic) and the hand-timing allowance when told 'manual'"""
    TS = L['tyrving_score']; n = 0; bad = 0
    for u in JC.units_tyrving(L):
        g, ev, age = u.key
        kind, args = TS._tyrvingTables[g][ev]
        ks = sorted(set(k for m in u.marks for k in (m, m + 1) if u.lo <= k <= u.hi))[:10]
        for k in ks:
            for tk, hand, how in ((None, False, 'default'), ('automatic', False, 'keyword'), ('manual', True, 'keyword'), ('manual', True, 'positional')):
                if hand and not (u.timed and L['codes'].PAT_RUN.match(ev)): continue
                want = JC.oracle(L, 'ty', u.key, k, hand)
                if want is None: continue
                calc = TS.TyrvingCalculator(g, ev, kind, args)
                arg = JC.s2(k)
                call = (lambda: calc.points(age, arg)) if tk is None else (lambda: calc.points(age, arg, tk)) if how == 'positional' else (lambda: calc.points(age, arg, timing_kind=tk))
                im = JC.canon(call); n += 1
                if im != want:
                    bad += 1
                    if bad <= 10:
                        ctx.fail('athlib.tyrving_score.TyrvingCalculator.points', [g, ev, age, arg, tk, how], want, im, note='calculator method called directly (%s timing, %s argument)' % (tk or 'default', how),
                                 replay_py='import athlib.tyrving_score as T\nk, a = T._tyrvingTables[%r][%r]\nc = T.TyrvingCalculator(%r, %r, k, a)\nresult = %s' % (
                                     g, ev, g, ev, 'c.points(%r, %r)' % (age, arg) if tk is None else 'c.points(%r, %r, %r)' % (age, arg, tk) if how == 'positional' else 'c.points(%r, %r, timing_kind=%r)' % (age, arg, tk)))
    ctx.count(n, 'method_entry_calls')


def pinned_tables(ctx, L, everything=False):
    """the live tables against the pinned copy of the published tables (spec/junior_tables_pinned.txt.gz): where an
    entry differs, the real function is compared with the exact evaluation of the PINNED entry on its whole grid"""
    import pin_junior as PJ
    try:
        P = PJ.load()
    except Exception as e:
        ctx.oblig('spec:pinned copy of the published tables readable', 'translator', False, repr(e)); return
    PL = PJ.as_L(P, L)
    live = PJ.snapshot(L)
    def entry(S, u):
        if u.sys == 'ty': return S['ty'].get(u.key[0], {}).get(u.key[1])
        if u.sys == 'qk': return S['qk'].get(u.key[0], {}).get(u.key[1])
        if u.sys == 'sh': return S['sh'].get(u.key[0])
        if u.sys == 'bg': return S['bg'].get(''.join(u.key))
    units = JC.units_tyrving(PL) + JC.units_qkids(PL) + JC.units_sportshall(PL) + JC.units_bulgarian(PL)
    ndiff = 0; nbad = 0; ncalls = 0
    for u in units:
        same = entry(live, u) == entry(P, u)
        if same and not everything: continue
        if not same:
            ndiff += 1
            if ndiff > 200: continue
        hands = u.sys == 'ty' and u.timed
        # entries that differ from the pinned copy: the whole grid; (everything=True) the others: the thresholds +-1
        for k in (range(u.lo, u.hi + 1) if not same else sorted(set(x for m in u.marks for x in (m - 1, m, m + 1) if u.lo <= x <= u.hi))):
            for name, arg, hand in JC.unit_forms(u, k):
                if name not in ('str2', 'float') and k % 7: continue
                want = JC.oracle(PL, u.sys, u.key, k, hand and hands)
                if want is None: continue
                im = JC.canon(JC.impl_call(L, u.sys, u.key, arg)); ncalls += 1
                if im != want:
                    nbad += 1
                    if nbad <= 40:
                        ctx.fail(JC.FN[u.sys], JC.fail_args(u.sys, u.key, arg), want, im,
                                 note='published table (pinned copy): %s form, mark %s' % (name, JC.s2(k)), replay_py=JC.replay_py(u.sys, u.key, arg))
    # the published competition names (QuadKids): every name of the pinned map must lead to the pinned table it names
    nmap = 0
    for name, code in sorted(P['qkmap'].items()):
        for ev, row in sorted(P['qk'].get(code, {}).items()):
            u = next((x for x in units if x.sys == 'qk' and x.key == (code, ev)), None)
            if u is None: continue
            for k in sorted(set(u.marks))[::6] + [u.marks[0], u.marks[-1]]:
                if k < 0: continue
                want = JC.oracle(PL, 'qk', (name, ev), k, False)
                im = JC.canon(JC.impl_call(L, 'qk', (name, ev), JC.s2(k))); nmap += 1
                if want is not None and im != want:
                    nbad += 1
                    if nbad <= 40:
                        ctx.fail('athlib.qkids_score', [name, ev, JC.s2(k)], want + ' (the %s table)' % code, im,
                                 note='published competition name (pinned copy of the name map): mark %s' % JC.s2(k), replay_py=JC.replay_py('qk', (name, ev), JC.s2(k)))
    ctx.count(nmap, 'pinned_name_calls')
    ctx.count(ncalls, 'pinned_table_calls')
    ctx.stats['table_entries_differing_from_pinned_copy'] = ndiff
    ctx.oblig('oracle:scores equal the exact evaluation of the pinned published tables wherever a live table entry differs from them', 'oracle', nbad == 0,
              '' if nbad == 0 else '%d entries differ, %d marks score differently' % (ndiff, nbad))


def run(ctx):
    ctx.rule = ('every (system, competition type / age group, gender, event, age) table x the 0.01 grid from 20 % below to 20 % above the '
                'tabulated range, in every documented input form (two-decimal text, one-/no-decimal text, float, int, m:ss.xx); '
                'quick: QuadKids, Sportshall, Bulgarian whole grid, Tyrving = thresholds +-2, every float-hazard mark (100*(k/100) != k), '
                'seeded stride 23; thorough: the whole grid for all four systems; distinct non-trivial = marks whose points are not a clamp value')
    ctx.trusted += ['tools/gen_junior.py (decimal text of every table entry -> scaled integers; Sportshall increments via limit_denominator(1e6) of the float)',
                    'binary floating point is NOT modelled: the model takes the decimal mark in hundredths; float behaviour is observed through the correspondence only',
                    'tools/junior_common.py: independent fractions oracle, cross-checked against the Lean model on every 97th line']
    ctx.assumptions += ['event codes are given in normal form (normalisation is C07); genders M/F; ages are integers',
                        'Sportshall high/low direction is read from the table (thresholds grow with the points); the list in sportshall_score() is checked against it by the correspondence',
                        'marks are written to 0.01 (the property); Tyrving text with fewer than two decimals on a timed event is hand-timed by convention']
    side = gen_step(ctx)
    if side is None:
        # the tables no longer translate: search the implementation without the model (pinned published tables, entry points)
        try:
            L = JC.live()
            pinned_tables(ctx, L, everything=True)
            method_entry(ctx, L)
        except Exception as e:
            ctx.notes.append('implementation-only search failed: %r' % (e,))
        return
    import gen
    gen.regex(ctx, ['PAT_EVENT_CODE', 'PAT_RUN'])
    ok, log, failed = ctx.build(OBLIG + ['AthlibVerif.Props.C11'])
    if ok:
        P = 'AthlibVerif.Props.C11.'
        ctx.audit(['AthlibVerif.Props.C11'], [P + t for t in THEOREMS])
        if not ctx.quick():
            ctx.leanchecker(['AthlibVerif.Props.C11'])
    L = JC.live()
    # translator validation: the generated tables, dumped by the driver, against the side-car computed from the live objects
    st = vlib.driver(['jr\tstat'])[0]
    ctx.oblig('translate:Gen/Junior.lean equals the live tables (row counts and checksums)', 'translator', st == side_stat(side),
              'driver %s / live %s' % (st, side_stat(side)))
    key_checks(ctx, L)
    table_order(ctx, L)
    row_reachability(ctx, L)
    method_entry(ctx, L)
    pinned_tables(ctx, L)
    nd = glue(ctx, L)
    units = JC.units_tyrving(L) + JC.units_qkids(L) + JC.units_sportshall(L) + JC.units_bulgarian(L)
    tasks = JC.split_tasks(units, ctx.quick(), ctx.rng, sampled=('ty',), stride=23, extra=97)
    results = JC.pool_map(JC.work_c11, tasks)
    nd += report_mismatches(ctx, L, results)
    per = {}
    nont = 0
    for unit, res in results:
        ctx.count(res['calls'], 'calls_' + unit.sys)
        ctx.stats['model_lines_' + unit.sys] = ctx.stats.get('model_lines_' + unit.sys, 0) + res['lines']
        ctx.stats['oracle_crosscheck_lines'] = ctx.stats.get('oracle_crosscheck_lines', 0) + res['oracle_n']
        for f, n in res['forms'].items():
            ctx.stats['form_' + f] = ctx.stats.get('form_' + f, 0) + n
        nont += res['nontrivial']
    ctx.stats['tables'] = len(units)
    ctx.stats['disagreements'] = nd
    ctx.distinct = set(range(nont))
    if nd == 0:
        ctx.oblig('correspondence:tyrving/qkids/sportshall/bulgarian_score vs Lean junior model', 'correspondence', True)
    if not any(o['name'].startswith('correspondence:Lean junior model vs exact oracle') for o in ctx.obligations):
        ctx.oblig('correspondence:Lean junior model vs exact oracle', 'correspondence', True)
    for unit, res in results[:6]:
        ctx.sample({'table': [unit.sys] + list(unit.key), 'grid': [unit.lo, unit.hi], 'calls': res['calls'], 'disagreements': res['nmismatch']})
    ctx.exhaustive = not ctx.quick()
