"""C18 — the JavaScript port computes the same answers as the Python reference.
Lean: Props/C18.lean (the shared reference is the C06 model + isHandTiming; `(i - 0) + 1` exact below 2^53; hand timing);
tie: TWO correspondences on the same request lines — Python <-> Lean model and JavaScript <-> Lean model — for
roundUpStrNum / formatSecondsAsTime / parseHms / isHandTiming, and a direct JS <-> Python comparison for
normalizeEventCode on every scoring-table key, tyrvingScore and qkidsScore over every table x the 0.01 grid around the
base performances, the duplicated tables, and patterns.js against athlib.codes.  js/src is loaded under plain node by
tools/jsload.js.  Agreement itself rests on the correspondences (partial by nature); no theorem speaks about node.

"Both refuse" — canonicalisation (conservative, fixed here):
  * Python refuses  <=> the call raises (any exception class);  a returned None is a VALUE, not a refusal;
  * JavaScript refuses <=> the call throws, or returns NaN, or returns undefined;  null, Infinity, '' are VALUES;
  * numbers are compared by value (Python int 70 == JS 70; Python float within 2^-50 relative of the JS double when
    both went through float arithmetic), strings and booleans exactly; round-up results up to leading zeros of the
    integer part (as in C06)."""
import os, sys, re, json, math, subprocess
from fractions import Fraction
import vlib
import times_common as TC

THEOREMS = ['C18_agree_of_correspondence', 'C18_js_int_exact', 'C18_js_int_exact_digits', 'C18_js_int_inexact_witness',
            'C18_hand_timing']
JS_SAFE_DIGITS = 15


# ------------------------------------------------------------------ node
def js_run(reqs, shards=6):
    if not reqs:
        return []
    env = dict(os.environ, ATHLIB_REPO=vlib.REPO)
    exe = os.path.join(vlib.VERIF, 'tools', 'jsload.js')
    def one(part):
        data = '\n'.join(json.dumps(r) for r in part) + '\n'
        p = subprocess.run(['node', exe], input=data, capture_output=True, text=True, env=env, timeout=3000)
        if p.returncode != 0:
            raise vlib.InternalError('node failed: %s' % p.stderr[:1500])
        out = [json.loads(l) for l in p.stdout.split('\n') if l]
        if len(out) != len(part):
            raise vlib.InternalError('node returned %d replies for %d requests: %s' % (len(out), len(part), p.stderr[:500]))
        return out
    if len(reqs) < 50000:
        return one(reqs)
    from concurrent.futures import ThreadPoolExecutor
    n = (len(reqs) + shards - 1) // shards
    parts = [reqs[i:i + n] for i in range(0, len(reqs), n)]
    with ThreadPoolExecutor(max_workers=shards) as ex:
        res = list(ex.map(one, parts))
    return [r for part in res for r in part]


def js_refuses(r):
    return r[0] in ('exc', 'nan', 'undef')

def py_canon(r):
    """('ok', value) | ('exc', name)  ->  the same vocabulary as jsload.js replies"""
    if r[0] == 'exc':
        return ['exc', r[1]]
    v = r[1]
    if v is None: return ['null']
    if isinstance(v, bool): return ['bool', v]
    if isinstance(v, (int, float)):
        if isinstance(v, float) and math.isnan(v): return ['nan']          # a Python NaN is a value; never produced here
        if isinstance(v, float) and math.isinf(v): return ['inf', 1 if v > 0 else -1]
        return ['num', v]
    if isinstance(v, str): return ['str', v]
    return ['json', v]

def same_value(p, j, tol=False):
    """canonical Python reply vs canonical JS reply"""
    if p[0] == 'exc':
        return js_refuses(j)
    if js_refuses(j):
        return False
    if p[0] != j[0]:
        return False
    if p[0] == 'num':
        if p[1] == j[1]:
            return True
        if tol:
            a, b = Fraction(p[1]), Fraction(j[1])
            return abs(a - b) <= TC.FTOL * max(1, abs(a))
        return False
    return p[1:] == j[1:]

def show(r):
    return json.dumps(r)[:120]

def replay_both(pysrc, jsreq):
    """code for vcheck --replay: run the Python call and the same request through node, show both"""
    return ("import subprocess, json, os\n"
            "try:\n    py = %s\nexcept Exception as e:\n    py = 'raises ' + type(e).__name__\n"
            "js = subprocess.run(['node', %r], input=json.dumps(%r) + '\\n', capture_output=True, text=True).stdout.strip()\n"
            "result = {'python': py, 'js': js}") % (pysrc, os.path.join(vlib.VERIF, 'tools', 'jsload.js'), jsreq)


# ------------------------------------------------------------------ the four modelled functions
def stream_rus(ctx, athlib):
    reqs = TC.rus_requests(ctx, ctx.quick(), mid=True)
    model = vlib.driver_parallel([TC.line_rus(*r) for r in reqs])
    js = js_run([['rus', s, p, None if m == 5 else m] for s, p, m in reqs])
    f = athlib.round_up_str_num
    npm = njm = ndis = outside = 0
    for (s, p, m), mo, j in zip(reqs, model, js):
        im = TC.call(f, s, p, m) if m != 5 else TC.call(f, s, p)
        mo = TC.model_str(mo)
        cm = TC.canon_dec(mo[1])
        py_ok = im[0] == 'ok' and TC.canon_dec(im[1]) == cm
        shared = len(s.partition('.')[0]) + p <= JS_SAFE_DIGITS
        if not shared:
            outside += 1
        js_ok = j[0] == 'str' and TC.canon_dec(j[1]) == cm
        if not py_ok: npm += 1
        if shared and not js_ok: njm += 1
        if shared and not (py_ok and js_ok):
            pj = im[0] == 'ok' and j[0] == 'str' and TC.canon_dec(im[1]) == TC.canon_dec(j[1])
            if im[0] == 'exc' and js_refuses(j): pj = True
            if not pj:
                ndis += 1
                ctx.fail('js:roundUpStrNum', [s, p, m], 'python: %s' % show(py_canon(im)), 'js: %s' % show(j),
                         note='ports differ (model: %r)' % (mo[1],), replay_py=replay_both('athlib.round_up_str_num(%r, %r, %r)' % (s, p, m), ['rus', s, p, m]))
    ctx.count(len(reqs), 'rus_lines')
    ctx.stats['rus_outside_js_domain(>15 digits, python<->model only)'] = outside
    ctx.stats['rus_python_vs_model_disagreements'] = npm
    ctx.stats['rus_js_vs_model_disagreements'] = njm
    ctx.oblig('correspondence:round_up_str_num (Python) vs Lean roundUpStr', 'correspondence', npm == 0, '%d lines differ' % npm)
    ctx.oblig('correspondence:roundUpStrNum (JS) vs Lean roundUpStr', 'correspondence', njm == 0, '%d lines differ' % njm)
    ctx.sample({'request': ['roundUpStrNum'] + list(reqs[2000]), 'python': athlib.round_up_str_num(reqs[2000][0], reqs[2000][1]), 'js': js[2000], 'model': TC.model_str(model[2000])[1]})
    return len(set(reqs))


def stream_fmt(ctx, athlib):
    reqs = TC.fmt_requests(ctx, ctx.quick(), mid=True)
    xs = list(dict.fromkeys(x for x, p in reqs))
    resid = dict(zip(xs, js_run([['resid', x] for x in xs])))
    lines = []; lines_js = []; hint_diff = 0
    for x, p in reqs:
        whole, frac, exact = TC.residue_texts(x)
        t0 = '%.9f' % (frac + 0.0)
        lines.append(TC.line_fmt(whole, t0, p))
        r = resid[x]
        tj = r[1][1] if r[0] == 'json' else t0
        if tj != t0 and TC.text_is_rendering(tj, frac, Fraction(5, 10 ** 10)):
            hint_diff += 1
            lines_js.append(TC.line_fmt(whole, tj, p))         # JS rounds a tie in the 10th decimal the other way
        else:
            lines_js.append(None)
    model = vlib.driver_parallel(lines)
    extra = [l for l in lines_js if l]
    extra_out = iter(vlib.driver(extra))
    model_js = [next(extra_out) if l else m for l, m in zip(lines_js, model)]
    js = js_run([['fmt', x, p] for x, p in reqs])
    f = athlib.format_seconds_as_time
    npm = njm = ndis = 0
    for (x, p), mo, moj, j in zip(reqs, model, model_js, js):
        im = py_canon(TC.call(f, x, p))
        mo = TC.model_str(mo); moj = TC.model_str(moj)
        py_ok = (im[0] == 'exc' and mo[0] == 'exc') or (im[0] == 'str' and mo[0] == 's' and im[1] == mo[1])
        js_ok = (js_refuses(j) and moj[0] == 'exc') or (j[0] == 'str' and moj[0] == 's' and j[1] == moj[1])
        if not py_ok: npm += 1
        if not js_ok: njm += 1
        if not (py_ok and js_ok) and not same_value(im, j):
            ndis += 1
            ctx.fail('js:formatSecondsAsTime', [x, p], 'python: %s' % show(im), 'js: %s' % show(j),
                     note='ports differ (model: %r)' % (mo[1],), replay_py=replay_both('athlib.format_seconds_as_time(%r, %r)' % (x, p), ['fmt', x, p]))
    # odd precision arguments (no precision given as an explicit null, text, out of range): both ports refuse or both answer alike
    odd = [(x, p) for x in (27.3, 65.5, 3599.5, 0, 12, 59.999) for p in (None, 'hi', 4, -1, 7, '2', 1.5)]
    jo = js_run([['fmt', x, p] for x, p in odd])
    for (x, p), j in zip(odd, jo):
        im = py_canon(TC.call(f, x, p))
        if not same_value(im, j):
            ctx.fail('js:formatSecondsAsTime', [x, p], 'python: %s' % show(im), 'js: %s' % show(j), note='ports differ (odd precision argument)',
                     replay_py=replay_both('athlib.format_seconds_as_time(%r, %r)' % (x, p), ['fmt', x, p]))
    ctx.count(len(odd), 'fmt_odd_precision_lines')
    ctx.count(len(reqs), 'fmt_lines')
    ctx.stats['fmt_python_vs_model_disagreements'] = npm
    ctx.stats['fmt_js_vs_model_disagreements'] = njm
    ctx.stats['fmt_residue_text_toFixed_differs_from_percent_9f'] = hint_diff
    ctx.oblig('correspondence:format_seconds_as_time (Python) vs Lean formatSeconds', 'correspondence', npm == 0, '%d lines differ' % npm)
    ctx.oblig('correspondence:formatSecondsAsTime (JS) vs Lean formatSeconds', 'correspondence', njm == 0, '%d lines differ' % njm)
    ctx.sample({'request': ['formatSecondsAsTime'] + list(reqs[8004]), 'js': js[8004], 'model': TC.model_str(model[8004])[1]})
    return len(set(reqs))


def js_safe_hms(t):
    return TC.hms_in_model(t) and all(len(f) <= JS_SAFE_DIGITS for f in re.split('[:;]', t))

def stream_hms(ctx, athlib):
    texts = list(dict.fromkeys(TC.hms_requests(ctx, ctx.quick())))
    texts = [t for t in texts if not any(0xD800 <= ord(c) <= 0xDFFF for c in t)]
    strict = [t for t in texts if js_safe_hms(t)]
    model = dict(zip(strict, vlib.driver_parallel([TC.line_hms(t) for t in strict])))
    js = dict(zip(texts, js_run([['hms', t] for t in texts])))
    f = athlib.parse_hms
    npm = njm = ndis = exotic_diff = 0
    for t in texts:
        pr = TC.call(f, t)
        im = TC.canon_num(pr)
        j = js[t]
        if t not in model:
            # outside the shared domain (exotic int()/float() syntax, > 15 digits): counted, not judged
            if not same_value(py_canon(pr), j, tol=True):
                exotic_diff += 1
            continue
        mo = TC.model_num(model[t])
        sc = TC.hms_scale(t)
        py_ok = TC.num_agree(im, mo, sc)
        if mo[0] == 'exc':
            js_ok = js_refuses(j)
        elif j[0] != 'num':
            js_ok = False
        elif mo[0] == 'i' and abs(mo[1]) < 2 ** 53:
            js_ok = Fraction(j[1]) == mo[1]                    # integers below 2^53 are exact doubles
        else:
            js_ok = abs(Fraction(j[1]) - mo[1]) <= TC.FTOL * max(1, abs(mo[1]), sc)
        if not py_ok: npm += 1
        if not js_ok: njm += 1
        # the two ports do the same double arithmetic in the same order: on the shared domain their values are the SAME double
        if py_ok and js_ok and mo[0] in ('i', 'f') and abs(mo[1]) < 2 ** 52 and not same_value(py_canon(pr), j, tol=False):
            ndis += 1
            ctx.fail('js:parseHms', [t], 'python: %s' % show(py_canon(pr)), 'js: %s' % show(j),
                     note='ports differ in the last place (model: %s)' % (model[t],), replay_py=replay_both('athlib.parse_hms(%r)' % (t,), ['hms', t]))
        if not (py_ok and js_ok) and not same_value(py_canon(pr), j, tol=True):
            ndis += 1
            ctx.fail('js:parseHms', [t], 'python: %s' % show(py_canon(pr)), 'js: %s' % show(j),
                     note='ports differ (model: %s)' % (model[t],), replay_py=replay_both('athlib.parse_hms(%r)' % (t,), ['hms', t]))
    ctx.count(len(texts), 'hms_texts')
    ctx.count(len(strict), 'hms_lines_in_shared_domain')
    ctx.stats['hms_python_vs_model_disagreements'] = npm
    ctx.stats['hms_js_vs_model_disagreements'] = njm
    ctx.stats['hms_outside_shared_domain_texts_that_differ(not judged)'] = exotic_diff
    ctx.oblig('correspondence:parse_hms (Python) vs Lean parseHms', 'correspondence', npm == 0, '%d lines differ' % npm)
    ctx.oblig('correspondence:parseHms (JS) vs Lean parseHms', 'correspondence', njm == 0, '%d lines differ' % njm)
    return len(texts)


def stream_hand(ctx, athlib):
    texts = list(dict.fromkeys(TC.hand_requests(ctx)))
    model = vlib.driver([TC.line_hand(t) for t in texts])
    nums = [12, 12.5, 12.05, 0]
    js = js_run([['hand', t] for t in texts] + [['hand', v] for v in nums])
    f = athlib.is_hand_timing
    npm = njm = 0
    for t, mo, j in zip(texts + nums, model + ['false'] * len(nums), js):
        im = py_canon(TC.call(f, t))
        want = ['bool', mo == 'true']
        if im != want: npm += 1
        if j != want: njm += 1
        if (im != want or j != want) and not same_value(im, j):
            ctx.fail('js:isHandTiming', [t], 'python: %s' % show(im), 'js: %s' % show(j), note='ports differ (model: %s)' % mo,
                     replay_py=replay_both('athlib.is_hand_timing(%r)' % (t,), ['hand', t]))
    ctx.count(len(texts) + len(nums), 'hand_lines')
    ctx.oblig('correspondence:is_hand_timing (Python) vs Lean isHandTiming', 'correspondence', npm == 0, '%d lines differ' % npm)
    ctx.oblig('correspondence:isHandTiming (JS) vs Lean isHandTiming', 'correspondence', njm == 0, '%d lines differ' % njm)
    return len(texts)


# ------------------------------------------------------------------ direct JS <-> Python
def direct(ctx, fn, reqs, pyf, jsop, replay, tol=False):
    """reqs: argument tuples; compare pyf(*args) with the JS op; returns number of disagreements"""
    js = js_run([[jsop] + list(a) for a in reqs])
    nd = 0; kinds = {}
    for a, j in zip(reqs, js):
        p = py_canon(TC.call(pyf, *a))
        k = 'both refuse' if (p[0] == 'exc' and js_refuses(j)) else 'value' if p[0] != 'exc' else 'python refuses'
        kinds[k] = kinds.get(k, 0) + 1
        if not same_value(p, j, tol):
            nd += 1
            ctx.fail('js:' + fn, list(a), 'python: %s' % show(p), 'js: %s' % show(j), note=classify(fn, a, p, j), replay_py=replay_both(replay % a, [jsop] + list(a)))
    ctx.count(len(reqs), fn + '_lines')
    ctx.stats[fn + '_disagreements'] = nd
    ctx.stats[fn + '_kinds'] = kinds
    ctx.oblig('agreement:%s JS vs Python' % fn, 'correspondence', nd == 0, '%d requests differ' % nd)
    return js

def classify(fn, a, p, j):
    if fn == 'tyrvingScore':
        perf = a[3]
        hand = isinstance(perf, str) and (perf.rfind('.') < 0 or len(perf) - perf.rfind('.') < 3)
        return ('hand-timed ' if hand else '') + ('text' if isinstance(perf, str) else 'numeric') + ' mark'
    return 'ports differ'

def mmss(k, dec=2):
    """k hundredths -> m:ss.xx (dec=2) or m:ss.x (dec=1)"""
    m, s = divmod(k, 6000)
    return '%d:%02d.%02d' % (m, s // 100, s % 100) if dec == 2 else '%d:%02d.%d' % (m, s // 100, s % 100 // 10)

def ty_requests(ctx, tables):
    quick = ctx.quick(); rng = ctx.rng
    reqs = []
    for g in sorted(tables):
        for ev in sorted(tables[g]):
            kind, args = tables[g][ev]
            y, vs = args[2] if kind == 'race' else args[1] if kind == 'jump' else args[1][0]
            for i, bv in enumerate(vs):
                age = y + i
                lo, hi = int(bv * 100 * 0.85), int(bv * 100 * 1.15)
                stride = max(1, (hi - lo) // (60 if quick else 3000))
                for k in range(lo + rng.randrange(stride), hi + 1, stride):
                    txt = '%d.%02d' % divmod(k, 100)
                    reqs.append((g, age, ev, txt))
                    reqs.append((g, age, ev, k / 100))
                    reqs.append((g, age, ev, '%d.%d' % divmod(k // 10, 10)))          # one decimal: hand timing on runs
                    if (k // stride) % 4 == 0:
                        reqs.append((g, age, ev, txt.replace('.', ',')))                 # the decimal comma, which every branch of both ports means to accept
                        if kind == 'race' and k >= 6000: reqs.append((g, age, ev, mmss(k).replace('.', ',')))
                    if kind == 'race' and k >= 6000 and (k // stride) % 3 == 0:
                        reqs.append((g, age, ev, mmss(k)))
                        reqs.append((g, age, ev, mmss(k, 1)))
                        reqs.append((g, age, ev, mmss(k).replace(':', '.')))          # the dotted forms the race parser turns into colons: m.ss.xx
                        reqs.append((g, age, ev, mmss(k, 1).replace(':', '.')))
                    if kind == 'race' and bv >= 2400 and (k // stride) % 3 == 1:
                        # an hour or more (the long walks), also reached by scaling the mark: h:mm:ss.xx, h.mm.ss.x, mixed
                        for kk in (k, k + 360000 - lo, 2 * k):
                            if kk < 360000: continue
                            h_, r_ = divmod(kk, 360000)
                            hms = '%d:%02d:%02d.%02d' % (h_, r_ // 6000, r_ % 6000 // 100, r_ % 100)
                            for t_ in (hms, hms.replace(':', '.'), hms[:-1].replace(':', '.'), hms.replace(':', '.', 1)):
                                reqs.append((g, age, ev, t_))
                    if k % 100 == 0 and (k // 100) % 2 == 0:
                        reqs.append((g, age, ev, k // 100)); reqs.append((g, age, ev, str(k // 100)))
                # the thresholds of the manual-timing rule: marks that ARE 40, 60, 80, 300 (the JS confusion)
                for v in ('40.0', '60.0', '80.0', '300.0', '60', 40, 60.0):
                    reqs.append((g, age, ev, v))
            for age in (y - 1, y + len(vs), str(y)):
                reqs.append((g, age, ev, '%.2f' % vs[0]))
            for gg, ee in (('m' if g == 'M' else 'f', ev.lower()), ('x', ev), (g, ev + 'zz'), ('Male' if g == 'M' else 'female', ' ' + ev + ' ')):
                reqs.append((gg, y, ee, '%.2f' % vs[0]))
    return reqs

def qk_requests(ctx, tables, compmap):
    quick = ctx.quick()
    reqs = []
    for ct in sorted(tables):
        for ev in sorted(tables[ct]):
            inc, lo, hi = tables[ct][ev]
            a, b = sorted((lo, hi))
            for k in range(max(0, int(a * 100) - 150), int(b * 100) + 150, 3 if quick else 1):
                reqs.append((ct, ev, '%d.%02d' % divmod(k, 100)))
                reqs.append((ct, ev, k / 100))
                if k >= 6000 and k % 2 == 0:
                    reqs.append((ct, ev, mmss(k)))
                if k % 100 == 0:
                    reqs.append((ct, ev, k // 100))
            reqs.append((ct.lower(), ev.lower(), '%.2f' % lo))
            reqs.append((ct, ev + 'q', '%.2f' % lo))
    for name, ct in sorted(compmap.items()):
        ev = sorted(tables[ct])[0]
        for nm in (name, name.title(), name.lower(), ' '.join(name)):
            reqs.append((nm, ev, '%.2f' % tables[ct][ev][1]))
    reqs.append(('NOSUCH', '100', '12.00'))
    return reqs

def deep_equal(a, b, path=''):
    """numeric-aware structural equality; returns the first differing path or None"""
    if isinstance(a, bool) or isinstance(b, bool):
        return None if a is b else path
    if isinstance(a, (int, float)) and isinstance(b, (int, float)):
        return None if a == b else path
    if isinstance(a, dict) and isinstance(b, dict):
        if set(map(str, a)) != set(map(str, b)):
            return path + ' keys %s' % sorted(set(map(str, a)) ^ set(map(str, b)))[:6]
        for k in a:
            d = deep_equal(a[k], b[k] if k in b else b[str(k)], path + '/' + str(k))
            if d: return d
        return None
    if isinstance(a, (list, tuple)) and isinstance(b, (list, tuple)):
        if len(a) != len(b): return path + ' length %d vs %d' % (len(a), len(b))
        for i, (x, y) in enumerate(zip(a, b)):
            d = deep_equal(x, y, path + '/%d' % i)
            if d: return d
        return None
    return None if a == b else path

PROBE_CODES = ['SSP', 'SSP3K', '4x1.5K', '4x100', '4xSWR', 'SWR', '3xSDMR', 'MILE', '1MILE', '2MILE', 'NT', 'DNF', '100', '110H',
               'SP4K', 'DT1.5K', 'H1', 'SCTH1', '4x400H', '4x1M', '12.34', '1:02.5', 'HJ', 'PEN', '5K', '60H68cm6.5m']

def tables_and_patterns(ctx, athlib):
    from athlib import codes
    from athlib.tyrving_score import _tyrvingTables
    from athlib.qkids_score import _qkidsTables, _compTypeMap
    from athlib.utils import FIELD_EVENT_RECORDS_BY_GENDER
    rep = js_run([['tables'], ['patterns']])
    T = rep[0][1] if rep[0][0] == 'json' else {}
    P = rep[1][1] if rep[1][0] == 'json' else {'regex': {}, 'values': {}, 'groups': {}}
    for name, pyv in (('tyrving', _tyrvingTables), ('qkids', _qkidsTables), ('compTypeMap', _compTypeMap)):
        d = deep_equal(pyv, T.get(name)) if T.get(name) is not None else 'table not found in the JS source'
        ctx.oblig('tables:%s JS == Python' % name, 'correspondence', d is None, d or '')
        if d:
            ctx.fail('js:tables', [name], 'equal to the Python table', 'differs at ' + d, note='table drift')
    # patterns.js is generated from athlib.codes by scripts/make-patterns-js.py: named groups become plain groups
    ngre = re.compile(r'\(\?P<[^>]+>')
    drift = []
    for n in codes.__all__:
        v = getattr(codes, n)
        if hasattr(v, 'pattern'):
            want = ngre.sub('(', v.pattern)
            got = P['regex'].get(n)
            if got is None:
                drift.append((n, 'missing in patterns.js', want, None))
            elif got[0].replace('\\/', '/') != want or got[1] != '':
                drift.append((n, 'pattern source differs', want, got[0]))
            elif dict(v.groupindex) and P['groups'].get(n) != dict(v.groupindex):
                drift.append((n, 'group index map differs', json.dumps(dict(v.groupindex)), json.dumps(P['groups'].get(n))))
        else:
            if n not in P['values']:
                drift.append((n, 'missing in patterns.js', json.dumps(v), None))
            elif deep_equal(list(v), P['values'][n]):
                drift.append((n, 'list differs', json.dumps(list(v)), json.dumps(P['values'][n])))
    if 'FIELD_EVENT_RECORDS_BY_GENDER' in P['values'] and deep_equal(FIELD_EVENT_RECORDS_BY_GENDER, P['values']['FIELD_EVENT_RECORDS_BY_GENDER']):
        drift.append(('FIELD_EVENT_RECORDS_BY_GENDER', 'value differs', '', ''))
    ctx.count(len(codes.__all__) + 3, 'table_and_pattern_objects_compared')
    # a drifted pattern is reported with a behavioural witness where the probe set has one
    rx = [d for d in drift if d[1] == 'pattern source differs']
    mreqs = [['match', d[0], c] for d in rx for c in PROBE_CODES]
    mres = iter(js_run(mreqs))
    for d in drift:
        wit = ''
        if d[1] == 'pattern source differs':
            for c in PROBE_CODES:
                j = next(mres)
                p = bool(getattr(codes, d[0]).match(c))
                if not wit and j != ['bool', p]:
                    wit = '; e.g. %r: python %s, js %s' % (c, 'matches' if p else 'does not match', show(j))
        ctx.fail('js:patterns.js', [d[0]], 'the source generated from athlib.codes: %s' % (d[2] or '')[:160], (d[3] or 'absent')[:160],
                 note=d[1] + wit)
    ctx.stats['patterns_js_drifted_names'] = [d[0] for d in drift]
    ctx.oblig('tables:patterns.js == generated from athlib.codes', 'correspondence', not drift, ', '.join(d[0] for d in drift))
    return T


def run(ctx):
    ctx.rule = ('the C06 request sets (round-up strings x precision, durations x precision, h:m:s texts) + hand-timing texts, each run through '
                'Python, node and the Lean model; normalizeEventCode on every Tyrving/QuadKids table key (+ lower case, padded); tyrvingScore over every '
                '(gender, event, age) x the 0.01 grid +-15 % around the base performance (quick: ~60 marks per cell; thorough: every grid mark up to 3000 per cell; the C06 sets at reduced size: full decimal alphabet to 3+3 digits at precisions 0 and 2, every third ms to 2 h) '
                'as 2-decimal text, number, 1-decimal (hand-timed) text, m:ss text, integers, + out-of-range ages and spellings; qkidsScore over every table x '
                'the grid from 1.5 below to 1.5 above the table range; both tables and every export of patterns.js compared with the Python objects; '
                'non-trivial = every request')
    ctx.trusted += ['node 20 (number formatting, parseInt/parseFloat, RegExp) and tools/jsload.js (vm loader that rewrites the ES import lines)',
                    'tools/times_common.py (domains, canonical forms)',
                    'the canonicalisation of refusals: Python raises <=> JS throws / returns NaN / returns undefined']
    ctx.assumptions += ['shared domain of roundUpStrNum: integer part + precision <= 15 digits (the JS increment is a double; C18_js_int_exact); longer strings are compared Python <-> model only',
                        'shared domain of parseHms: the modelled field grammar (sign, ASCII digits, one point) with fields of <= 15 characters (integer results below 2^53 must be exact, larger ones within 2^-50); other texts (exponents, white space, underscores, hex, inf/nan, Unicode digits) are counted, not judged',
                        'Tyrving/QuadKids marks use "." as the decimal separator (the JS port also accepts ","; Python does not)',
                        'agreement is established by the correspondences on the requests that were run; no theorem speaks about node or CPython']
    ok, log, failed = ctx.build(['AthlibVerif.Props.C18'])
    if ok:
        P = 'AthlibVerif.Props.C18.'
        ctx.audit(['AthlibVerif.Props.C18'], [P + t for t in THEOREMS])
        if not ctx.quick():
            ctx.leanchecker(['AthlibVerif.Props.C18'])
    vlib.use_repo()
    import athlib
    n = stream_rus(ctx, athlib)
    n += stream_fmt(ctx, athlib)
    n += stream_hms(ctx, athlib)
    n += stream_hand(ctx, athlib)
    T = tables_and_patterns(ctx, athlib)
    from athlib.tyrving_score import _tyrvingTables
    from athlib.qkids_score import _qkidsTables, _compTypeMap
    keys = sorted({k for t in _tyrvingTables.values() for k in t} | {k for t in _qkidsTables.values() for k in t})
    nreq = [(k,) for k in keys] + [(k.lower(),) for k in keys] + [(' ' + k + ' ',) for k in keys] + [(k.upper(),) for k in keys]
    # unit spellings of the keys: a kilogram key 'DT1K' typed 'DT1KG', 'DT1Kg', 'DT1kG', 'DT1kg', 'DT1 KG', 'DT1.0K', 'DT1.K'
    # (all accepted by the pattern); gram keys with and without 'g'; centimetre / metre hurdle specifications are in `spaced`
    units = []
    for k in keys:
        if k.endswith('K') and len(k) > 2 and (k[-2].isdigit()):
            stem = k[:-1]
            for suf in ('KG', 'Kg', 'kG', 'kg', 'k', ' KG', ' kg', ' K'):
                units.append((stem + suf,))
            if '.' not in stem[2:]:
                units += [(stem + '.0K',), (stem + '.K',), (stem + '.00KG',)]
            else:
                units += [(stem + '0K',), (stem + '00kg',)]
        elif k[-1].isdigit() and k[:2] in ('JT', 'OT'):
            units += [(k + 'g',), (k + ' g',)]
        if 'cm' in k:
            for a, b in (('cm', 'CM'), ('cm', 'Cm'), ('cm', 'cM'), ('cm', ' cm'), ('cm', '.0cm'), ('cm', '0cm')):
                units.append((k.replace(a, b, 1),))
            if k.endswith('m') and not k.endswith('cm'):
                units += [(k[:-1] + 'M',), (k[:-1] + ' m',), (k[:-1] + ('0m' if '.' in k[-5:] else '.00m'),)]
    nreq = list(dict.fromkeys(nreq + units))
    ctx.stats['norm_unit_spellings'] = len(units)
    # spellings with white space inside (between the distance and what follows, before a unit), each asked three times
    # in a row and then once more later: an answer must not depend on the calls before it (a sticky regular expression,
    # a memo) on either side
    spaced = []
    for k in keys:
        cut = [i for i in range(1, len(k)) if k[i - 1].isdigit() != k[i].isdigit()]
        for i in cut[:3]:
            spaced.append((k[:i] + ' ' + k[i:],))
            spaced.append((k[:i] + '\t' + k[i:],))
        if len(cut) >= 2:
            spaced.append((k[:cut[0]] + ' ' + k[cut[0]:cut[1]] + '  ' + k[cut[1]:],))
    spaced = list(dict.fromkeys(spaced))
    nreq = nreq + [x for sp in spaced for x in (sp, sp, sp)] + spaced
    direct(ctx, 'normalizeEventCode', nreq, athlib.normalize_event_code, 'norm', 'athlib.normalize_event_code(%r)')
    tr = ty_requests(ctx, _tyrvingTables)
    direct(ctx, 'tyrvingScore', tr, athlib.tyrving_score, 'ty', 'athlib.tyrving_score(%r, %r, %r, %r)')
    qr = qk_requests(ctx, _qkidsTables, _compTypeMap)
    direct(ctx, 'qkidsScore', qr, athlib.qkids_score, 'qk', 'athlib.qkids_score(%r, %r, %r)')
    ctx.distinct = set(range(n + len(nreq) + len(set(tr)) + len(set(qr))))
    ctx.exhaustive = False
    from checks.c06 import diversify
    diversify(ctx)
