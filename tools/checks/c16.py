"""C16 — concurrent calls give the same answers as single-threaded ones.

Lean: Model/Conc.lean (threads as step machines over a shared store, runSched along any schedule),
Props/C16.lean (the repaired protocols are linearizable for every schedule and any number of threads; the
pinned protocols are refuted by kernel-decided counter-schedules).
Tie T: tools/gen_access.py extracts the ordered shared-state accesses of the anchored functions from the
Python ast into Gen/SharedAccess.lean; Oblig/C16/Discipline.lean kernel-decides that they obey the publication
discipline the proved protocols assume.
Tie C: tools/sched.py runs the REAL functions on real threads under every schedule with 1 (quick) / 2
(thorough) forced pre-emptions at source-line granularity; each thread's result must be what some
single-threaded order of the same calls gives from the same initial state.
"""
import sys, os, io, contextlib, itertools, importlib
import subprocess, json
import vlib, sched

DUMMY = '__c16_dummy__'
ANCHOR_MODULES = ['athlib', 'athlib.athlon_score', 'athlib.hungarian_score', 'athlib.sportshall_score',
                  'athlib.utils', 'athlib.wma.agegrader']

# ---- the calls -------------------------------------------------------------------------------------------
# (name, group, expression).  Calls in one group share module state.
CALLS = [
    ('as_m100',  'athlon', "athlib.athlon_score('M', '100', 10.5)"),
    ('as_flj',   'athlon', "athlib.athlon_score('F', 'LJ', 6.0)"),
    ('as_age',   'athlon', "athlib.athlon_score('M', '100', 12.5, 50)"),
    ('as_unk',   'athlon', "athlib.athlon_score('X', '100', 10.5)"),
    ('as_esaa',  'athlon', "athlib.athlon_score('M', '800', 130.0, esaa=True)"),      # the one row with an option of its own
    ('ap_m100',  'athlon', "athlib.athlon_performance_needed('M', '100', 975)"),
    ('ap_fhj',   'athlon', "athlib.athlon_performance_needed('F', 'HJ', 900)"),
    ('hs_m100',  'hungarian', "athlib.hungarian_score('M', 'OUT', '100', 10.5)"),
    ('hs_flj',   'hungarian', "athlib.hungarian_score('F', 'OUT', 'LJ', 6.0)"),
    ('hs_last',  'hungarian', "athlib.hungarian_score('F', 'IND', 'TJ', 13.0)"),
    ('hs_unk',   'hungarian', "athlib.hungarian_score('M', 'IND', '100', 10.5)"),
    ('sh_slj',   'sportshall', "athlib.sportshall_score('SLJ', '2.83')"),       # beyond the table: computed from the increment
    ('sh_100',   'sportshall', "athlib.sportshall_score('100', '23.3')"),
    ('sh_slj_in', 'sportshall', "athlib.sportshall_score('SLJ', '2.07')"),      # inside the table: found by the search over the shared rows
    ('sh_100_in', 'sportshall', "athlib.sportshall_score('100', '15.5')"),
    ('sh_shj',   'sportshall', "athlib.sportshall_score('SHJ', '0.45')"),        # the one column kept in another unit in the source table
    ('sh_unk',   'sportshall', "athlib.sportshall_score('XXX', '1')"),
    ('af_m100',  'wma', "athlib.wma_age_factor('M', 50, '100')"),
    ('af_f5k',   'wma', "athlib.wma_age_factor('F', 62, '5K')"),
    ('af_m7k',   'wma', "athlib.wma_age_factor('m', 47, '7K')"),
    ('af_fhj',   'wma', "athlib.wma_age_factor('f', 71, 'HJ')"),
    ('af_m52h',  'wma', "athlib.wma_age_factor('M', 52.5, '5K')"),          # part-year ages: between two columns of the table
    ('af_m70q',  'wma', "athlib.wma_age_factor('M', 70.25, '5K')"),
    ('wb_m5k',   'wma', "athlib.wma_world_best('m', '5K')"),
    ('wb_f7k',   'wma', "athlib.wma_world_best('f', '7K')"),
    ('gr_m5k',   'wma', "athlib.wma_age_grade('m', 50, '5K', '16:23')"),
    ('gr_f7k',   'wma', "athlib.wma_age_grade('f', 44, '7K', '30:00')"),
    ('gr_fhj',   'wma', "athlib.wma_age_grade('f', 71, 'HJ', '1.20')"),               # a field event: graded mark / standard, not standard / time
    ('wb_mlj',   'wma', "athlib.wma_world_best('m', 'LJ')"),
    ('af15_m100', 'wma15', "athlib.wma_age_factor('M', 50, '100', year=2015)"),
    ('af15_f5k',  'wma15', "athlib.wma_age_factor('F', 62, '5K', year=2015)"),
    ('gr15_m5k',  'wma15', "athlib.wma_age_grade('m', 50, '5K', '16:23', year=2015)"),
    ('aaf_m60h', 'aag', "athlib.wma_athlon_age_factor('M', 66, '60H')"),
    ('aaf_flj',  'aag', "athlib.wma_athlon_age_factor('f', 69, 'LJ')"),
    ('aaf_young', 'aag', "athlib.wma_athlon_age_factor('M', 30, '100')"),
    ('aag_m60h', 'aag', "athlib.wma_athlon_age_grade('m', 66, '60H', '9.5')"),
    ('aag_bad',  'aag', "athlib.wma_athlon_age_grade('M', 66, '60H', '9.5')"),
    ('sv_meta',  'cache', "U.schema_valid('json/metaschema.json')"),
    ('sv_perf',  'cache', "U.schema_valid('json/performance.json')"),
    ('sv_race4', 'cache', "U.schema_valid('json/race.json', validator=jsonschema.Draft4Validator)"),
    ('vs_ath',   'cache', "U.valid_against_schema('sample-jsons/athlete.json', 'json/athlete.json')"),
    ('vs_perf',  'cache', "U.valid_against_schema('sample-jsons/performance.json', 'json/performance.json')"),
    ('vs_bad',   'cache', "U.valid_against_schema('sample-jsons/athlete_invalid.json', 'json/athlete.json')"),
    ('vs_bad_ef', 'cache', "U.valid_against_schema('sample-jsons/athlete_invalid.json', 'json/athlete.json', expect_failure=True)"),
    ('sv_bad_ef', 'cache', "U.schema_valid('json/athlete.json', validator=jsonschema.Draft3Validator, expect_failure=True)"),
    ('sv_bad',   'cache', "U.schema_valid('json/athlete.json', validator=jsonschema.Draft3Validator)"),
]
# the plain twin of an expect_failure call: run beforehand it leaves the failure in the cache (variant 'bad-cached')
TWIN = {'vs_bad_ef': 'vs_bad', 'sv_bad_ef': 'sv_bad'}
CALL = {c[0]: c for c in CALLS}

# state variants: name -> (number of dummy entries put in every cache dict, which calls are run once
# sequentially beforehand: 'none' | 'all' | 'first')
VARIANTS = {
    'first': (0, 'none'), 'warm': (0, 'all'), 'warm-first': (0, 'first'),
    'c19': (19, 'none'), 'c20': (20, 'none'), 'c19+first': (19, 'first'), 'c18+all': (18, 'all'),
    'bad-cached': (0, 'twin'), 'c19+bad-cached': (19, 'twin'),
}
LAZY_VARIANTS = ['first', 'warm', 'warm-first']
CACHE_VARIANTS = ['first', 'c19', 'c20', 'c19+first', 'c18+all', 'warm']

# pairs that are always run (both tiers); the rest of the in-group pairs is sampled (quick) / all (thorough)
CORE_PAIRS = [
    ('as_m100', 'as_flj'), ('as_m100', 'as_m100'), ('as_flj', 'ap_m100'), ('ap_m100', 'ap_fhj'), ('as_age', 'as_unk'), ('as_m100', 'as_esaa'),
    ('hs_m100', 'hs_flj'), ('hs_m100', 'hs_m100'), ('hs_last', 'hs_unk'),
    ('sh_slj', 'sh_100'), ('sh_slj', 'sh_unk'), ('sh_slj_in', 'sh_slj_in'), ('sh_100_in', 'sh_100_in'), ('sh_shj', 'sh_shj'), ('sh_shj', 'sh_slj_in'),
    ('af_m100', 'af_f5k'), ('af_m100', 'af_m100'), ('af_m7k', 'af_fhj'), ('af_m52h', 'af_m70q'), ('af_m52h', 'af_m100'), ('wb_m5k', 'wb_f7k'), ('wb_f7k', 'af_m7k'),
    ('gr_m5k', 'gr_f7k'), ('gr_m5k', 'af_f5k'), ('gr_m5k', 'gr_fhj'), ('gr_m5k', 'wb_mlj'),
    ('af15_m100', 'af15_f5k'), ('gr15_m5k', 'af15_f5k'),
    ('aaf_m60h', 'aaf_flj'), ('aaf_m60h', 'aaf_m60h'), ('aag_m60h', 'aaf_flj'), ('aaf_young', 'aag_bad'),
    ('sv_meta', 'sv_perf'), ('sv_perf', 'sv_meta'), ('sv_meta', 'sv_meta'), ('sv_race4', 'vs_ath'), ('vs_ath', 'vs_perf'),
    ('vs_perf', 'vs_ath'), ('vs_bad', 'vs_ath'), ('vs_ath', 'vs_ath'),
    ('vs_bad_ef', 'vs_bad_ef'), ('vs_bad', 'vs_bad_ef'), ('sv_bad_ef', 'sv_bad_ef'),
    ('sv_meta', 'sv_bad_ef'),      # a new key arrives at a full cache while an expect_failure caller re-checks a cached failure
]
# cross-group pairs (share nothing, or only the grader classes): a few, for completeness
CROSS_PAIRS = [('as_age', 'aaf_m60h'), ('af_m100', 'af15_m100'), ('as_m100', 'hs_m100'), ('sh_slj', 'sv_meta'),
               ('gr_m5k', 'aag_m60h')]
TRIPLES = [('as_m100', 'as_flj', 'ap_fhj', 'first'), ('hs_m100', 'hs_flj', 'hs_last', 'first'),
           ('af_m100', 'af_f5k', 'wb_f7k', 'warm'), ('af_m7k', 'gr_m5k', 'af_fhj', 'first'),
           ('aaf_m60h', 'aaf_flj', 'aag_m60h', 'warm'),
           ('sv_meta', 'sv_perf', 'sv_race4', 'c19'), ('vs_ath', 'vs_perf', 'sv_meta', 'c19+first'),
           ('sv_meta', 'sv_perf', 'sv_race4', 'c20')]


# ---- module state: discovery, snapshot, restore ----------------------------------------------------------
def _copy(v):
    if type(v) is dict: return dict(v)
    if type(v) is list: return list(v)
    if type(v) is set: return set(v)
    return v

def _lazy_like(v):
    return v is None or (type(v) in (dict, list, set) and len(v) == 0)


class World:
    """the athlib import under test + its lazily built state (found generically: module globals / class
    attributes that are None or an empty container right after import, and the instance dictionaries of the
    shared objects that athlib/__init__ creates from athlib classes)"""

    def __init__(self):
        for m in [m for m in sys.modules if m == 'athlib' or m.startswith('athlib.')]:
            del sys.modules[m]
        vlib.use_repo()
        self.athlib = importlib.import_module('athlib')
        self.mods = {}
        for n in ANCHOR_MODULES:
            try:
                self.mods[n] = importlib.import_module(n) if n not in sys.modules else sys.modules[n]
            except Exception:
                pass
        self.prefix = os.path.join(os.path.realpath(vlib.REPO), 'athlib') + os.sep
        f = os.path.realpath(self.athlib.__file__)
        if not f.startswith(self.prefix):
            self.prefix = os.path.dirname(f) + os.sep
        self.prefix_raw = os.path.dirname(self.athlib.__file__) + os.sep
        import jsonschema
        self.ns = {'athlib': self.athlib, 'U': self.mods.get('athlib.utils'), 'jsonschema': jsonschema}
        # shared instances
        self.instances = []
        for k, v in sorted(vars(self.athlib).items()):
            t = type(v)
            if (getattr(t, '__module__', '') or '').startswith('athlib') and not isinstance(v, type) \
                    and hasattr(v, '__dict__') and not callable(v) and not k.startswith('__'):
                if not any(v is i for _, i in self.instances):
                    self.instances.append((k, v))
        classes = []
        for _, inst in self.instances:
            for c in type(inst).__mro__:
                if (c.__module__ or '').startswith('athlib') and c not in classes:
                    classes.append(c)
        # locks first (so that the pristine snapshot already holds the cooperative locks)
        nss = [(n, vars(m)) for n, m in self.mods.items()] + [(k, vars(i)) for k, i in self.instances]
        self.locks = sched.patch_locks(nss)
        for c in classes:
            for k, v in list(vars(c).items()):
                if isinstance(v, sched._LOCK_TYPES):
                    setattr(c, k, sched.CoopLock()); self.locks.append((c.__name__, k))
        self.slots = []          # (owner, name) set with setattr
        for n, m in self.mods.items():
            for k, v in sorted(vars(m).items()):
                if not k.startswith('__') and _lazy_like(v):
                    self.slots.append((m, k))
        for c in classes:
            for k, v in sorted(vars(c).items()):
                if not k.startswith('__') and _lazy_like(v):
                    self.slots.append((c, k))
        self.cache_slots = [(o, k) for (o, k) in self.slots if type(getattr(o, k)) is dict]
        self.pristine = self.snapshot()
        self.code = {}

    def snapshot(self):
        return ([_copy(getattr(o, k)) for o, k in self.slots],
                [{k: _copy(v) for k, v in vars(i).items()} for _, i in self.instances])

    def restore(self, snap):
        for (o, k), v in zip(self.slots, snap[0]):
            setattr(o, k, _copy(v))
        for (_, i), d in zip(self.instances, snap[1]):
            vars(i).clear()
            vars(i).update({k: _copy(v) for k, v in d.items()})

    def thunk(self, name):
        if name not in self.code:
            self.code[name] = compile(CALL[name][2], '<c16:%s>' % name, 'eval')
        code = self.code[name]; ns = self.ns
        return lambda: eval(code, ns)

    def call(self, name):
        try:
            return canon(('ok', self.thunk(name)()))
        except Exception as e:
            return canon(('exc', type(e).__name__, str(e)))

    def prepare(self, variant, names):
        """build the initial state of a variant for the given calls and return its snapshot"""
        nd, warm = VARIANTS[variant]
        self.restore(self.pristine)
        for o, k in self.cache_slots:
            setattr(o, k, {(DUMMY, i): True for i in range(nd)})
        todo = {'none': [], 'all': list(names), 'first': list(names[:1]), 'twin': [TWIN[n] for n in names if n in TWIN]}[warm]
        for n in todo:
            self.call(n)
        return self.snapshot()

    def rel(self, filename):
        for p in (self.prefix_raw, self.prefix):
            if filename.startswith(p):
                return 'athlib/' + filename[len(p):]
        return filename

    def abs(self, relname):
        return os.path.join(os.path.dirname(self.prefix_raw.rstrip(os.sep)), relname)


def canon(r):
    """observable result of a call: value (repr) or exception class"""
    if r[0] == 'ok':
        return 'value ' + repr(r[1])
    if r[0] == 'exc':
        return 'raises ' + r[1]
    return 'internal ' + repr(r)


# ---- one case = calls + variant -------------------------------------------------------------------------
class Case:
    def __init__(self, w, names, variant):
        self.w = w; self.names = list(names); self.variant = variant
        self.snap = w.prepare(variant, self.names)
        n = len(self.names)
        # sequential oracle: every order of the calls, single-threaded, from the same state
        self.allowed = {}
        for perm in itertools.permutations(range(n)):
            w.restore(self.snap)
            res = [None] * n
            for i in perm:
                res[i] = w.call(self.names[i])
            self.allowed.setdefault(tuple(res), perm)
        self.solo = []
        for i in range(n):
            w.restore(self.snap)
            self.solo.append(w.call(self.names[i]))
        # pre-emption points: from the traces of each call alone, from the initial state and from the state
        # any other call of the case leaves behind (a thread takes that path when it starts late)
        self.points = []
        self.events = []
        for i in range(n):
            pts = []; seen = set(); nev = 0
            starts = [None] + [j for j in range(n) if j != i]
            for j in starts:
                w.restore(self.snap)
                if j is not None:
                    w.call(self.names[j])
                r, tr = sched.solo_trace(w.thunk(self.names[i]), w.prefix_raw)
                nev = max(nev, len(tr))
                for key, occ, fn in sched.points_of(tr):
                    if (key, occ) not in seen:
                        seen.add((key, occ)); pts.append((key, occ, fn))
            self.points.append(pts); self.events.append(nev)

    def run(self, directives, order):
        w = self.w
        w.restore(self.snap)
        s = sched.Sched([w.thunk(n) for n in self.names], directives, order=order, prefix=w.prefix_raw,
                        timeout=30.0)
        res = s.run()
        return tuple(canon(r) for r in res), s

    def schedules(self, npre, rng, cap):
        """yield (directives, order): every schedule with exactly `npre` forced pre-emptions (sampled down
        to `cap` with rng when there are more), plus the unforced orders"""
        n = len(self.names)
        out = []
        if npre == 1:
            for a in range(n):
                order = [(a + k) % n for k in range(n)]
                out.append(([], order))
                for key, occ, fn in self.points[a]:
                    out.append(([(a, key, occ, order[1])], order))
        else:
            combos = []
            for a in range(n):
                order = [(a + k) % n for k in range(n)]
                b = order[1]; c = order[2 % n]
                for p in self.points[a]:
                    for q in self.points[b]:
                        combos.append(([(a, p[0], p[1], b), (b, q[0], q[1], c)], order))
                if n >= 3:
                    # a is parked, b runs to its end, c starts and is pre-empted in turn, a resumes
                    for p in self.points[a]:
                        for q in self.points[c]:
                            combos.append(([(a, p[0], p[1], b), (c, q[0], q[1], a)], order))
            if len(combos) > cap:
                combos = rng.sample(combos, cap)
            out = combos
        return out


def describe(w, case, directives, s):
    pre = []
    for d in s.fired:
        tid, fn_, line, func, occ, to = d
        pre.append('thread %d (%s) pre-empted before %s:%d in %s (execution #%d of that line) -> thread %d runs'
                   % (tid, case.names[tid], w.rel(fn_), line, func, occ, to))
    return pre


def spec_of(w, case, directives, order):
    return {'calls': [CALL[n][2] for n in case.names], 'names': case.names, 'variant': case.variant, 'order': list(order),
            'directives': [[d[0], w.rel(d[1][0]), d[1][1], d[2], d[3]] for d in directives]}


CHILD = os.path.join(os.path.dirname(os.path.dirname(os.path.abspath(__file__))), 'c16_child.py')
_fresh_cache = {}
def fresh(spec):
    """run a spec in a fresh interpreter (fresh import of athlib); cached"""
    key = json.dumps(spec, sort_keys=True)
    if key not in _fresh_cache:
        p = subprocess.run([sys.executable, CHILD, key], capture_output=True, text=True, timeout=300, env=dict(os.environ))
        try:
            _fresh_cache[key] = json.loads(p.stdout.strip().split('\n')[-1])['results']
        except Exception:
            raise vlib.InternalError('c16 child failed: rc=%s %s' % (p.returncode, p.stderr[-600:]))
    return _fresh_cache[key]


def first_call_check(ctx, w, case, seen_fail):
    """the 'first' variant claims to re-create first-call state in-process; check it against really fresh interpreters
    and, where it does not hold (state the restore cannot rebuild: a consumed iterator, a closed file ...), explore the
    schedules of this case in fresh interpreters instead"""
    n = len(case.names)
    seq = [fresh({'names': [case.names[i]], 'order': [0], 'seq': True})[0] for i in range(n)]
    ctx.count(n, 'fresh_interpreter_runs')
    if list(case.solo) == seq:
        # the restore looks right from outside; state it cannot see (keys added to shared rows, per-thread settings made by
        # whoever built a table) may still differ: a spread of schedules is run in really fresh interpreters as well
        scheds = case.schedules(1, ctx.rng, 0)
        pick = scheds[::max(1, len(scheds) // 16)][:18]
        specs = [{'names': case.names, 'order': list(order), 'directives': [[d[0], w.rel(d[1][0]), d[1][1], d[2], d[3]] for d in directives]} for directives, order in pick]
        allowed = {tuple(fresh({'names': case.names, 'order': list(perm), 'seq': True})) for perm in itertools.permutations(range(n))}
        from concurrent.futures import ThreadPoolExecutor
        with ThreadPoolExecutor(max_workers=min(16, os.cpu_count() or 4)) as ex:
            results = list(ex.map(fresh, specs))
        ctx.count(len(specs), 'fresh_interpreter_runs')
        nbad = 0
        for sp, res in zip(specs, results):
            res = tuple(res)
            if res in allowed: continue
            nbad += 1
            sig = ('fresh', tuple(case.names))
            if sig in seen_fail: continue
            seen_fail.add(sig)
            ref = sorted(allowed)[0]
            ctx.fail('concurrent ' + ' || '.join(CALL[x][2] for x in case.names),
                     {'variant': 'first call in a fresh interpreter', 'threads': [CALL[x][2] for x in case.names], 'schedule': sp['directives'], 'start_order': sp['order']},
                     '; '.join('thread %d: %s' % (k, ref[k]) for k in range(n)), '; '.join('thread %d: %s' % (k, res[k]) for k in range(n)),
                     note='first calls in a fresh interpreter: the joint result is not that of any single-threaded order',
                     replay_py='from checks import c16\nresult = c16.fresh(%r)' % (sp,))
        ctx.stats['violating_schedules'] = ctx.stats.get('violating_schedules', 0) + nbad
        return nbad
    ctx.notes.append('first-call state of %s cannot be re-created in-process (restored: %r, fresh interpreter: %r): schedules run in fresh interpreters' % (case.names, case.solo, seq))
    allowed = set()
    for perm in itertools.permutations(range(n)):
        allowed.add(tuple(fresh({'names': case.names, 'order': list(perm), 'seq': True})))
    nbad = 0; nrun = 0
    scheds = case.schedules(1, ctx.rng, 0)
    for directives, order in scheds[:120]:
        sp = {'names': case.names, 'order': list(order), 'directives': [[d[0], w.rel(d[1][0]), d[1][1], d[2], d[3]] for d in directives]}
        res = tuple(fresh(sp)); nrun += 1
        ctx.count(1, 'fresh_interpreter_runs')
        if res in allowed: continue
        nbad += 1
        sig = ('fresh', tuple(case.names))
        if sig in seen_fail: continue
        seen_fail.add(sig)
        ref = sorted(allowed)[0]
        ctx.fail('concurrent ' + ' || '.join(CALL[x][2] for x in case.names),
                 {'variant': 'first call in a fresh interpreter', 'threads': [CALL[x][2] for x in case.names], 'schedule': sp['directives'], 'start_order': list(order)},
                 '; '.join('thread %d: %s' % (k, ref[k]) for k in range(n)), '; '.join('thread %d: %s' % (k, res[k]) for k in range(n)),
                 note='first calls in a fresh interpreter: the joint result is not that of any single-threaded order',
                 replay_py='from checks import c16\nresult = c16.fresh(%r)' % (sp,))
    ctx.stats['violating_schedules'] = ctx.stats.get('violating_schedules', 0) + nbad
    if nbad == 0:
        ctx.oblig('harness:first-call state re-created in-process equals a fresh interpreter', 'correspondence', False,
                  '%r: restored %r, fresh %r; %d schedules in fresh interpreters found nothing' % (case.names, case.solo, seq, nrun))
    return nbad


_world = None
def replay(spec):
    """re-run one recorded schedule (used by `vcheck.py --replay` through replay_py)"""
    global _world
    if _world is None:
        _world = World()
    w = _world
    with contextlib.redirect_stdout(io.StringIO()):
        case = Case(w, spec['names'], spec['variant'])
        directives = [(d[0], (w.abs(d[1]), d[2]), d[3], d[4]) for d in spec['directives']]
        res, s = case.run(directives, spec['order'])
    return {'results': dict(zip(spec['calls'], res)) if len(set(spec['calls'])) == len(res) else list(res),
            'single_threaded': case.solo, 'is_some_sequential_order': res in case.allowed,
            'pre-emptions': describe(w, case, directives, s)}


def explore(ctx, w, names, variant, npre, cap, seen_fail):
    case = Case(w, names, variant)
    if variant == 'first' and npre == 1 and tuple(names) in FRESH_CHECKED:
        first_call_check(ctx, w, case, seen_fail)
    scheds = case.schedules(npre, ctx.rng, cap)
    tag = '%s/%s' % (CALL[names[0]][1], variant)
    nbad = 0
    for directives, order in scheds:
        try:
            res, s = case.run(directives, order)
        except sched.Hang as e:
            raise vlib.InternalError('schedule hung (%s): %r' % (e, spec_of(w, case, directives, order)))
        ctx.count(1, 'schedules')
        fired = len(s.fired)
        ctx.stats['preemptions_fired'] = ctx.stats.get('preemptions_fired', 0) + fired
        if fired:
            ctx.seen((tuple(names), variant, tuple((d[0], d[1], d[2]) for d in directives), tuple(order)))
        if res in case.allowed:
            continue
        nbad += 1
        ctx.stats['violating_schedules'] = ctx.stats.get('violating_schedules', 0) + 1
        ctx.stats['violating:' + tag] = ctx.stats.get('violating:' + tag, 0) + 1
        wrong = [i for i in range(len(names)) if res[i] != case.solo[i]] or list(range(len(names)))
        # one record per kind of race: shared-state group, function in which the pre-emption fell, kind of wrong result
        where = tuple((w.rel(d[1]), d[3]) for d in s.fired[:1])
        sig = (tuple(sorted({CALL[n][1] for n in names})), where,
               tuple(sorted({res[i] if res[i].startswith('raises') else 'value' for i in wrong})))
        if sig in seen_fail:
            continue
        seen_fail.add(sig)
        sp = spec_of(w, case, directives, order)
        pre = describe(w, case, directives, s)
        i = wrong[0]
        ctx.fail('concurrent ' + ' || '.join(CALL[n][2] for n in names),
                 {'variant': variant, 'threads': sp['calls'], 'schedule': pre, 'start_order': list(order)},
                 '; '.join('thread %d: %s' % (k, case.solo[k]) for k in range(len(names))),
                 '; '.join('thread %d: %s' % (k, res[k]) for k in range(len(names))),
                 note='thread %d (%s) returned %s, single-threaded it returns %s; %s [state variant %s]'
                      % (i, CALL[names[i]][2], res[i], case.solo[i], '; '.join(pre) or 'no pre-emption fired', variant),
                 replay_py='from checks import c16\nresult = c16.replay(%r)' % (sp,))
    if len(ctx.samples) < 12 and scheds:
        d, o = scheds[len(scheds) // 2]
        ctx.sample({'calls': [CALL[n][2] for n in names], 'variant': variant, 'schedules': len(scheds),
                    'points_per_thread': [len(p) for p in case.points], 'line_events_per_thread': case.events,
                    'sequential_outcomes': sorted(case.allowed)[0:2]})
    return len(scheds), nbad


# cases whose in-process 'first' state is cross-checked against fresh interpreters (one per group of lazily built state)
FRESH_CHECKED = {('as_m100', 'as_flj'), ('as_flj', 'ap_m100'), ('hs_m100', 'hs_flj'), ('sh_slj', 'sh_100'), ('af_m100', 'af_f5k'), ('af15_m100', 'af15_f5k'),
                 ('aaf_m60h', 'aaf_flj'), ('sv_meta', 'sv_perf'), ('vs_ath', 'vs_perf')}


def variants_for(names):
    if any(n in TWIN for n in names): return CACHE_VARIANTS + ['bad-cached', 'c19+bad-cached']
    return CACHE_VARIANTS if any(CALL[n][1] == 'cache' for n in names) else LAZY_VARIANTS


GROUP_OF_MODULE = {'utils': ['cache'], 'athlon_score': ['athlon'], 'hungarian_score': ['hungarian'], 'sportshall_score': ['sportshall'],
                   'agegrader': ['wma', 'wma15'], 'athlonsagegrader': ['aag'], 'wma': ['wma', 'wma15', 'aag'], '__init__': ['wma', 'wma15', 'aag']}


def deep_plan(ctx, breaks):
    """the search for a failing schedule when the access discipline no longer checks: every core pair and triple of the
    groups whose functions break it, two forced pre-emptions, a large cap"""
    groups = set()
    for b in breaks:
        fn = b.split(':')[0]
        hit = [g for m, gs in GROUP_OF_MODULE.items() if m in fn.split('.') for g in gs]
        groups.update(hit or [c[1] for c in CALLS])
    items = []
    for t in TRIPLES:
        if CALL[t[0]][1] in groups:
            items.append((t[:3], t[3], 2, 4000))
    for pair in CORE_PAIRS:
        if CALL[pair[0]][1] in groups:
            for v in variants_for(pair):
                if not (pair[0] == pair[1] and v == 'warm-first'):
                    items.append((pair, v, 2, 1500))
    return items


def plan(ctx):
    """(names, variant, npre, cap) work items; deterministic for a seed"""
    rng = ctx.rng
    quick = ctx.quick()
    groups = {}
    for c in CALLS:
        groups.setdefault(c[1], []).append(c[0])
    core = list(CORE_PAIRS)
    others = []
    for g, ns in sorted(groups.items()):
        for a in ns:
            for b in ns:
                if (a, b) not in core and (g == 'cache' or a <= b) and not (g != 'cache' and (b, a) in core):
                    others.append((a, b))
    extra = rng.sample(others, min(len(others), 4)) if quick else others
    items = []
    for pair in core + extra + CROSS_PAIRS:
        for v in variants_for(pair):
            if quick and pair not in QUICK_FULL and v not in ('first', 'c19', 'c19+first', 'bad-cached'):
                continue
            if v == 'warm-first' and (quick or pair[0] == pair[1]):
                continue
            items.append((pair, v, 1, 0))
    for t in TRIPLES:
        items.append((t[:3], t[3], 1, 0))
    if not quick:
        for pair in core + CROSS_PAIRS:
            for v in variants_for(pair):
                if pair[0] == pair[1] and v == 'warm-first':
                    continue
                items.append((pair, v, 2, 450))
        for pair in rng.sample(others, min(len(others), 24)):
            items.append((pair, variants_for(pair)[0], 2, 300))
        for t in TRIPLES:
            items.append((t[:3], t[3], 2, 350))
    return items


# ---- static tie: shared-access discipline -----------------------------------------------------------------
def access_step(ctx):
    import gen_access
    try:
        text, side = gen_access.generate(vlib.REPO)
    except Exception as e:
        ctx.oblig('translate:shared accesses (tools/gen_access.py)', 'translator', False, repr(e))
        return None
    if vlib.write_if_changed(os.path.join(vlib.GEN, 'SharedAccess.lean'), text):
        ctx.notes.append('regenerated: SharedAccess.lean')
    return side


P = 'AthlibVerif.Props.C16.'
THEOREMS = [P + t for t in (
    'C16', 'C16_publish_after_build_linearizable', 'C16_published_table_complete', 'C16_publish_after_build_sequential',
    'C16_assign_after_build_linearizable', 'C16_assign_after_build_sequential',
    'C16_lookup_local_linearizable', 'C16_lookup_local_sequential', 'shared_scratch_sequential',
    'C16_cache_linearizable', 'C16_cache_bounded', 'C16_cache_sequential',
    'publish_empty_then_fill_not_linearizable', 'shared_scratch_not_linearizable',
    'cache_check_then_read_not_linearizable')] + [
    'AthlibVerif.Conc.runSched_inv', 'AthlibVerif.Access.noScratchReadBack_spec', 'AthlibVerif.Access.completedLocals_spec',
    'AthlibVerif.Access.noMutateOfPublished_spec', 'AthlibVerif.Access.lockedMutations_spec']
# pairs that get every state variant in the quick tier too (one or two per group of shared state)
QUICK_FULL = {('as_m100', 'as_flj'), ('hs_m100', 'hs_flj'), ('sh_slj', 'sh_100'), ('sh_slj_in', 'sh_slj_in'), ('sh_100_in', 'sh_100_in'), ('sh_shj', 'sh_shj'), ('af_m100', 'af_f5k'), ('wb_m5k', 'wb_f7k'),
              ('af15_m100', 'af15_f5k'), ('aaf_m60h', 'aaf_flj'), ('sv_meta', 'sv_perf'), ('vs_ath', 'vs_perf'), ('gr_m5k', 'af_f5k'),
              ('vs_bad_ef', 'vs_bad_ef'), ('sv_meta', 'sv_bad_ef')}


def run(ctx):
    ctx.rule = ('pairs (and a few triples) of calls among athlon_score, athlon_performance_needed, hungarian_score, '
                'sportshall_score, wma_age_factor/grade/world_best (2023 and 2015 graders), wma_athlon_age_factor/grade, '
                'schema_valid, valid_against_schema x state variants (first call: lazily built state reset; warmed up; '
                'caches filled to 18/19/20 entries) x every schedule with 1 forced pre-emption (quick) / 2 (thorough, '
                'sampled per case when above the cap) at the distinct (file,line) points a thread passes, loops by first, '
                'second and last iteration; distinct = distinct (calls, variant, schedule); non-trivial = the forced '
                'pre-emption fired')
    ctx.trusted += ['tools/sched.py (sys.settrace line events, baton passing; locks found in athlib module state are replaced '
                    'by cooperative locks)', 'tools/gen_access.py (Python ast -> ordered shared-state accesses, callees inlined)',
                    'CPython scheduler below source-line granularity (bytecode-level pre-emption, C-level dict atomicity, '
                    'free-threaded builds) is NOT modelled']
    ctx.assumptions += ['the step machines of Model/Conc.lean abstract one athlib source line (or one lock-protected block) to one atomic step; '
                        'the access-list discipline (Oblig/C16/Discipline) is the checked link between the source and that shape',
                        'results are compared as repr(value) / exception class; a call is correct when the joint outcome equals '
                        'that of some single-threaded order of the same calls from the same state']
    # ---- T: access lists + Lean -----------------------------------------------------------------------
    side = access_step(ctx)
    mods = ['AthlibVerif.Props.C16', 'AthlibVerif.Lemmas.Access'] + (['AthlibVerif.Oblig.C16.Discipline'] if side is not None else [])
    ok, log, failed = ctx.build(mods)
    if not ({'AthlibVerif.Props.C16', 'AthlibVerif.Lemmas.Access'} & set(failed)) and (ok or failed):
        ctx.audit(['AthlibVerif.Props.C16', 'AthlibVerif.Lemmas.Access'], THEOREMS)
        if ok and side is not None:
            ctx.audit(['AthlibVerif.Oblig.C16.Discipline'], ['AthlibVerif.Oblig.C16.discipline_ok'])
        if not ctx.quick():
            ctx.leanchecker(['AthlibVerif.Props.C16', 'AthlibVerif.Lemmas.Access'] + (['AthlibVerif.Oblig.C16.Discipline'] if ok and side is not None else []))
    if side is not None:
        ctx.stats['access_functions'] = side['functions']
        ctx.stats['access_entries'] = side['accesses']
        if not side['ok']:
            # make the broken obligation readable: which accesses break the discipline
            for o in ctx.obligations:
                if o['name'] == 'AthlibVerif.Oblig.C16.Discipline' and not o['ok']:
                    o['detail'] = ('discipline broken by: ' + '; '.join(side['breaks']))[:400]
            ctx.broken = [(n, ('discipline broken by: ' + '; '.join(side['breaks'])) if n == 'AthlibVerif.Oblig.C16.Discipline' else d)
                          for n, d in ctx.broken]
        try:
            model_step(ctx, side)
        except vlib.DriverBuildError as e:
            ctx.oblig('build:athdriver', 'lean-module', False, str(e)[-1500:])
    # ---- C: the real functions under the controlled scheduler --------------------------------------------
    w = World()
    if w.locks:
        ctx.notes.append('cooperative locks installed for: %s' % ', '.join('%s.%s' % l for l in w.locks))
    seen_fail = set()
    total = 0
    items = plan(ctx)
    ndeep = 0
    if side is not None and not side['ok'] and ctx.quick():
        deep = deep_plan(ctx, side['breaks'])
        ctx.notes.append('access discipline broken: searching up to %d more cases with two forced pre-emptions for a failing schedule' % len(deep))
        items = items + deep; ndeep = len(deep)
    import time as _time
    t_deep = None
    with contextlib.redirect_stdout(io.StringIO()):
        for idx, (names, variant, npre, cap) in enumerate(items):
            if ndeep and idx >= len(items) - ndeep:
                # the search for a replay: stop at the first failing schedule, and after ten minutes in any case
                # (the broken discipline is then reported without a failing schedule)
                if t_deep is None: t_deep = _time.time()
                if ctx.stats.get('violating_schedules') or _time.time() - t_deep > 600:
                    ctx.notes.append('search for a failing schedule stopped after %d of %d extra cases' % (idx - (len(items) - ndeep), ndeep))
                    break
            try:
                n, nbad = explore(ctx, w, names, variant, npre, cap, seen_fail)
            except sched.Hang as e:
                raise vlib.InternalError('scheduler hang while preparing %r/%s: %s' % (names, variant, e))
            total += n
            k = 'cases_%dpre' % npre
            ctx.stats[k] = ctx.stats.get(k, 0) + 1
    w.restore(w.pristine)
    if not ctx.stats.get('violating_schedules'):
        ctx.oblig('correspondence:every scheduled run equals a single-threaded order', 'correspondence', True)


def model_step(ctx, side):
    """the Lean step machines, run through the driver: bounded exploration of every schedule of small
    instances must agree with the theorems (repaired protocols: no bad schedule; pinned: one exists), and the
    protocol class the access lists put each anchored function in must match what the scheduler then finds"""
    reqs = []
    for proto in ('lazy', 'lazyPinned', 'assign', 'lookupLocal', 'lookupShared', 'cache', 'cachePinned'):
        for nthreads, depth in ((2, 9 if ctx.quick() else 11), (3, 7 if ctx.quick() else 8)):
            reqs.append('conc\texplore\t%s\t%d\t%d' % (proto, nthreads, depth))
    got = vlib.driver(reqs)
    ctx.count(len(reqs), 'model_explorations')
    bad = []
    for r, g in zip(reqs, got):
        proto = r.split('\t')[2]
        want_race = proto in ('lazyPinned', 'lookupShared', 'cachePinned')
        if g.startswith('error') or (g.startswith('race') != want_race):
            bad.append('%s -> %s' % (r.replace('\t', ' '), g))
    ctx.stats['model_exploration_replies'] = dict(zip([r.replace('\t', ' ') for r in reqs], got))
    ctx.oblig('correspondence:bounded exploration of the Lean step machines agrees with the theorems', 'correspondence',
              not bad, '; '.join(bad))
