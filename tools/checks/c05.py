"""C05 — a better performance never scores fewer points, in any scoring system.
Lean: Props/C05.lean — generic monotonicity theorems over parameters (power law incl. the age adjustment, the
Hungarian quadratic, Tyrving race / jump / three-piece, QuadKids, step tables, run-length tables) and the property
over the regenerated data as their conjunction with the kernel-decided side-conditions of Oblig/C05 and Oblig/C01.
Tie: T (tools/gen_junior.py, gen_tables.py) + the C01/C11 correspondences; the verdict on the IMPLEMENTATION comes
from a direct sweep of the real functions (this file): consecutive marks of every table's grid never lose points
when the mark improves, results are ints within the system's bounds, Tyrving manual <= automatic.
A table look-up that is off by a row but still monotone (a C11 defect) is deliberately not reported here."""
import os, json
import vlib, gen_junior
import junior_common as JC
import athlon_common as AC
from checks import c01, c11

THEOREMS = ['powerLaw_mono_track', 'powerLaw_mono_field', 'adjust_mono', 'powerLaw_mono', 'quadratic_mono_timed', 'quadratic_mono_field',
            'hungarian_mono', 'hungarian_pinned_rises', 'hungarian_pinned_negative', 'tyrving_race_mono', 'tyrving_jump_mono',
            'tyrving_stav_mono', 'tyrving_manual_le_auto', 'tyrving_calc_mono', 'qkids_mono', 'qkids_bounds', 'sportshall_mono',
            'bulgarian_mono', 'bulgarian_bounds', 'C05']
MODULES = ['AthlibVerif.Oblig.C01.Table', 'AthlibVerif.Oblig.C05.Tyrving', 'AthlibVerif.Oblig.C05.Tables', 'AthlibVerif.Props.C05']
AGES = [None, 52]


def units_athlon(L, side, ages):
    from athlib import codes
    out = []
    for r in side['table']:
        row = AC.Row(dict(gender=r['gender'], event_code=r['event_code'], A=r['A'], Z=r['Z'], X=r['X']))
        kind = AC.kind_of(codes, row.event)
        km = AC.kmax(row, kind)
        zk = row.z100 // 100 if kind == 'jump' else row.z100
        for a in ages:
            out.append(JC.Unit('ath', (row.gender, row.event, a), 0, km, [zk, zk // 2], kind == 'track'))
    return out


def describe(unit, v):
    """ctx.fail arguments for one violation tuple"""
    fn = JC.FN[unit.sys]
    key = list(unit.key)
    kind = v[0]
    if kind == 'mono':
        _, form, k1, a1, p1, k2, a2, p2 = v
        worse, better = ((k2, a2, p2), (k1, a1, p1)) if unit.timed else ((k1, a1, p1), (k2, a2, p2))
        return (fn, key + [worse[1], better[1]], 'points(better mark %s) >= points(worse mark %s) = %d' % (JC.s2(better[0]), JC.s2(worse[0]), worse[2]),
                '%d' % better[2], 'mono: %s form' % form,
                'result = (%s, %s)' % (JC.c05_replay(unit, worse[1]), JC.c05_replay(unit, better[1])))
    if kind == 'bounds':
        _, form, k, arg, p = v
        lo, hi = JC.BOUNDS[unit.sys]
        return (fn, key + [arg], 'an int in %s..%s' % (lo, '' if hi is None else hi), '%d' % p, 'bounds: %s form' % form, 'result = ' + JC.c05_replay(unit, arg))
    if kind == 'type':
        _, form, k, arg, r = v
        return (fn, key + [arg], 'an int', r, 'type: %s form' % form, 'result = ' + JC.c05_replay(unit, arg))
    if kind == 'manual':
        _, k, am, pm, aa, pa = v
        return (fn, key + [am, aa], 'hand-timed %r scores <= electronic %r = %d' % (am, aa, pa), '%d' % pm, 'manual: hand-timed text beats the electronic figure',
                'result = (%s, %s)' % (JC.c05_replay(unit, am), JC.c05_replay(unit, aa)))
    raise ValueError(kind)


def _sweep(ctx, unit, ks, call, label, replay):
    """monotone + bounds over ascending marks ks for one way of asking; returns the number of violations"""
    lo, hi = JC.BOUNDS[unit.sys]
    prev = None; bad = 0
    for k in ks:
        arg = k / 100.0
        r = JC.canon(lambda: call(arg))
        ctx.count(1, 'calls_variants')
        if not r.startswith('p '):
            prev = None; continue
        p = int(r[2:])
        if p < lo or (hi is not None and p > hi):
            bad += 1
            ctx.fail(JC.FN[unit.sys], list(unit.key) + [arg, label], 'an int in %s..%s' % (lo, '' if hi is None else hi), '%d' % p, note='bounds: ' + label, replay_py='result = ' + replay(arg))
        if prev is not None:
            pk, pp = prev
            if (pp < p) if unit.timed else (p < pp):
                bad += 1
                worse, better = ((k, p), (pk, pp)) if unit.timed else ((pk, pp), (k, p))
                if bad <= 3:
                    ctx.fail(JC.FN[unit.sys], list(unit.key) + [worse[0] / 100.0, better[0] / 100.0, label],
                             'points(better mark %s) >= points(worse mark %s) = %d' % (JC.s2(better[0]), JC.s2(worse[0]), worse[1]), '%d' % better[1],
                             note='mono: ' + label, replay_py='result = (%s, %s)' % (replay(worse[0] / 100.0), replay(better[0] / 100.0)))
        prev = (k, p)
    return bad


def spelling_pass(ctx, L, units):
    """the same tables asked for under lower-case event codes / genders (accepted spellings of the same event)"""
    A = L['athlib']; nv = 0; seen = set()
    for u in units:
        if u.sys == 'ty': g, ev, age = u.key; ident = (u.sys, g, ev)
        elif u.sys == 'ath': g, ev, age = u.key; ident = (u.sys, g, ev)
        else: ident = (u.sys,) + tuple(u.key)
        if ident in seen: continue
        seen.add(ident)
        ks = sorted(set([k for m in u.marks for k in (m - 1, m, m + 1) if u.lo <= k <= u.hi] + list(range(u.lo, u.hi + 1, max(1, (u.hi - u.lo) // 40)))))
        if u.sys == 'ty':
            call = lambda a: A.tyrving_score(g.lower(), age, ev.lower(), a); rp = lambda a: 'athlib.tyrving_score(%r, %r, %r, %r)' % (g.lower(), age, ev.lower(), a)
            if (g.lower(), ev.lower()) == (g, ev): continue
        elif u.sys == 'ath':
            call = lambda a: A.athlon_score(g.lower(), ev.lower(), a, age=age); rp = lambda a: 'athlib.athlon_score(%r, %r, %r, age=%r)' % (g.lower(), ev.lower(), a, age)
        elif u.sys == 'qk':
            ct, ev = u.key
            if ev.lower() == ev: continue
            call = lambda a: A.qkids_score(ct, ev.lower(), a); rp = lambda a: 'athlib.qkids_score(%r, %r, %r)' % (ct, ev.lower(), a)
        elif u.sys == 'sh':
            (code,) = u.key
            if code.lower() == code: continue
            call = lambda a: A.sportshall_score(code.lower(), a); rp = lambda a: 'athlib.sportshall_score(%r, %r)' % (code.lower(), a)
        elif u.sys == 'bg':
            ag, g, ev = u.key
            if (g.lower(), ev.lower()) == (g, ev): continue
            call = lambda a: A.bulgarian_score(ag, g, ev.lower(), a); rp = lambda a: 'athlib.bulgarian_score(%r, %r, %r, %r)' % (ag, g, ev.lower(), a)
        elif u.sys == 'hu':
            g, io, ev = u.key
            if ev.lower() == ev: continue
            call = lambda a: A.hungarian_score(g, io, ev.lower(), a); rp = lambda a: 'athlib.hungarian_score(%r, %r, %r, %r)' % (g, io, ev.lower(), a)
        else:
            continue
        nv += _sweep(ctx, u, ks, call, 'lower-case spelling of the event', rp)
    ctx.stats['tables_swept_in_lower_case'] = len(seen)
    return nv


def far_pass(ctx, L, units):
    """marks far beyond both ends of every table (to 5 x the best tabulated field mark, down to 0.01 for times, and far
    on the poor side): still monotone, still within bounds"""
    nv = 0; seen = set()
    for u in units:
        ident = (u.sys,) + tuple(u.key[:2] if u.sys in ('ty', 'ath') else u.key)
        if ident in seen: continue
        seen.add(ident)
        span = max(10, u.hi - u.lo)
        ks = sorted(set([max(1, u.lo - i * span // 8) for i in range(0, 9)] + [u.lo, u.hi] + [u.hi + i * span // 6 for i in range(1, 31)] +
                        [100, 101, 99, 1000, 999, 1001, 10000, 9999]))
        ks = [k for k in ks if k >= 1]
        call = JC.c05_call
        nv += _sweep(ctx, u, ks, (lambda a, u=u: JC.c05_call(L, u, a)()), 'marks far beyond the table', (lambda a, u=u: JC.c05_replay(u, a)))
        if u.sys == 'ty':
            # the calculator class behind tyrving_score, used directly (the anchored race / jump / stav points): the same points,
            # and never negative however poor the mark
            TS = L['tyrving_score']
            try:
                g_, ev_, age_ = u.key
                gk = L['athlib'].normalize_gender(g_)
                params = TS._tyrvingTables[gk][ev_]
                calc = TS.TyrvingCalculator(gk, ev_, params[0], params[1])
            except Exception:
                calc = None
            if calc is not None:
                for k in ks:
                    arg = k / 100.0
                    top = JC.canon(JC.c05_call(L, u, arg))
                    drc = JC.canon(lambda: calc.points(age_, arg))
                    ctx.count(2, 'calls_variants')
                    if top.startswith('p ') and drc != top:
                        nv += 1
                        ctx.fail('athlib.tyrving_score.TyrvingCalculator.points', list(u.key) + [arg], 'the points tyrving_score gives, %s (never negative)' % top[2:], drc,
                                 note='bounds: the calculator used directly',
                                 replay_py=('from athlib import tyrving_score as TS\np = TS._tyrvingTables[%r][%r]\nresult = (TS.TyrvingCalculator(%r, %r, p[0], p[1]).points(%r, %r), athlib.tyrving_score(%r, %r, %r, %r))'
                                            % (gk, ev_, gk, ev_, age_, arg, g_, age_, ev_, arg)))
                        break
        if u.sys == 'ty' and u.timed:
            # the same far marks as hand-timed texts (one decimal, whole seconds): still within bounds, still monotone
            lo_, hi_ = JC.BOUNDS[u.sys]
            for form in ('%d.%d', '%d'):
                prev = None
                for k in sorted({k - k % 10 for k in ks if k >= 10} if form == '%d.%d' else {k - k % 100 for k in ks if k >= 100}):
                    arg = form % ((k // 100, k % 100 // 10) if form == '%d.%d' else (k // 100,))
                    r = JC.canon(JC.c05_call(L, u, arg))
                    ctx.count(1, 'calls_variants')
                    if not r.startswith('p '):
                        prev = None; continue
                    pnt = int(r[2:])
                    if pnt < lo_ or (hi_ is not None and pnt > hi_):
                        nv += 1
                        ctx.fail(JC.FN[u.sys], list(u.key) + [arg, 'hand-timed text far beyond the table'], 'an int in %s..%s' % (lo_, '' if hi_ is None else hi_), '%d' % pnt,
                                 note='bounds: hand-timed text far beyond the table', replay_py='result = ' + JC.c05_replay(u, arg))
                    if prev is not None and pnt > prev[1]:
                        nv += 1
                        ctx.fail(JC.FN[u.sys], list(u.key) + [prev[0], arg], 'points(%s) <= points(%s) = %d (slower hand-timed mark)' % (arg, prev[0], prev[1]), '%d' % pnt,
                                 note='mono: hand-timed text far beyond the table', replay_py='result = (%s, %s)' % (JC.c05_replay(u, prev[0]), JC.c05_replay(u, arg)))
                    prev = (arg, pnt)
        if u.sys == 'ty' and u.timed:
            # marks of an hour and more written h:mm:ss.xx: the same points as the number and as m:ss.xx, and still monotone
            prevh = None
            for k in (359998, 359999, 360000, 360001, 360100, 365999, 366000, 400000, 719999, 720000, 1080000):
                hms = '%d:%02d:%02d.%02d' % (k // 360000, k % 360000 // 6000, k % 6000 // 100, k % 100)
                rs = [(a, JC.canon(JC.c05_call(L, u, a))) for a in (k / 100.0, JC.mss(k), hms)]
                ctx.count(3, 'calls_variants')
                if not all(r.startswith('p ') for _, r in rs): prevh = None; continue
                if len({r for _, r in rs}) != 1:
                    nv += 1
                    ctx.fail(JC.FN[u.sys], list(u.key) + [rs[0][0], rs[2][0]], 'the same points for %r, %r and %r' % tuple(a for a, _ in rs), ', '.join('%r -> %s' % (a, r[2:]) for a, r in rs),
                             note='form: an hour or more written h:mm:ss.xx', replay_py='result = (%s, %s, %s)' % tuple(JC.c05_replay(u, a) for a, _ in rs))
                pnt = int(rs[2][1][2:])
                if prevh is not None and pnt > prevh[1]:
                    nv += 1
                    ctx.fail(JC.FN[u.sys], list(u.key) + [prevh[0], hms], 'points(%s) <= points(%s) = %d (slower mark)' % (hms, prevh[0], prevh[1]), '%d' % pnt,
                             note='mono: an hour or more written h:mm:ss.xx', replay_py='result = (%s, %s)' % (JC.c05_replay(u, prevh[0]), JC.c05_replay(u, hms)))
                prevh = (hms, pnt)
    ctx.stats['tables_swept_far_beyond'] = len(seen)
    return nv


def history_pass(ctx, L):
    """the same table asked again after calls with other options: answers for a fixed event, gender and age must not depend
    on what was scored before (English Schools option of the boys' 800 m)"""
    A = L['athlib']; nv = 0
    u = JC.Unit('ath', ('M', '800', None), 9000, 26000, [], True)
    ks = list(range(u.lo, u.hi, 37))
    plain = lambda a: A.athlon_score('M', '800', a); esaa = lambda a: A.athlon_score('M', '800', a, esaa=True)
    first = {k: JC.canon(lambda: plain(k / 100.0)) for k in ks}
    firste = {k: JC.canon(lambda: esaa(k / 100.0)) for k in ks}
    for k in ks:
        for fn, want, label, rp in ((plain, first, 'plain call after esaa=True calls', 'athlib.athlon_score("M", "800", %r)'),
                                    (esaa, firste, 'esaa=True call after plain calls', 'athlib.athlon_score("M", "800", %r, esaa=True)')):
            r = JC.canon(lambda: fn(k / 100.0)); ctx.count(1, 'calls_variants')
            if r != want[k]:
                nv += 1
                if nv <= 4:
                    ctx.fail('athlib.athlon_score', ['M', '800', k / 100.0, label], want[k] + ' (the answer of the first call)', r,
                             note='history: the points for a fixed event, gender and mark changed after calls with the other option',
                             replay_py='a = ' + (rp % (k / 100.0)) + '\nfor x in (100.0, 120.0, 159.15): athlib.athlon_score("M", "800", x, esaa=True); athlib.athlon_score("M", "800", x)\nresult = (a, ' + (rp % (k / 100.0)) + ')')
    nv += _sweep(ctx, u, ks, plain, 'plain calls interleaved with esaa=True calls', lambda a: 'athlib.athlon_score("M", "800", %r)' % a)
    nv += _sweep(ctx, u, ks, esaa, 'esaa=True calls', lambda a: 'athlib.athlon_score("M", "800", %r, esaa=True)' % a)
    return nv


def run(ctx):
    ctx.rule = ('every table of every scoring system (Tyrving x age, QuadKids, Sportshall, Bulgarian, Hungarian, combined events with no age and age 52) '
                'x consecutive marks of the 0.01 grid (C11 grids; Hungarian: times 0..zero point, fields 0..1.5 x record; combined events 0..2 s / m past the zero point), '
                'float and text forms; quick: QuadKids/Sportshall/Bulgarian whole grid, the others thresholds +-2 (+1), float-hazard marks, seeded stride; '
                'thorough: every adjacent pair of every grid; distinct non-trivial = consecutive pairs whose points differ')
    ctx.trusted += ['tools/gen_junior.py, tools/gen_tables.py (tables -> scaled integers)',
                    'the sweep compares the implementation with itself only (no model in the verdict); binary floating point is observed, not modelled']
    ctx.assumptions += ['Hungarian timed events: monotonicity is demanded only for marks no slower than the zero-point mark (-b), as the property says; the tail beyond it is observed and reported in the evidence only',
                        'combined events with a masters age: events without a WMA factor raise ValueError (no score to compare: skipped here; the refusal itself is the known finding C01-scored-row-without-age-factor)',
                        'an exception inside a grid is a C11/C01 matter (correspondence), not reported here; a non-int return value is']
    side = c11.gen_step(ctx)
    aside = c01.gen_step(ctx)
    if side is None or aside is None: return
    import gen
    gen.regex(ctx, ['PAT_RUN', 'PAT_JUMPS', 'PAT_THROWS'])
    ok, log, failed = ctx.build(MODULES)
    if ok:
        P = 'AthlibVerif.Props.C05.'
        ctx.audit(['AthlibVerif.Props.C05'], [P + t for t in THEOREMS])
        if not ctx.quick():
            ctx.leanchecker(['AthlibVerif.Props.C05'])
    L = JC.live()
    records = {}
    try:
        rec = L['utils'].FIELD_EVENT_RECORDS_BY_GENDER
        for g, d in rec.items():
            for ev, v in d.items(): records[(g[:1].upper(), ev)] = float(v)
    except Exception:
        pass
    hu_units = JC.units_hungarian(L, records)
    # monotonicity is demanded up to the zero point only; the tail is swept separately for the record
    hu_main = [JC.Unit('hu', u.key, 0, (u.hi - 300) if u.timed else u.hi, u.marks, u.timed) for u in hu_units]
    units = (JC.units_tyrving(L) + JC.units_qkids(L) + JC.units_sportshall(L) + JC.units_bulgarian(L) + hu_main +
             units_athlon(L, aside, AGES))
    tasks = JC.split_tasks(units, ctx.quick(), ctx.rng, sampled=('ty', 'hu', 'ath'), stride=lambda u: 23 if u.sys == 'ty' else 11,
                           hazard_mod=lambda u: 4 if u.sys == 'ty' else 7, plus_one=True, overlap=1)     # overlap: no pair is lost at a chunk border
    results = JC.pool_map(JC.work_c05, tasks)
    nv = 0; pairs = 0; strict = 0
    for unit, res in results:
        ctx.count(res['calls'], 'calls_' + unit.sys)
        ctx.stats['pairs_' + unit.sys] = ctx.stats.get('pairs_' + unit.sys, 0) + res['pairs']
        ctx.stats['adjacent_pairs'] = ctx.stats.get('adjacent_pairs', 0) + res['adjacent']
        ctx.stats['errors_skipped'] = ctx.stats.get('errors_skipped', 0) + res['errors']
        pairs += res['pairs']; strict += res['strict']; nv += res['nviol']
        for v in res['viol']:
            fn, args, exp, got, note, rp = describe(unit, v)
            if res['nviol'] > 1: note += '; %d violations in this table' % res['nviol']
            ctx.fail(fn, args, exp, got, note=note, replay_py=rp)
    nv += spelling_pass(ctx, L, units)
    nv += far_pass(ctx, L, units)
    nv += history_pass(ctx, L)
    ctx.stats['tables'] = len(units); ctx.stats['violations_seen'] = nv
    ctx.distinct = set(range(strict))
    # Hungarian: the repaired model against the code (evidence only: C05 is decided by the sweep above), and the tail
    lines = []; meta = []
    for u in hu_units:
        for k in sorted(set(list(range(u.lo, u.hi + 1, 97)) + u.marks)):
            if k <= u.hi:
                lines.append(JC.model_line('hu', u.key, k)); meta.append((u, k))
    model = vlib.driver_parallel(lines)
    agree = off1 = other = 0; tail = set()
    for (u, k), mo in zip(meta, model):
        im = JC.canon(JC.impl_call(L, 'hu', u.key, k / 100.0))
        want = 'p ' + mo.split()[1] if mo.startswith('p ') else mo
        if im == want: agree += 1
        elif im.startswith('p ') and want.startswith('p ') and abs(int(im[2:]) - int(want[2:])) <= 1: off1 += 1
        else: other += 1
        if u.timed and k > u.hi - 300 and im.startswith('p ') and int(im[2:]) > 0: tail.add(u.key)
    ctx.count(len(lines), 'hungarian_model_lines')
    ctx.stats['hungarian_model_agree'] = agree; ctx.stats['hungarian_model_off_by_one_float'] = off1; ctx.stats['hungarian_model_other'] = other
    ctx.stats['hungarian_tables_scoring_past_zero_point'] = len(tail)
    if tail:
        ctx.notes.append('Hungarian: %d timed tables give points to marks slower than the zero point (outside the range the property states; not a verdict)' % len(tail))
    if nv == 0:
        ctx.oblig('sweep:adjacent marks never lose points; ints within bounds; manual <= automatic', 'oracle', True)
    for unit, res in results[:6]:
        ctx.sample({'table': [unit.sys] + [str(x) for x in unit.key], 'grid': [unit.lo, unit.hi], 'calls': res['calls'], 'pairs': res['pairs'], 'violations': res['nviol']})
    ctx.exhaustive = not ctx.quick()
