"""C14 — WMA age grading is defined, consistent and spelling-independent on its domain.
Lean: Props/C14.lean (factor positivity, grade definition, unit, monotone, letter case, gender spelling,
clamp to the last column — for every table passing the decidable side-conditions) + Oblig/C14/* (the
side-conditions kernel-decided on the regenerated tables);
tie: tables regenerated from the three JSON files (T, dumped back entry by entry) + correspondence of the
five public wrappers with the exact rational model (C), floats within 1e-9 relative;
plus the property's clauses checked directly on the implementation's own answers."""
import math
from fractions import Fraction
import vlib
import wma_common as W
import wma_harness as H

GENDERS = {'m': ['m', 'M', 'male', 'Male', 'MALE', 'mAN', 'masculine', 'Men'],
           'f': ['f', 'F', 'female', 'Female', 'FEMALE', 'fEMME', 'feminine', 'F35']}
MULTS = [Fraction(1, 2), Fraction(4, 5), Fraction(9, 10), Fraction(99, 100), Fraction(1), Fraction(101, 100),
         Fraction(11, 10), Fraction(5, 4), Fraction(2)]
THEOREMS = ['C14_interp_pos', 'C14_factor_pos', 'C14_athlon_factor_pos', 'C14_best_pos_tabulated', 'C14_grade_def',
            'C14_grade_def_conv', 'C14_unit', 'C14_grade_mono', 'C14_case_insensitive', 'C14_case_tabulated',
            'C14_gender_spelling', 'C14_gender_first_letter', 'C14_gender_reject', 'C14_clamp_last',
            'C14_clamp_last_cell', 'C14_factor_pos_2015', 'C14_factor_pos_2023', 'C14_factor_pos_athlons',
            'C14_clamp_last_2015', 'C14_clamp_last_2023', 'C14_case_tabulated_all',
            'pinned_world_best_rejects_accepted_spellings', 'pinned_first_column_undefined']
OBLIGS = ['factors_ok_2015', 'bests_ok_2015', 'factors_ok_2023', 'bests_ok_2023', 'factors_ok_athlons',
          'spelling_ok_2015_m', 'spelling_ok_2015_f', 'spelling_ok_2023_m', 'spelling_ok_2023_f',
          'spelling_ok_athlons_m', 'spelling_ok_athlons_f']


class Limiter:
    """record at most `cap` failing inputs per (function, note) class, count the rest"""
    def __init__(self, ctx, cap=150):
        self.ctx = ctx; self.cap = cap; self.seen = {}; self.real = ctx.fail
    def __call__(self, fn, args, expected, got, note='', replay_py=None):
        k = (fn, note)
        self.seen[k] = self.seen.get(k, 0) + 1
        if self.seen[k] <= self.cap:
            self.real(fn, args, expected, got, note, replay_py)
    def done(self):
        self.ctx.fail = self.real
        over = {'%s [%s]' % k: v for k, v in self.seen.items()}
        if over:
            self.ctx.stats['failing_inputs_by_class'] = over


def marks_for(best):
    """~9 performances (hundredths) around the open best, strictly increasing, all positive"""
    ks = sorted({max(1, int(best * m * 100)) for m in MULTS})
    return ks


def build_requests(ctx, T, codes):
    quick = ctx.quick()
    rng = ctx.rng
    reqs = []          # request tuples
    groups = []        # (kind, info, [indices]) for the property oracles on the implementation
    gi = rng.randrange(8 * 9 * 23)      # seeded phase of the rotations (gender spelling, performance, text forms)
    for y in W.YEARS:
        t = T[y]
        last = t.ages[-1]
        for g in 'mf':
            for row in t.rows[g]:
                a0 = t.first_nonnull_age(g, row.event)
                if a0 is None:
                    continue
                ks = marks_for(row.best)
                kbest = int(row.best * 100) if (row.best * 100).denominator == 1 else None
                mixed = ''.join(ch.lower() if i % 2 else ch.upper() for i, ch in enumerate(row.event))     # 'Hj', '5kW', 'MiLe'
                for ev in dict.fromkeys((row.event, W.ascii_lower(row.event), mixed)):
                    if ev == mixed and quick and ev not in (row.event, W.ascii_lower(row.event)) and (gi + len(reqs)) % 3: continue
                    bi = len(reqs)
                    reqs.append(('best', y, GENDERS[g][gi % 8], None, ev, None, '', None)); gi += 1
                    for a2 in range(2 * a0, 2 * (last + 20) + 1):
                        gsp = GENDERS[g][gi % 8]; gi += 1
                        fi = len(reqs)
                        reqs.append(('factor', y, gsp, a2, ev, None, '', None))
                        sel = [ks[gi % len(ks)]] if quick else ks
                        # unit clause: where the tabulated factor is exactly 1 grade the open best itself
                        col = a2 // 2 - t.ages[0]
                        if a2 % 2 == 0 and 0 <= col < len(row.facs) and row.facs[col] == 1 and kbest is not None \
                                and (not quick or gi % 3 == 0):
                            sel = sorted(set(sel) | {kbest})
                        gidx = []
                        for k in sel:
                            form = ''
                            r = gi % 23
                            if r == 0: form = 's'
                            elif r == 1 and W.timed(W.kind_of(codes, row.event)): form = 'c'
                            elif r == 2: form = 'f'
                            gidx.append(len(reqs))
                            reqs.append(('grade', y, gsp, a2, ev, k, form, None))
                        groups.append(('trio', (y, g, row.event, ev, a2, bi, fi), gidx))
    n_main = len(reqs)
    # ---- combined events
    t = T['athlons']
    hurd = ['100H', '110h', '80H', '400H', '300h', '200H', '150H', '60H']
    for g in 'mf':
        for row in t.rows[g]:
            for ev in dict.fromkeys((row.event, W.ascii_lower(row.event), ''.join(ch.lower() if i % 2 else ch.upper() for i, ch in enumerate(row.event)))):
                for a2 in range(70, 2 * (t.ages[-1] + 20) + 1):
                    reqs.append(('factor', 'athlons', GENDERS[g][gi % 8], a2, ev, None, '', None)); gi += 1
                for a2 in (0, 2, 40, 69):
                    reqs.append(('factor', 'athlons', GENDERS[g][gi % 8], a2, ev, None, '', None)); gi += 1
        for ev in hurd + ['5K', 'XYZ']:
            for a2 in (60, 70, 81, 133, 220, 260):
                reqs.append(('factor', 'athlons', GENDERS[g][gi % 8], a2, ev, None, '', None)); gi += 1
    n_ath = len(reqs)
    # combined-events grade: the table has no open bests (known finding), a small fixed sample
    for g in 'mf':
        for ev in ('100', 'LJ', 'SH', '1500'):
            for a2 in (80, 101):
                reqs.append(('grade', 'athlons', GENDERS[g][gi % 8], a2, ev, 1100, '', None)); gi += 1
    n_athg = len(reqs)
    # ---- glue: year spellings, age forms, None / 0 ages, ages below the first column, refused spellings
    evs = ['5K', '100', 'mar', 'HJ', 'sp', 'MILE', 'mile', '10000', '3KW']
    for y in ('s2015', 's2023', 'dflt', '2015', '2023'):
        for g in ('m', 'F'):
            for ev in evs:
                for a2 in (None, 0, 2, 9, 58, 81, 230):
                    reqs.append(('factor', y, g, a2, ev, None, 'f' if a2 and a2 % 4 == 2 else '', None))
                reqs.append(('best', y, g, None, ev, None, '', None))
                reqs.append(('grade', y, g, 81, ev, 1234, '', None))
    n_glue = len(reqs)
    for y in ('2015', '2023', 'athlons'):
        for g in ('', 'x', ' m', 'other', '1', 'M', 'f'):
            for ev in ('5K', '5m', '10m', 'XYZ', '', '4x100', 'DEC', 'hj'):
                reqs.append(('factor', y, g, 90, ev, None, '', None))
                if y != 'athlons':
                    reqs.append(('best', y, g, None, ev, None, '', None))
                    reqs.append(('grade', y, g, 90, ev, 1000, '', None))
    return reqs, groups, (n_main, n_ath, n_athg, n_glue)


def run(ctx):
    ctx.rule = ('both single-event tables x {m,f} x every tabulated event in upper and lower case x every integer and '
                'half-integer age from the first non-null column to last+20 x ~9 performances around the open best '
                '(0.5 .. 2 x, plus the open best itself where the tabulated factor is 1); gender spelling rotates over 8 '
                'spellings per gender; quick = one of the 9 performances per age (rotating), thorough = all; combined-events '
                'factors for every event, case and half-integer age 35 .. last+20 plus hurdles spellings; glue: string / '
                'default / integer year arguments, None / 0 ages, float and text performances, refused genders and codes. '
                'distinct = distinct request tuples; non-trivial = the implementation returned a number')
    ctx.trusted += ['tools/gen_wma.py (decimal TEXT of every JSON number -> scaled integers; validated by dumping every entry back through the driver)',
                    'tools/gen_regex.py (PAT_THROWS / PAT_JUMPS / PAT_TRACK / PAT_ROAD as used by event_code_to_kind)',
                    'binary floating point is NOT modelled: the model is exact rational arithmetic']
    ctx.assumptions += ['floats returned by the implementation are compared with the exact rational of the model within 1e-9 relative (implementation-vs-implementation clauses within 1e-12)',
                        'gender / event strings are ASCII (str.upper / str.lower modelled as ASCII case mapping)',
                        'ages below an event\'s first non-null column and codes without a kind are outside the property: the model says NoFactor / ValueError and any exception class of the implementation is accepted for NoFactor',
                        'the model is the REPAIRED behaviour of fixes/wma-*.diff; on a tree without them the differences are reported as violations']
    lim = Limiter(ctx); ctx.fail = lim
    try:
        _run(ctx)
    finally:
        lim.done()


def pinned_tables(ctx):
    """every cell of the three JSON files against the specification-side copy (the model is regenerated from the tree's
    own files, so an edited cell moves model and implementation together); runs before the translation so that a table
    the translator refuses is still judged on the implementation"""
    vlib.use_repo()
    import athlib
    import wma_pinned
    dd = wma_pinned.diffs(vlib.REPO)
    ctx.oblig('spec:WMA tables of the tree = the pinned copy of the published tables', 'correspondence', not dd,
              '' if not dd else '%d cells / rows differ, e.g. %r' % (len(dd), dd[0]))
    pinned_ = wma_pinned.load_pinned() if dd else None
    for f, g, ev, k, pv, lv in dd[:60]:
        if g is None or ev is None or k is None:
            continue                                   # header / row-order differences: the sweeps above and C15 look for the input
        year = {'wma-data-2015.json': 2015, 'wma-data-2023.json': 2023}.get(f)
        ages_ = pinned_[f]['ages']
        if year is None:                               # combined-events table: columns 1.. are the five-year bands
            if k - 1 >= len(ages_): continue
            age = ages_[k - 1]
            got = W.canon_py(lambda: athlib.wma_athlon_age_factor(g, age, ev))
            want = pv
            fn = 'athlib.wma_athlon_age_factor'; args = [g, age, ev]; rp = 'result = athlib.wma_athlon_age_factor(%r, %r, %r)' % (g, age, ev)
        elif k == 2:
            got = W.canon_py(lambda: athlib.wma_world_best(g, ev, year=year)); want = pv
            fn = 'athlib.wma_world_best'; args = [year, g, ev]; rp = 'result = athlib.wma_world_best(%r, %r, year=%d)' % (g, ev, year)
        elif k >= 3 and k - 3 < len(ages_):
            age = ages_[k - 3]
            got = W.canon_py(lambda: athlib.wma_age_factor(g, age, ev, year=year)); want = pv
            fn = 'athlib.wma_age_factor'; args = [year, g, age, ev]; rp = 'result = athlib.wma_age_factor(%r, %r, %r, year=%d)' % (g, age, ev, year)
        else:
            continue
        if want is None or isinstance(want, str): continue
        okv = got[0] == 'v' and abs(got[1] - float(want)) <= 1e-12 * max(1.0, abs(float(want)))
        if not okv:
            ctx.fail(fn, args, 'the tabulated value %r (published table, %s, row %s, column %d)' % (want, f, ev, k), H.show(got),
                     note='table-cell: the table of the tree differs from the published table', replay_py=rp)


def _run(ctx):
    pinned_tables(ctx)
    side = H.gen_step(ctx)
    if side is None:
        return
    ok, log, failed = ctx.build(H.OBLIG_C14 + ['AthlibVerif.Props.C14'])
    if ok:
        ctx.audit(['AthlibVerif.Props.C14'],
                  ['AthlibVerif.Props.C14.' + n for n in THEOREMS] + ['AthlibVerif.Oblig.C14.' + n for n in OBLIGS])
        if not ctx.quick():
            ctx.leanchecker(['AthlibVerif.Props.C14'])
    # ---- correspondence
    vlib.use_repo()
    import athlib
    from athlib import codes
    try:
        T = W.load_tables(vlib.REPO)
    except Exception as e:
        ctx.oblig('oracle:reading the WMA JSON files', 'translator', False, repr(e))
        return
    H.check_dump(ctx, T, side)
    reqs, groups, (n_main, n_ath, n_athg, n_glue) = build_requests(ctx, T, codes)
    vals, errs, bad, model = H.run(reqs, athlib, keep_model=True)
    ctx.count(len(reqs), 'request_lines')
    ctx.stats.update({'single_event_lines': n_main, 'combined_events_lines': n_athg - n_main, 'glue_lines': len(reqs) - n_athg})
    nd = 0; model_wrong = 0
    for i, mo in bad:
        rq = reqs[i]
        im = H.impl_of(vals, errs, i)
        if i >= n_glue and im[0] == 'e' and '/' not in mo:
            continue                                   # refused spelling: some exception on both sides
        if rq[1] == 'athlons' and rq[0] == 'grade':
            ctx.fail(H.fn_name(rq), H.human_args(rq), 'a grade built from an open best: (open best / factor) / time',
                     H.show(im), note='athlon-grade', replay_py=H.replay_py(rq))
            continue
        nd += 1
        want = H.oracle(T, codes, rq)
        mp = W.parse_reply(mo)
        same = (want == mp) or (want[0] == 'e' and mp[0] == 'e' and want[1] == mp[1])
        if not same:
            model_wrong += 1
            ctx.oblig('correspondence:Lean Wma model vs Python exact oracle', 'correspondence', False,
                      '%r: oracle %s, Lean model %s, implementation %s' % (rq, want, mo, H.show(im)))
            continue
        exp = ('%s (= %.12g)' % (mo, float(mp[1]))) if mp[0] == 'v' else mo
        ctx.fail(H.fn_name(rq), H.human_args(rq), exp, H.show(im), note=classify(rq, im, mp, T),
                 replay_py=H.replay_py(rq))
    ctx.stats['disagreements'] = nd
    if nd == 0:
        ctx.oblig('correspondence:wma_age_factor / wma_world_best / wma_age_grade / wma_athlon_age_factor vs Lean Wma model',
                  'correspondence', True)
    # ---- the Lean model against the independent Python oracle (exact equality) on a sample
    samp = ctx.rng.sample(range(len(reqs)), min(len(reqs), 6000 if ctx.quick() else 60000))
    nb = 0
    for i in samp:
        if reqs[i][1] == 'athlons' and reqs[i][0] == 'grade':
            continue
        want = H.oracle(T, codes, reqs[i]); mp = W.parse_reply(model[i])
        if not (want == mp or (want[0] == 'e' and mp[0] == 'e' and want[1] == mp[1])):
            nb += 1
            if nb <= 3:
                ctx.oblig('correspondence:Lean Wma model vs Python exact oracle', 'correspondence', False,
                          '%r: oracle %s, Lean model %s' % (reqs[i], want, model[i]))
    ctx.count(len(samp), 'oracle_crosscheck_lines')
    if nb == 0 and model_wrong == 0:
        ctx.oblig('correspondence:Lean Wma model vs Python exact oracle', 'correspondence', True)
    # ---- the property's clauses on the implementation's own answers
    property_oracles(ctx, T, codes, athlib, reqs, groups, vals, errs)
    nont = sum(1 for i in range(len(reqs)) if i not in errs)
    ctx.stats['nontrivial_lines'] = nont
    ctx.distinct = set(range(nont))
    for i in samp[:8]:
        ctx.sample({'request': [str(x) for x in reqs[i]], 'implementation': H.show(H.impl_of(vals, errs, i)), 'model': model[i]})
    ctx.exhaustive = not ctx.quick()


def classify(rq, im, mp, T):
    fn, y, g, a2, ev = rq[:5]
    if im[0] == 'e':
        if im[1] == 'KeyError': return 'gender spelling in world_best'
        if im[1] == 'TypeError' and fn in ('best', 'grade') and ev != W.ascii_upper(ev): return 'lower-case event in world_best'
        if im[1] == 'TypeError': return 'null neighbour column'
        if im[1] == 'ZeroDivisionError': return 'zero factor in the table'
        return 'raises'
    if fn in ('best', 'grade') and ev != W.ascii_upper(ev): return 'lower-case event in world_best'
    return 'value'


def property_oracles(ctx, T, codes, athlib, reqs, groups, vals, errs):
    """C14 stated directly on the implementation: defined and positive, grade = standard vs performance,
    unit, strictly monotone, letter case, gender spelling, clamp"""
    n = 0
    upper_of = {}      # (y, g, event, a2) -> (factor value, best value, {k: grade}) of the upper-case spelling
    pending_lower = []
    last_factor = {}
    for kind, info, gidx in groups:
        y, g, evU, ev, a2, bi, fi = info
        t = T[y]
        f = H.impl_of(vals, errs, fi); b = H.impl_of(vals, errs, bi)
        lower = ev != evU
        accepted = bool(codes.PAT_EVENT_CODE.match(ev))
        if lower and not accepted:
            continue                       # '5m' is five metres, not an event code: refusing it is fine
        n += 1
        args = [y, reqs[fi][2], a2 / 2.0, ev]
        if f[0] != 'v' or not (math.isfinite(f[1]) and f[1] > 0):
            ctx.fail(H.fn_name(reqs[fi]), args, 'a finite positive factor', H.show(f), note='defined', replay_py=H.replay_py(reqs[fi]))
            continue
        if b[0] != 'v' or not (math.isfinite(b[1]) and b[1] > 0):
            ctx.fail(H.fn_name(reqs[bi]), [y, reqs[bi][2], ev], 'a finite positive open best', H.show(b), note='defined', replay_py=H.replay_py(reqs[bi]))
            continue
        is_timed = W.timed(W.kind_of(codes, ev))
        std = b[1] / f[1]
        prev = None
        gr = {}; exact_form = set()
        for i in gidx:
            k = reqs[i][5]; v = H.impl_of(vals, errs, i)
            p = k / 100.0
            want = std / p if is_timed else p / std
            if v[0] != 'v' or abs(v[1] - want) > 1e-9 * abs(want):
                ctx.fail(H.fn_name(reqs[i]), args + [p], '%.12g = %s' % (want, '(best/factor)/time' if is_timed else 'mark/(best/factor)'),
                         H.show(v), note='grade-definition', replay_py=H.replay_py(reqs[i]))
                continue
            gr[k] = v[1]
            if reqs[i][6] == '': exact_form.add(k)
            if prev is not None and not ((v[1] < prev[1]) if is_timed else (v[1] > prev[1])):
                ctx.fail(H.fn_name(reqs[i]), args + [prev[0] / 100.0, p], 'the better performance grades strictly higher',
                         '%r then %r' % (prev[1], v[1]), note='monotone', replay_py=H.replay_py(reqs[i]))
            prev = (k, v[1])
        # unit
        row = t.row(g, evU)
        col = a2 // 2 - t.ages[0]
        if a2 % 2 == 0 and 0 <= col < len(row.facs) and row.facs[col] == 1:
            kb = row.best * 100
            # x / x is exactly 1.0 in binary floating point: a number-form mark must grade exactly 1.0 (text forms: within round-off)
            if kb.denominator == 1 and int(kb) in gr and (gr[int(kb)] != 1.0 if int(kb) in exact_form else abs(gr[int(kb)] - 1.0) > H.TIGHT):
                ctx.fail('athlib.wma_age_grade', args + [float(row.best)], '1.0 (factor is 1, performance is the open best)',
                         repr(gr[int(kb)]), note='unit')
        # letter case: same factor, best (and grades on common marks) as the tabulated spelling
        key = (y, g, evU, a2)
        if not lower:
            upper_of[key] = (f[1], b[1], gr)
        else:
            pending_lower.append((key, f[1], b[1], gr, reqs[fi], reqs[bi]))
        # clamp: ages past the last column give the last column's factor
        if a2 >= 2 * t.ages[-1]:
            k2 = (y, g, ev)
            if a2 == 2 * t.ages[-1]:
                last_factor[k2] = f[1]
            elif k2 in last_factor and f[1] != last_factor[k2]:
                ctx.fail(H.fn_name(reqs[fi]), args, 'the factor of the last age column, %r' % last_factor[k2], repr(f[1]), note='clamp',
                         replay_py=H.replay_py(reqs[fi]))
    for key, fv, bv, gr, rqf, rqb in pending_lower:
        u = upper_of.get(key)
        if u is None:
            continue
        if fv != u[0]:
            ctx.fail(H.fn_name(rqf), list(rqf[1:5]), 'the factor of the upper-case code, %r' % u[0], repr(fv), note='letter-case', replay_py=H.replay_py(rqf))
        if bv != u[1]:
            ctx.fail(H.fn_name(rqb), list(rqb[1:5]), 'the open best of the upper-case code, %r' % u[1], repr(bv), note='letter-case', replay_py=H.replay_py(rqb))
        for k, v in gr.items():
            if k in u[2] and abs(v - u[2][k]) > H.TIGHT * abs(v):      # the text forms of a performance differ by an ulp
                ctx.fail('athlib.wma_age_grade', list(rqf[1:5]) + [k / 100.0], 'the grade of the upper-case code, %r' % u[2][k], repr(v), note='letter-case')
    ctx.count(n, 'property_oracle_groups')
    # gender spelling: every accepted spelling gives identical answers (dedicated small sweep)
    ng = 0
    for y in W.YEARS:
        t = T[y]
        for g in 'mf':
            rows = t.rows[g] if not ctx.quick() else ctx.rng.sample(t.rows[g], 12)
            for row in rows:
                a0 = t.first_nonnull_age(g, row.event)
                for age in (a0, a0 + 0.5, 40, 67.5, t.ages[-1] + 7):
                    res = []
                    forms = list(GENDERS[g])
                    if age == 40:          # the same spellings handed over as str subclasses (a str-Enum member, a str with its own __str__)
                        forms += vlib.strlike_forms(GENDERS[g][0]) + vlib.strlike_forms(GENDERS[g][3])
                    for sp in forms:
                        res.append((W.canon_py(lambda: athlib.wma_age_factor(sp, age, row.event, year=int(y))),
                                    W.canon_py(lambda: athlib.wma_world_best(sp, row.event, year=int(y))),
                                    W.canon_py(lambda: athlib.wma_age_grade(sp, age, row.event, float(row.best), year=int(y)))))
                        ng += 3
                    for sp, r in zip(forms, res):
                        for j, fn in enumerate(('wma_age_factor', 'wma_world_best', 'wma_age_grade')):
                            if r[j] != res[0][j]:          # definedness itself is the 'defined' clause above
                                if type(sp) is str:
                                    rp = 'result = athlib.%s(%s)' % (fn, ', '.join(repr(x) for x in ([sp, age, row.event] if j == 0 else [sp, row.event] if j == 1 else [sp, age, row.event, float(row.best)])) + ', year=%s' % y)
                                else:
                                    rp = ('import enum\nclass Odd(str):\n    def __str__(self): return "Man:" + str.__str__(self)\n'
                                          'g = %s\nresult = athlib.%s(g, %s)' % (
                                              'enum.Enum("MastersText", {"MEMBER": %r}, type=str).MEMBER' % str.__str__(sp) if isinstance(sp, __import__('enum').Enum) else 'Odd(%r)' % str.__str__(sp),
                                              fn, ', '.join(repr(x) for x in ([age, row.event] if j == 0 else [row.event] if j == 1 else [age, row.event, float(row.best)])) + ', year=%s' % y))
                                ctx.fail('athlib.' + fn, [y, str.__repr__(sp) if type(sp) is str else '%s(%r)' % (type(sp).__name__, str.__str__(sp)), age, row.event],
                                         'the answer for gender %r: %s' % (GENDERS[g][0], H.show(res[0][j])),
                                         H.show(r[j]), note='gender-spelling' if type(sp) is str else 'gender handed over as a str subclass',
                                         replay_py=rp)
    ctx.count(ng, 'gender_spelling_calls')
    # ---- the year handed over as text, the way the wrappers' own declared defaults spell it ("2015", "2023"): the table of that year
    nyt = 0
    for g_ in ('m', 'f'):
        for ev_ in ('100', '5K', 'HJ'):
            for fn_, mk in (('wma_age_factor', lambda yy: athlib.wma_age_factor(g_, 50, ev_, year=yy)),
                            ('wma_world_best', lambda yy: athlib.wma_world_best(g_, ev_, year=yy)),
                            ('wma_age_grade', lambda yy: athlib.wma_age_grade(g_, 50, ev_, 12.5, year=yy))):
                for yy in (2015, 2023):
                    nyt += 1
                    a_ = W.canon_py(lambda: mk(yy)); b_ = W.canon_py(lambda: mk(str(yy)))
                    if a_ != b_:
                        ctx.fail('athlib.' + fn_, [g_, ev_, 'year=%r' % str(yy)], 'the answer of year=%d: %s' % (yy, H.show(a_)), H.show(b_),
                                 note='the year given as text selects another table',
                                 replay_py='result = (athlib.wma_age_factor(%r, 50, %r, year=%d), athlib.wma_age_factor(%r, 50, %r, year=%r))' % (g_, ev_, yy, g_, ev_, str(yy)))
    ctx.count(nyt, 'text_year_calls')
    # ---- the documented verbose switch only prints: the grade must be the quiet call's grade
    import io, contextlib
    nvb = 0
    for y in W.YEARS:
        t = T[y]
        for g in 'mf':
            rows = t.rows[g] if not ctx.quick() else ctx.rng.sample(t.rows[g], 14)
            for row in rows:
                a0 = t.first_nonnull_age(g, row.event)
                for age in (a0 + 0.5, 40, 52.5, 67.5, 83):
                    for mark in (float(row.best) * 1.0703125, float(row.best) * 0.93359375):
                        quiet = W.canon_py(lambda: athlib.wma_age_grade(g, age, row.event, mark, year=int(y)))
                        with contextlib.redirect_stdout(io.StringIO()):
                            loud = W.canon_py(lambda: athlib.wma_age_grade(g, age, row.event, mark, verbose=True, year=int(y)))
                        nvb += 2
                        if loud != quiet:
                            ctx.fail('athlib.wma_age_grade', [y, g, age, row.event, mark, 'verbose=True'], 'the grade without verbose: %s' % H.show(quiet), H.show(loud),
                                     note='the verbose option changes the grade',
                                     replay_py='result = (athlib.wma_age_grade(%r, %r, %r, %r, year=%s), athlib.wma_age_grade(%r, %r, %r, %r, verbose=True, year=%s))' % (g, age, row.event, mark, y, g, age, row.event, mark, y))
    ctx.count(nvb, 'verbose_calls')
    # ---- the order in which the three tables are first used must not matter: fresh interpreters that touch them in
    # different orders, asked for factors at and past the last columns, must agree with this process
    import subprocess, sys as _sys, json as _json
    qs = []
    for y in W.YEARS:
        t = T[y]
        for g in 'mf':
            for row in [r for r in t.rows[g] if r.event in ('100', 'LJ', 'MAR', '5K', 'SP')][:5]:
                for age in (99, 100, 100.5, 101, 104.5, 105, 109.5, 110, 112, 130):
                    qs.append(['factor', g, age, row.event, int(y)])
    for g in 'mf':
        for ev in ('100', 'LJ', 'SP', '1500'):
            for age in (99, 100, 104, 105, 106, 109, 110, 114, 130):
                qs.append(['athlon', g, age, ev, 0])
    code_ = ('import sys, json; sys.path.insert(0, %r); import athlib\n'
             'def c(f):\n'
             '    try: r = f()\n'
             '    except Exception as e: return ["e", type(e).__name__]\n'
             '    return ["v", r] if isinstance(r, (int, float)) and not isinstance(r, bool) else ["x", repr(r)[:60]]\n'
             'order, qs = json.loads(sys.stdin.read())\n'
             'for o in order:\n'
             '    c((lambda: athlib.wma_age_factor("m", 50, "100", year=o)) if o else (lambda: athlib.wma_athlon_age_factor("m", 50, "100")))\n'
             'print(json.dumps([c((lambda q=q: athlib.wma_age_factor(q[1], q[2], q[3], year=q[4])) if q[0] == "factor" else (lambda q=q: athlib.wma_athlon_age_factor(q[1], q[2], q[3]))) for q in qs]))\n') % (vlib.REPO,)
    here = [list(W.canon_py((lambda q=q: athlib.wma_age_factor(q[1], q[2], q[3], year=q[4])) if q[0] == 'factor' else (lambda q=q: athlib.wma_athlon_age_factor(q[1], q[2], q[3])))) for q in qs]
    orders = [[2015, 2023, 0], [2023, 0, 2015], [0, 2015, 2023], [2023, 2015, 0]]
    procs = [(o, subprocess.Popen([_sys.executable, '-c', code_], stdin=subprocess.PIPE, stdout=subprocess.PIPE, stderr=subprocess.PIPE, text=True)) for o in orders]
    nlo = 0
    for o, pr in procs:
        out_, err_ = pr.communicate(_json.dumps([o, qs]), timeout=600)
        try: res = _json.loads(out_.strip().split('\n')[-1])
        except Exception:
            ctx.oblig('fresh-interpreter table-order sweep', 'correspondence', False, (err_ or out_)[-300:]); continue
        for q, r, h in zip(qs, res, here):
            nlo += 1
            same = (r[0] == h[0]) and (r[1] == h[1] if r[0] != 'v' else abs(r[1] - h[1]) <= 1e-12 * abs(h[1]))
            if not same:
                ctx.fail('athlib.wma_age_factor' if q[0] == 'factor' else 'athlib.wma_athlon_age_factor', q[1:4] + ([q[4]] if q[0] == 'factor' else []) + ['tables first used in the order %r (0 = combined events)' % (o,)],
                         'the answer of this process: %r' % (h,), repr(r), note='the answer depends on the order in which the tables were first used',
                         replay_py='# fresh interpreter:\nfor o in %r:\n    (athlib.wma_age_factor("m", 50, "100", year=o) if o else athlib.wma_athlon_age_factor("m", 50, "100"))\nresult = %s' % (o, ('athlib.wma_age_factor(%r, %r, %r, year=%r)' % tuple(q[1:5])) if q[0] == 'factor' else ('athlib.wma_athlon_age_factor(%r, %r, %r)' % tuple(q[1:4]))))
    ctx.count(nlo, 'table_order_answers')
