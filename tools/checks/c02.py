"""C02 — High jump: only rule-conforming trials are recorded; refusals change nothing.
Lean: Props/C02.lean over the transcription Model/HJ.lean; tie: correspondence of the real
HighJumpCompetition with the model (every call of long random walks and of an exhaustive bounded
exploration of call sequences, legal and illegal), plus an independent referee written from the
property text that decides, on the implementation, acceptance / atomicity / phase order."""
import copy, collections
import vlib
import hj_common as H

STAGE = {'scheduled': 0, 'started': 1, 'jumpoff': 2, 'won': 2, 'finished': 3, 'drawn': 3}

def full_sig(c):
    """observable snapshot minus the log, plus the private bookkeeping (used only to de-duplicate explored states)"""
    s = H.snap(c).split('|')
    priv = ';'.join('%s%d%d%d%d%d' % (j.bib, j.eliminated, j.dismissed, j.round_lim, j.consecutive_failures, j._place) for j in c.jumpers)
    return '|'.join(s[:4]) + '#' + priv + '#' + ','.join(str(j.bib) for j in c.ranked_jumpers)

def alphabet(c, nmax):
    """every kind of call the property's alphabet names, relative to the current state"""
    ops = []
    n = len(c.jumpers)
    if n < nmax: ops.append(('add', n + 1))
    if n: ops.append(('add', 1))                                # duplicate bib
    last = int(c.heights[-1] * 100) if c.heights else 100
    ops += [('bar', last + 3), ('bar', last), ('bar', last - 2), ('bar', 0)]
    for b in range(1, n + 1):
        for t in 'oxpr':
            ops.append(('trial', b, t))
    return ops

class Judge:
    """per-call verdicts on the implementation, shared by walks and exploration"""
    def __init__(self, ctx, athlib):
        self.ctx = ctx; self.athlib = athlib
        self.kinds = collections.Counter()

    def call(self, c, ref, ops_so_far, op):
        """apply op to the real object, judge it; returns (outcome, reply line for the model comparison)"""
        athlib = self.athlib
        before = H.snap(c); st0 = c.state
        want = ref.allowed(op)
        # attempts already on the card at the current height, read off the card itself (no referee involved)
        ncell = None
        if op[0] == 'trial':
            for j in c.jumpers:
                if str(j.bib) == str(op[1]):
                    ncell = len(j.attempts_by_height[-1]) if c.heights and len(j.attempts_by_height) == len(c.heights) else 0
        was_out = {j.bib for j in c.jumpers if getattr(j, 'eliminated', False)}
        out = H.apply_op(athlib, c, op)
        after = H.snap(c)
        back = [j.bib for j in c.jumpers if j.bib in was_out and not getattr(j, 'eliminated', False)]
        hist = ops_so_far + [op]
        self.kinds[(op[0] if op[0] != 'trial' else op[2], out)] += 1
        def fail(expected, got, note):
            fl = getattr(c, '_verif_float', False)
            self.ctx.fail('HighJumpCompetition', H.fmt_ops(hist) + (['(bar heights passed as float)'] if fl else []), expected, got, note=note + (' [float heights]' if fl else ''), replay_py=H.replay_py(hist, fl, getattr(c, '_verif_scale', 100), getattr(c, '_verif_intbibs', False)))
        if out != 'ok' and after != before:
            fail('a refused call leaves every observable unchanged', 'before: %s / after: %s' % (before, after), 'refusal not atomic')
        if out not in ('ok', 'rule') and not (out == 'key' and want is None):
            fail('accepted, or refused with RuleViolation', out, 'wrong exception')
        if want is not None and out in ('ok', 'rule') and (out == 'ok') != want:
            fail('the rules %s this call (referee phase %s)' % ('allow' if want else 'forbid', ref.phase), out,
                 'accepted against the rules' if out == 'ok' else 'refused although the rules allow it')
        if out == 'ok':
            ref.record(op)
            if STAGE[c.state] < STAGE[st0]:
                fail('state only moves forward', '%s -> %s' % (st0, c.state), 'phase went backwards')
            if not ref.fuzzy and c.state != ref.phase:
                fail('state %s' % ref.phase, c.state, 'wrong state after an accepted call')
        if out == 'ok' and ncell is not None and ncell >= (1 if st0 == 'jumpoff' else 3):
            # the clause as such (theorems C02_attempts_at_height / C02_jumpoff_accepted_iff: holds in every reachable state of the model)
            fail('at most three attempts at a height, one in a jump-off: refused', 'accepted as attempt number %d at this height (state %s)' % (ncell + 1, st0),
                 'more attempts at a height than the rules give')
        if back and c.state != 'jumpoff':
            # theorem C02_back_only_with_one_attempt: in the model nobody who was out is in again unless a jump-off is on
            fail('an athlete who is out stays out unless re-instated for a jump-off', 'bib %s is back in, state %s' % (','.join(str(b) for b in back), c.state),
                 'out, then in again although no jump-off is on')
        if out == 'ok' and st0 != 'jumpoff' and c.state == 'jumpoff' and not any('o' in cell for j in c.jumpers for cell in j.attempts_by_height):
            # a jump-off breaks a tie for first place; athletes without a clearance have no place (C03: "unplaced"), so there is no such tie
            fail('finished (nobody has cleared a height: nobody is placed, there is no tie for first to break)', 'jumpoff',
                 'a jump-off is started among athletes none of whom has cleared a height')
        if st0 in ('finished', 'drawn') and out == 'ok':
            fail('nothing is accepted once finished or drawn', out, 'accepted in a terminal state')
        return out, out + '|' + after

def run(ctx):
    ctx.rule = ('call sequences over {add (new / duplicate bib), bar (higher / equal / lower / zero), cleared, failed, passed, retired} x every bib: '
                'exhaustive breadth-first exploration of all sequences (de-duplicated by full state) for 2 athletes to depth 8 (quick) / 3 athletes to depth 9 (thorough), '
                'every call in every explored state, + seeded random walks of length <= 60 with 1-4 athletes; distinct = distinct (state, call) pairs; '
                'non-trivial = all of them (each is one call judged by the referee and compared with the model)')
    ctx.trusted += ['tools/hj_common.py: snapshot of the public attributes, and the referee written from the property text (acceptance, phase)',
                    'athletes are registered with a bib only (no DQ/DNS order values)']
    ctx.assumptions += ['after a pass recorded inside a jump-off the property text does not settle who may still jump: the referee abstains there (model correspondence and atomicity are still checked)']
    ok, log, failed = ctx.build(['AthlibVerif.Props.C02'])
    if ok:
        P = 'AthlibVerif.Props.C02.'
        ctx.audit(['AthlibVerif.Props.C02'], [P + n for n in THEOREMS])
        if not ctx.quick():
            ctx.leanchecker(['AthlibVerif.Props.C02'])
    vlib.use_repo()
    import athlib
    judge = Judge(ctx, athlib)
    lines = []; expect = []; meta = []
    # ---- exhaustive bounded exploration --------------------------------------------------------
    nmax, depth = (2, 8) if ctx.quick() else (3, 9)
    budget = 6000 if ctx.quick() else 60000
    start = H.new_comp(athlib)
    frontier = [([], start, H.Ref())]
    seen = {full_sig(start)}
    nstates = 0; ntrans = 0
    for d in range(depth):
        nxt = []
        for path, c, ref in frontier:
            if nstates >= budget: break
            nstates += 1
            lines.append('hj\tnew'); expect.append('new'); meta.append(None)
            for op in path:
                lines.append(H.op_line(op)); expect.append(None); meta.append(None)
            for op in alphabet(c, nmax):
                c2 = copy.deepcopy(c); r2 = copy.deepcopy(ref)
                out, line = judge.call(c2, r2, path, op)
                ntrans += 1
                lines += ['hj\tpush', H.op_line(op), 'hj\tpop']; expect += ['pushed', line, 'popped']; meta += [None, (path, op), None]
                ctx.seen((full_sig(c), op))
                if out == 'ok':
                    sig = full_sig(c2)
                    if sig not in seen:
                        seen.add(sig); nxt.append((path + [op], c2, r2))
        frontier = nxt
    ctx.stats['explored_states'] = nstates; ctx.stats['explored_transitions'] = ntrans
    ctx.stats['exploration'] = '%d athletes, depth %d%s' % (nmax, depth, ' (budget reached)' if nstates >= budget else ' (complete)')
    # ---- seeded random walks --------------------------------------------------------------------
    rng = ctx.rng
    nwalks = 1500 if ctx.quick() else 40000
    for w in range(nwalks):
        mm = (w % 7 == 3)                    # millimetre heights (a converted imperial mark): the ops carry thousandths
        c = H.new_comp(athlib, float_heights=(w % 3 == 1), scale=1000 if mm else 100, int_bibs=(w % 5 == 2)); ref = H.Ref(); ops = []
        lines.append('hj\tnew'); expect.append('new'); meta.append(None)
        nb = rng.randint(1, 4); h = rng.choice([100, 100, 180, 200, 229, 50]) * (10 if mm else 1)
        for i in range(rng.randint(5, 60)):
            x = rng.random()
            if not c.heights and x < 0.5 and len(c.jumpers) < nb: op = ('add', len(c.jumpers) + 1 if (w % 2 == 0 or rng.random() < 0.7) else 0)
            elif x < 0.06: op = ('add', rng.randint(0 if w % 2 else 1, nb + 1))          # bib 0 = entered without a bib (default '0')
            elif x < 0.22:
                dlt = (rng.choice([4, 1, 2, 5, 9, 10, 13, 30, 0, -1, -3, -10]) if mm else rng.choice([3, 2, 5, 1, 1, 0, -2, -3])) if rng.random() < 0.9 else -h
                op = ('bar', h + dlt)
            else:
                op = ('trial', rng.randint(1, nb + (1 if rng.random() < 0.03 else 0)), rng.choice('oxxxxpr' if rng.random() < 0.75 else 'ooxpr'))
            sig = full_sig(c)
            out, line = judge.call(c, ref, ops, op)
            ctx.seen((sig, op))
            lines.append(H.op_line(op)); expect.append(line); meta.append((list(ops), op))
            ops.append(op)
            if out == 'ok' and op[0] == 'bar': h = op[1]
        # another way in: the competition rebuilt from its own action log must be the same competition, and answer the
        # next calls in the same way
        if w % 2 == 0 and not mm:
            try:
                c2 = c.from_actions(); c2._verif_float = c._verif_float; c2._verif_scale = c._verif_scale; c2._verif_intbibs = getattr(c, '_verif_intbibs', False)
                s1, s2 = H.snap(c), H.snap(c2)
                if s1 != s2:
                    ctx.fail('HighJumpCompetition.from_actions', H.fmt_ops(ops), s1, s2, note='the competition rebuilt from its action log differs',
                             replay_py=H.replay_py(ops, c._verif_float, getattr(c, '_verif_scale', 100), getattr(c, '_verif_intbibs', False)) + '\nc2 = c.from_actions()\nresult = (result, [(j.bib, j.attempts_by_height) for j in c2.jumpers])')
                else:
                    for _ in range(4):
                        op = ('trial', rng.randint(1, max(1, len(c.jumpers))), rng.choice('oxpr')) if rng.random() < 0.8 else ('bar', h + rng.choice([3, 0, -2]))
                        o1 = H.apply_op(athlib, c, op); o2 = H.apply_op(athlib, c2, op); ops.append(op)
                        if (o1, H.snap(c)) != (o2, H.snap(c2)):
                            ctx.fail('HighJumpCompetition.from_actions', H.fmt_ops(ops), o1 + ' / ' + H.snap(c), o2 + ' / ' + H.snap(c2),
                                     note='a call is answered differently by the competition rebuilt from the action log', replay_py=H.replay_py(ops, c._verif_float, getattr(c, '_verif_scale', 100), getattr(c, '_verif_intbibs', False)))
                            break
            except Exception as e:
                ctx.fail('HighJumpCompetition.from_actions', H.fmt_ops(ops), 'the same competition', '%s: %s' % (type(e).__name__, e), note='rebuilding from the action log raised',
                         replay_py=H.replay_py(ops, c._verif_float, getattr(c, '_verif_scale', 100), getattr(c, '_verif_intbibs', False)) + '\nresult = c.from_actions().state')
        if w < 3:
            ctx.sample({'walk': H.fmt_ops(ops), 'final_state': c.state})
    ctx.stats['walks'] = nwalks
    # ---- structured competitions through jump-offs, with forbidden probe calls after every height -------------
    nstruct = 1200 if ctx.quick() else 30000
    for w in range(nstruct):
        lines.append('hj\tnew'); expect.append('new'); meta.append(None)
        def on_call(c, ref, ops_so_far, op):
            sig = full_sig(c)
            out, line = judge.call(c, ref, ops_so_far, op)
            ctx.seen((sig, op))
            lines.append(H.op_line(op)); expect.append(line); meta.append((ops_so_far, op))
            return out
        tie_heavy = (w % 2 == 0)
        # every third competition also has passes inside the jump-off (the referee abstains from then on; the model does not):
        # the way to "everybody out with a single leader" inside a jump-off, where that leader alone is re-instated
        jo_pass = (w % 3 == 1)
        H.gen_competition(rng, athlib, nath=rng.randint(2, 4) if not jo_pass else rng.randint(2, 3), nheights=rng.randint(1, 3),
                          jo_heights=6 if jo_pass else 4,
                          att_choice=(lambda g: g.choice(['o', 'o', 'o', 'xo', 'xxx', 'xxx'])) if (tie_heavy or jo_pass) else None,
                          jo_letters=('oxrp', [4, 5, 1, 4]) if jo_pass else ('oxr', [4, 5, 1]),
                          on_call=on_call, probes=True)
    ctx.stats['structured_competitions'] = nstruct
    # ---- correspondence with the Lean model ---------------------------------------------------------
    got = vlib.driver(lines)
    nd = 0; ncmp = 0
    for e, g, m in zip(expect, got, meta):
        if e is None: continue
        if m is not None: ncmp += 1
        if e != g:
            nd += 1
            if nd <= 3:
                hist = (m[0] + [m[1]]) if m else []
                ctx.oblig('correspondence:HighJumpCompetition vs Lean HJ.step', 'correspondence', False,
                          'after %s: implementation %s | model %s' % (H.fmt_ops(hist), e, g))
    ctx.count(ncmp, 'calls_compared_with_model')
    ctx.stats['model_disagreements'] = nd
    if nd and not ctx.failures_new():
        # the model and the code part ways but no call was judged wrong yet: search on from the histories where they do
        hists = []
        for e, g, m in zip(expect, got, meta):
            if e is not None and m is not None and e != g:
                hists.append(m[0] + [m[1]])
                if len(hists) >= 6: break
        nsearch = 0
        for hist in hists:
            c = H.new_comp(athlib); ref = H.Ref(); done = []
            for op in hist:
                judge.call(c, ref, done, op); done.append(op)
            frontier = [(list(hist), c, ref)]; seen2 = {full_sig(c)}
            for d in range(3):
                nxt = []
                for path, c, ref in frontier:
                    for op in alphabet(c, len(c.jumpers)):
                        c2 = copy.deepcopy(c); r2 = copy.deepcopy(ref)
                        out, _ = judge.call(c2, r2, path, op); nsearch += 1
                        if out == 'ok' and full_sig(c2) not in seen2:
                            seen2.add(full_sig(c2)); nxt.append((path + [op], c2, r2))
                frontier = nxt[:400]
            if ctx.failures_new(): break
        ctx.count(nsearch, 'search_calls_from_diverging_histories')
    ctx.stats['calls_by_kind_and_outcome'] = {'%s/%s' % k: v for k, v in sorted(judge.kinds.items())}
    if nd == 0:
        ctx.oblig('correspondence:HighJumpCompetition vs Lean HJ.step', 'correspondence', True)

THEOREMS = ['C02_atomic', 'C02_log_only_accepted', 'C02_add_only_scheduled', 'C02_bar_rises_outside_jumpoff',
            'C02_attempt_limit', 'C02_no_trial_when_out', 'C02_refusal_is_rule_violation', 'C02_phase_forward',
            'C02_terminal_absorbing', 'inv_reachable', 'C02_terminal_absorbing_reachable', 'C02_phase_forward_reachable',
            'C02_refused_means_rule_violation', 'C02_add_before_first_height', 'wf_reachable', 'allFlags_reachable',
            'C02_card_shape', 'C02_flags_follow_card', 'C02_accepted_trial_open_cell', 'allConsec_reachable',
            'C02_three_consecutive_failures', 'C02_trial_accepted_iff_allowed', 'C02_trial_accepted_iff', 'C02_state_gate',
            'limInv_reachable', 'C02_limit_is_three_or_one', 'C02_attempts_at_height', 'C02_trial_accepted_iff_started',
            'C02_jumpoff_accepted_iff', 'C02_out_iff_card', 'C02_trial_accepted_iff_won', 'C02_won_others_refused', 'C02_back_only_with_one_attempt']
