"""C04 — Event-code families: unions are exact and measurement kinds never overlap.
Proof by reflection over the regenerated patterns (Props/C04.lean, Oblig/C04/*); tie = translator,
validated by differential execution of the Lean matcher against `re.match`."""
import re, json
import vlib, gen, strgen

EQS = {
    'EqEventCode': ('PAT_EVENT_CODE', ['PAT_TRACK', 'PAT_HURDLES', 'PAT_ROAD', 'PAT_RELAYS', 'PAT_JUMPS', 'PAT_THROWS',
                                       'PAT_MULTI', 'PAT_RACES_FOR_DISTANCE', 'PAT_HIGHSCORING_EVENT', 'PAT_LOWSCORING_EVENT']),
    'EqJumps': ('PAT_JUMPS', ['PAT_VERTICAL_JUMPS', 'PAT_HORIZONTAL_JUMPS']),
    'EqRun': ('PAT_RUN', ['PAT_TRACK', 'PAT_ROAD', 'PAT_RELAYS']),
    'EqField': ('PAT_FIELD', ['PAT_THROWS', 'PAT_JUMPS']),
    'EqLengthEvent': ('PAT_LENGTH_EVENT', ['PAT_HORIZONTAL_JUMPS', 'PAT_THROWS']),
    'EqTimedEvent': ('PAT_TIMED_EVENT', ['PAT_TRACK', 'PAT_HURDLES', 'PAT_ROAD', 'PAT_RELAYS']),
    'EqFinishRecord': ('PAT_FINISH_RECORD', ['PAT_PERF', 'PAT_FINISHED', 'PAT_NOT_FINISHED']),
}
DISJ = {
    'DisjTimedField': ('PAT_TIMED_EVENT', 'PAT_FIELD'), 'DisjTimedMulti': ('PAT_TIMED_EVENT', 'PAT_MULTI'),
    'DisjTimedDuration': ('PAT_TIMED_EVENT', 'PAT_RACES_FOR_DISTANCE'), 'DisjFieldMulti': ('PAT_FIELD', 'PAT_MULTI'),
    'DisjFieldDuration': ('PAT_FIELD', 'PAT_RACES_FOR_DISTANCE'), 'DisjMultiDuration': ('PAT_MULTI', 'PAT_RACES_FOR_DISTANCE'),
    'DisjJumpsThrows': ('PAT_JUMPS', 'PAT_THROWS'),
}
ALLPATS = sorted({p for a, bs in EQS.values() for p in [a] + bs} | {p for ab in DISJ.values() for p in ab})

def cps(s):
    return ' '.join(str(ord(c)) for c in s)

def run(ctx):
    ctx.rule = ('strings drawn from the syntax tree of every pattern of athlib.codes (every alternative forced once, '
                'digit runs 0-4, class members at interval end points incl. non-ASCII digits/white space) plus '
                'near-miss mutations; distinct = distinct strings; non-trivial = accepted by at least one pattern '
                'or a one-edit mutation of such a string')
    ctx.trusted += ['tools/gen_regex.py (CPython re._parser -> Lean RE), validated each run against re.match',
                    'CPython re engine as the meaning of the patterns']
    ctx.assumptions += ['patterns are used through .match/.search on fully anchored expressions (language semantics)']
    g = gen.regex(ctx, ALLPATS)
    if g is None:
        return
    side, alpha, trees, mod, changed = g
    P = {n: getattr(mod, n) for n in ALLPATS if hasattr(mod, n)}
    missing = [n for n in ALLPATS if n not in trees]
    # ---- 1. evaluate every checker at #eval speed (compiled driver) -----
    reqs = []; keys = []
    for k, (a, bs) in EQS.items():
        if a in trees and all(b in trees for b in bs):
            reqs.append('rx\teqcheck\t%s\t%s' % (a, ' '.join(bs))); keys.append(k)
    for k, (a, b) in DISJ.items():
        if a in trees and b in trees:
            reqs.append('rx\tdisjcheck\t%s\t%s' % (a, b)); keys.append(k)
    try:
        res = dict(zip(keys, vlib.driver(reqs)))
    except vlib.DriverBuildError as e:
        ctx.oblig('build:athdriver', 'lean-module', False, str(e)[-1500:])
        res = {}
    good = [k for k in keys if res.get(k) == 'true']
    bad = [k for k in keys if res.get(k) != 'true']
    # ---- 2. kernel-check the obligations that evaluate to true, and the property theorem ----
    if res and not bad and not missing:
        ok, log, failed = ctx.build(['AthlibVerif.Oblig.C04.' + k for k in good] + ['AthlibVerif.Props.C04'])
        if ok:
            ctx.audit(['AthlibVerif.Props.C04'], ['AthlibVerif.Props.C04.C04', 'AthlibVerif.symTable_covers', 'AthlibVerif.symOf_spec'])
            if not ctx.quick():
                ctx.leanchecker(['AthlibVerif.Props.C04', 'AthlibVerif.Lemmas.RegexSound'])
    elif good:
        ctx.build(['AthlibVerif.Oblig.C04.' + k for k in good])
    # ---- 3. SEARCH for the obligations that evaluate to false: shortest witness, replayed on re ----
    for k in bad:
        if k in EQS:
            a, bs = EQS[k]
            w = vlib.driver(['rx\twitness\tsymdiff\t%s\t%s' % (a, ' '.join(bs))])[0]
        else:
            a, b = DISJ[k]; bs = [b]
            w = vlib.driver(['rx\twitness\tand\t%s\t%s' % (a, b)])[0]
        found = False
        if w.startswith('word'):
            s = ''.join(chr(int(x)) for x in w.split()[1:])
            found = oracle(ctx, P, s, only=k)
        ctx.oblig('AthlibVerif.Oblig.C04.' + k, 'lean-module', False,
                  'checker evaluates to false; model witness %r %s' % (w, 'confirmed on re.match' if found else 'NOT confirmed on re.match'))
    # ---- 4. correspondence Lean matcher <-> re.match, and the property oracle on the same strings ----
    rng = ctx.rng
    chars = strgen.alphabet_chars(alpha)
    strings = set()
    per = 1500 if ctx.quick() else 20000
    for n in sorted(trees):
        t = trees[n]
        for v in strgen.all_alternatives(t):
            for _ in range(3):
                strings.add(strgen.gen(v, rng, alpha))
        for _ in range(per):
            strings.add(strgen.gen(t, rng, alpha))
    base = sorted(strings)
    for s in base:
        if rng.random() < (0.6 if ctx.quick() else 1.0):
            strings.add(strgen.mutate(s, rng, chars))
    for s in base:
        # letter-case forms of every generated string (a pattern compiled with other flags than its union shows here)
        for v in (s.lower(), s.upper(), s.swapcase(), s.title()):
            if v != s and rng.random() < (0.35 if ctx.quick() else 1.0): strings.add(v)
    for _ in range(2000):
        strings.add(''.join(rng.choice(chars) for _ in range(rng.randint(0, 6))))
    strings = sorted(strings)
    names = sorted(trees)
    reqs = []; exp = []
    compiled = {n: re.compile(side['patterns'][n]) for n in names}
    for s in strings:
        c = cps(s)
        nontriv = False
        for n in names:
            reqs.append('rx\tre\t%s\t%s' % (n, c))
            m = compiled[n].match(s) is not None
            exp.append('1' if m else '0')
            nontriv = nontriv or m
        ctx.seen(s)
    got = vlib.driver_parallel(reqs)
    ctx.count(len(reqs), 'matcher_vs_re_lines')
    dis = 0
    for i, (e, g_) in enumerate(zip(exp, got)):
        if e != g_:
            dis += 1
            if dis <= 5:
                s = strings[i // len(names)]; n = names[i % len(names)]
                ctx.oblig('correspondence:Lean accepts vs re.match', 'correspondence', False,
                          'pattern %s string %r (code points %s): re.match=%s Lean=%s' % (n, s, cps(s), e, g_))
    ctx.stats['matcher_vs_re_disagreements'] = dis
    if dis == 0:
        ctx.oblig('correspondence:Lean accepts vs re.match', 'correspondence', True)
    for s in strings[:6] + [x for x in strings if len(x) > 4][:6]:
        ctx.sample({'string': s, 'accepted_by': [n for n in names if compiled[n].match(s)]})
    # the property itself, directly on the implementation, for the same strings
    nf = 0
    for s in strings:
        if oracle(ctx, P, s):
            nf += 1
    ctx.count(len(strings), 'oracle_strings')
    ctx.stats['strings'] = len(strings)
    ctx.stats['accepted_by_event_code'] = sum(1 for s in strings if compiled.get('PAT_EVENT_CODE') and compiled['PAT_EVENT_CODE'].match(s))

def oracle(ctx, P, s, only=None):
    """does the implementation violate C04 on string s?  records the failing input"""
    bad = False
    def m(n):
        return P[n].match(s) is not None
    for k, (a, bs) in EQS.items():
        if only and k != only: continue
        if a not in P or any(b not in P for b in bs): continue
        lhs = m(a); rhs = any(m(b) for b in bs)
        if lhs != rhs:
            ctx.fail('codes.%s.match' % a, [s], 'accepts exactly when one of %s accepts (%s)' % (bs, rhs), lhs,
                     note='union not exact', replay_py='from athlib import codes\nresult = (codes.%s.match(%r) is not None, [n for n in %r if getattr(codes,n).match(%r)])' % (a, s, bs, s))
            bad = True
    if not only and 'PAT_EVENT_CODE' in P:
        # the public checker is the general pattern under another name
        try:
            if '_athlib' not in globals():
                vlib.use_repo()
                import athlib as _a
                globals()['_athlib'] = _a
            pub = _athlib.check_event_code(s) is not None
        except Exception as e:
            pub = 'raises ' + type(e).__name__
        if pub != m('PAT_EVENT_CODE'):
            ctx.fail('athlib.check_event_code', [s], 'accepts exactly when the general pattern does (%s)' % m('PAT_EVENT_CODE'), pub,
                     note='the public checker and the general pattern disagree',
                     replay_py='from athlib import codes\nresult = (athlib.check_event_code(%r) is not None, codes.PAT_EVENT_CODE.match(%r) is not None)' % (s, s))
            bad = True
    for k, (a, b) in DISJ.items():
        if only and k != only: continue
        if a not in P or b not in P: continue
        if m(a) and m(b):
            ctx.fail('codes.%s/%s.match' % (a, b), [s], 'never both', 'both match', note='kinds overlap',
                     replay_py='from athlib import codes\nresult = (codes.%s.match(%r) is not None, codes.%s.match(%r) is not None)' % (a, s, b, s))
            bad = True
    return bad
