"""C07 — event-code normalisation yields one canonical, valid, stable spelling.
Lean: Props/C07.lean (no white space in any result; refusal exactly when the pattern rejects; normaliser helpers) over Model/Codes.lean + regenerated patterns;
tie: translator (patterns, group map) validated against re (spans), correspondence of normalize_event_code with the
model over the enumerated language, and the property itself on the implementation (variants, near-misses)."""
import re
import vlib, gen, strgen
import codes_common as CC

THEOREMS = ['C07_no_space', 'C07_refuses', 'C07_accepts_only_codes', 'C07_only_value_error', 'C07_relay_shape',
            'normTz_spec', 'strip_last', 'C07_norm_kinds_end',
            'pyMatch_event_code', 'C07_accepts_iff_language', 'C07_accepts_iff_family', 'C07_refused_iff_not_code']
LEAN_MODULES = ['AthlibVerif.Oblig.C07.Tie', 'AthlibVerif.Props.C07']

SPEC_CODES = ['100', '60H', '110H', '400H84.0cm', '3000SC', '2000SC76.2cm', 'HJ', 'PV', 'LJ', 'TJ', 'SP7.26K', 'SP4K', 'DT1.5K', 'DT1K', 'HT7.26K',
              'JT800', 'JT600', 'WT15.88K', 'WT9.08K', '4x100', '4x400', '3x800', 'MILE', 'MAR', 'HM', '5K', '10K', '20KW', '3000W', '5M', 'DEC', 'HEP',
              'PEN', 'XC', 'SLJ', 'BT', 'OT', '24HR', '4x100H', '1.5M', '2.5K']
PUNCT = ',;:_!?#+*/=~\\'


def punct_refusals(ctx):
    """the refusal clause on strings no reading takes for an event code: a customary code with a punctuation mark
    put in place of a character or between two characters (the decimal comma 'DT1,5K', 'SP7:26K', '4x1_00', ...)"""
    vlib.use_repo()
    import athlib
    n = 0
    for c in SPEC_CODES:
        for i in range(len(c) + 1):
            for p in PUNCT:
                for t in ([c[:i] + p + c[i:]] + ([c[:i] + p + c[i + 1:]] if i < len(c) else [])):
                    n += 1
                    try:
                        r = athlib.normalize_event_code(t); st = 'accepted, normalised to %r' % r
                    except ValueError: continue
                    except Exception as e: st = type(e).__name__
                    ctx.fail('athlib.normalize_event_code', [t], 'ValueError (not an event code: %r with %r put in)' % (c, p), st, note='non-code not refused with ValueError',
                             replay_py='result = athlib.normalize_event_code(%r)' % t)
    # strings that look like templates to a formatting call (the refusal message is built from the rejected string)
    for t in ['{}', '{0}', '{DT}', 'DT{}', 'H{1}', '4x{100}', 'PEN{I}', '{kinds}', '%s', '%d', '%(a)s', '100%', 'DT%', '{', '}', '{{}}', '\\', '\x00', 'DT\x00', '$DT', '${DT}', '\\d+',
              '100' * 400, 'x' * 5000, '٣٠٠٠SC{}', '{!r}', '{:>10}', '{0.__class__}']:
        n += 1
        try:
            r = athlib.normalize_event_code(t); st = 'accepted, normalised to %r' % r
            from athlib import codes as _codes
            if _codes.PAT_EVENT_CODE.match(t.strip()): continue
        except ValueError: continue
        except Exception as e: st = type(e).__name__
        ctx.fail('athlib.normalize_event_code', [t], 'ValueError (not an event code)', st, note='non-code not refused with ValueError',
                 replay_py='result = athlib.normalize_event_code(%r)' % t)
    ctx.count(n, 'punctuation_near_misses')


# spellings with the canonical code the property's reading gives them (specification side, written by hand): units and
# trailing zeros of every throw family with a number, hurdle specifications, relays, letter case
SPEC_SPELLINGS = [('OT150', 'OT150'), ('OT400g', 'OT400'), ('ot150', 'OT150'), ('JT600g', 'JT600'), ('JT800', 'JT800'), ('jt700g', 'JT700'),
                  ('DT1.50Kg', 'DT1.5K'), ('dt 1.5 KG', 'DT1.5K'), ('CT 0.397kg', 'CT0.397K'), ('CT0.397k', 'CT0.397K'), ('BT1.0K', 'BT1K'),
                  ('BT 1 kg', 'BT1K'), ('ST3.25K', 'ST3.25K'), ('st 3.250 kg', 'ST3.25K'), ('GDT 20kg', 'GDT20K'), ('HT7.260KG', 'HT7.26K'),
                  ('SP 7.260 kg', 'SP7.26K'), ('sp4.00K', 'SP4K'), ('400H 84.0cm 8.50m', '400H84cm8.5m'), ('100H84.00cm', '100H84cm'),
                  ('4X400', '4x400'), ('3000 sc', '3000SC'), ('mile', 'MILE'), ('WT9.080K', 'WT9.08K'), ('HT4.00kg', 'HT4K')]


def spec_spellings(ctx):
    """implementation only (runs even when the translation fails): every listed spelling gives its canonical code, which is
    accepted and unchanged by normalising again"""
    vlib.use_repo()
    import athlib
    for sp, want in SPEC_SPELLINGS:
        rp = 'result = athlib.normalize_event_code(%r)' % sp
        try: got = athlib.normalize_event_code(sp)
        except Exception as e: got = 'raises ' + type(e).__name__
        ctx.count(1, 'spec_spellings')
        if got != want:
            ctx.fail('athlib.normalize_event_code', [sp], want, got, note='a customary spelling is not given its canonical code', replay_py=rp)
            continue
        try: again = athlib.normalize_event_code(got)
        except Exception as e: again = 'raises ' + type(e).__name__
        if again != got or not athlib.check_event_code(got):
            ctx.fail('athlib.normalize_event_code', [sp], '%s, accepted and unchanged by normalising again' % want, '%s -> %s' % (got, again),
                     note='the canonical code is not stable / not accepted', replay_py=rp.replace('result = ', 'r = ') + '\nresult = (r, athlib.normalize_event_code(r))')


def run(ctx):
    ctx.rule = ('the language of PAT_EVENT_CODE enumerated from its syntax tree (every alternative and optional part forced, digit runs 0-4 incl. non-ASCII digits, every white-space symbol) '
                '+ case / spacing / unit-suffix / trailing-zero variants of each code (kept when still accepted) + near-miss strings; distinct = distinct strings; '
                'non-trivial = accepted codes and their accepted variants')
    ctx.trusted += ['tools/gen_regex.py incl. the group map and the upper-casing map on symbols (checked over all code points), validated each run against re.match group spans',
                    'str.upper is modelled as ASCII upper-casing (accepted codes contain only ASCII letters, digits of any script, ".", white space)']
    punct_refusals(ctx)                       # implementation only: runs even when the translation below fails
    spec_spellings(ctx)
    g = gen.regex(ctx, ['PAT_EVENT_CODE', 'PAT_RELAYS'] + CC.FAMILIES)
    if g is None: return
    side, alpha, trees, mod, changed = g
    ok, log, failed = ctx.build(LEAN_MODULES)
    if ok:
        ctx.audit(['AthlibVerif.Props.C07'], ['AthlibVerif.Props.C07.' + n for n in THEOREMS])
        if not ctx.quick(): ctx.leanchecker(['AthlibVerif.Props.C07', 'AthlibVerif.Lemmas.MatchSound', 'AthlibVerif.Lemmas.MatchTie'])
    vlib.use_repo()
    import athlib
    from athlib import codes
    rng = ctx.rng
    base = CC.enumerate_codes(ctx, trees, alpha, codes, per_alt=8 if ctx.quick() else 16, extra=20000 if ctx.quick() else 150000)
    chars = strgen.alphabet_chars(alpha)
    misses = CC.near_misses(base, rng, chars, 3000 if ctx.quick() else 40000)
    PE = codes.PAT_EVENT_CODE
    gnames = [k for k in athlib.utils._gnorms if k in PE.groupindex]
    fams = [getattr(codes, f) for f in CC.FAMILIES]
    def famvec(s): return tuple(bool(p.match(s)) for p in fams)
    def norm(s):
        try: return 'ok', athlib.normalize_event_code(s)
        except ValueError: return 'ValueError', None
        except Exception as e: return type(e).__name__, None
    def fail(s, expected, got, note):
        ctx.fail('athlib.normalize_event_code', [s], expected, got, note=note, replay_py='result = athlib.normalize_event_code(%r)' % s)
    allstrings = []
    nvar = 0
    def accepted(s):
        # "accepted as an event code": the public checker, which must say what the general pattern says
        try: pub = athlib.check_event_code(s) is not None
        except Exception as e: pub = 'raises ' + type(e).__name__
        pat = PE.match(s) is not None
        if pub != pat:
            ctx.fail('athlib.check_event_code', [s], 'accepts exactly when the general pattern does (%s)' % pat, pub, note='the public checker and the general pattern disagree',
                     replay_py='from athlib import codes\nresult = (athlib.check_event_code(%r) is not None, codes.PAT_EVENT_CODE.match(%r) is not None)' % (s, s))
        return pat
    for s in base:
        accepted(s)
        st, n = norm(s)
        allstrings.append(s); ctx.seen(s)
        if st != 'ok':
            fail(s, 'a code (the string is accepted by check_event_code)', st, 'valid code refused'); continue
        if not PE.match(n): fail(s, 'an accepted code', n, 'result is not accepted')
        elif any(c.isspace() for c in n): fail(s, 'no white space', repr(n), 'white space in result')
        else:
            st2, n2 = norm(n)
            if st2 != 'ok' or n2 != n: fail(s, 'stable: normalising %r again gives it back' % n, repr(n2 if st2 == 'ok' else st2), 'not idempotent')
            elif famvec(n) != famvec(s.strip()):
                t = s.strip()
                why = ('families changed (inner white space alone changes them)' if famvec(''.join(t.split())) != famvec(t) else
                       'families changed (letter case alone changes them)' if famvec(t.upper()) != famvec(t) else 'families changed')
                fail(s, 'same families as the input %r' % (famvec(t),), '%r is in %r' % (n, famvec(n)), why)
        m0 = PE.match(s)
        spans = [m0.span(k) for k in gnames if m0.group(k)] if m0 else []
        for v in CC.variants(s, rng, spans):
            if not PE.match(v.strip()): continue
            if famvec(v.strip()) != famvec(s.strip()): continue      # the edit changed the event, not only its spelling
            nvar += 1; allstrings.append(v)
            stv, nv = norm(v)
            if stv != 'ok' or nv != n:
                fail(v, 'the same code as its variant %r: %r' % (s, n), repr(nv if stv == 'ok' else stv), 'variant spellings normalise differently')
    # very long white-space runs in the gaps that admit white space (a cap on how much is removed must not exist)
    wide = [s for s in base if any(c.isspace() for c in s.strip())]
    nwide = 0
    for s in rng.sample(wide, min(len(wide), 150)) + [c for c in ['DT 1.5 kg', 'SP 7.26 K', '400 H 84.0cm 8.5m', '3000 SC', ' 100 '] if PE.match(c.strip())]:
        for ws, k in ((' ', 12), (' ', 40), ('\t', 33), (' \t', 50)):
            v = ''.join(ws * k if c.isspace() else c for c in s)
            if not PE.match(v.strip()) or famvec(v.strip()) != famvec(s.strip()): continue
            st0, n0 = norm(s); stv, nv = norm(v); nwide += 1
            if stv != st0 or nv != n0 or (stv == 'ok' and any(c.isspace() for c in nv)):
                fail(v, 'the same code as %r with ordinary spacing: %r' % (s, n0), repr(nv if stv == 'ok' else stv), 'long white-space runs normalise differently')
    ctx.count(nwide, 'long_whitespace_variants')
    for s in misses:
        accepted(s)
        if PE.match(s.strip()): continue
        allstrings.append(s)
        st, n = norm(s)
        if st != 'ValueError': fail(s, 'ValueError (not an event code)', n if st == 'ok' else st, 'non-code not refused with ValueError')
    # ---- the first call of a process: each spelling normalised as the very first call of a fresh interpreter must get the
    # answer it gets here, after thousands of calls (tables built on first use, state carried between calls)
    import subprocess, sys as _sys, json as _json
    FIRST = ['JT800g', '400H 84.0cm 8.50m', 'DT1.50Kg', 'SP 7.260 kg', 'OT150g', 'WT15.880K', '100H 84.0cm', '4x100', 'dt1.5k', '60H', 'HT7.260KG', ' 5k ', '3000sc', 'BT1.0K', '2000SC76.2cm']
    code_ = ('import sys, json; sys.path.insert(0, %r); import athlib\n'
             'def n(s):\n'
             '    try: return ["ok", athlib.normalize_event_code(s)]\n'
             '    except ValueError: return ["ValueError", None]\n'
             '    except Exception as e: return [type(e).__name__, None]\n'
             's = json.loads(sys.stdin.read())\n'
             'print(json.dumps([n(s), n(s)]))\n') % (vlib.REPO,)
    procs = [(s_, subprocess.Popen([_sys.executable, '-c', code_], stdin=subprocess.PIPE, stdout=subprocess.PIPE, stderr=subprocess.PIPE, text=True)) for s_ in FIRST]
    for s_, pr in procs:
        out_, err_ = pr.communicate(_json.dumps(s_), timeout=300)
        try: first_, second_ = _json.loads(out_.strip().split('\n')[-1])
        except Exception:
            ctx.oblig('fresh-interpreter first call of normalize_event_code', 'correspondence', False, (err_ or out_)[-300:]); continue
        here = list(norm(s_))
        ctx.count(3, 'first_call_answers')
        if tuple(first_) != tuple(here) or tuple(second_) != tuple(here):
            ctx.fail('athlib.normalize_event_code', [s_], 'the same answer as the first call of a fresh interpreter, as its second call and after many calls', 'first call in a fresh interpreter: %r; second call there: %r; in this process: %r' % (first_, second_, here),
                     note='the answer depends on what was called before (first call of the process)',
                     replay_py='import subprocess, sys\nresult = subprocess.run([sys.executable, "-c", "import sys; sys.path.insert(0, %%r); import athlib; print(athlib.normalize_event_code(%%r), athlib.normalize_event_code(%%r))" %% (sys.path[0], %r, %r)], capture_output=True, text=True).stdout' % (s_, s_))
    ctx.stats['codes'] = len(base); ctx.stats['variants_checked'] = nvar; ctx.stats['near_misses'] = len(misses)
    ctx.count(len(allstrings), 'property_oracle_strings')
    # ---- matcher validation + correspondence with the model
    sample = allstrings if len(allstrings) < 30000 else rng.sample(allstrings, 30000)
    CC.validate_matcher(ctx, side, trees, alpha, sample[:6000] if ctx.quick() else sample, ['PAT_EVENT_CODE', 'PAT_RELAYS', 'PAT_THROWS', 'PAT_TRACK', 'PAT_HURDLES'])
    reqs = ['cd\tnorm\t' + CC.cps(s) for s in allstrings]
    got = vlib.driver_parallel(reqs)
    nd = 0
    for s, gline in zip(allstrings, got):
        st, n = norm(s)
        e = ('ok ' + CC.cps(n)).strip() if st == 'ok' else st
        if e != gline.strip():
            nd += 1
            if nd <= 3: ctx.oblig('correspondence:normalize_event_code vs Lean Codes.normalize', 'correspondence', False,
                                  '%r: implementation %r, model %r' % (s, n if st == 'ok' else st, CC.uncps(gline[3:]) if gline.startswith('ok') else gline))
    ctx.count(len(reqs), 'normalize_lines')
    if nd == 0: ctx.oblig('correspondence:normalize_event_code vs Lean Codes.normalize', 'correspondence', True)
    for s in base[:4] + base[len(base) // 2: len(base) // 2 + 4]:
        ctx.sample({'code': s, 'normalised': norm(s)[1]})
