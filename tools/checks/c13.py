"""C13 — UK age groups follow the rule cut-off dates for every birth and meeting date.
Lean: Props/C13.lean (all valid dates, all years: rule equality, totality, monotonicity in the birth
date, the vets / underage options, ROAD = XC; ages with dateutil's conventions).
Tie: correspondence (C) of athlib.calc_uka_age_group with Uka.calcGroup on boundary-dense sweeps of
(birth date, meeting date) pairs, birth date as date object AND as ISO string, sharded over processes;
every answer is also compared with an independent Python oracle written from the rule text, and the
oracle itself with the Lean Spec."""
import os, re, time, calendar, itertools, multiprocessing
from datetime import date
import vlib

FN = 'athlib.calc_uka_age_group'
CATS = ('TF', 'XC', 'ROAD')
COMBOS = ((1, 0), (1, 1), (0, 0), (0, 1))          # (vets, underage); (1, 0) are the defaults
NPROC = 16
MOD = 1000000007
P = 'AthlibVerif.Props.C13.'
THEOREMS = [P + n for n in (
    'C13', 'C13_tf_rule', 'C13_xc_rule', 'C13_total', 'C13_mono_birth', 'C13_mono_birth_tf', 'C13_mono_birth_xc',
    'C13_vets_only_masters', 'C13_underage_only_u11', 'C13_options_needed', 'C13_road_eq_xc',
    'C13_age_is_anniversaries', 'C13_age_dateutil', 'C13_negative_irrelevant', 'C13_road_literal', 'C13_xc_literal',
    'C13_other_categories', 'tf_oct_dec_reading', 'road_31aug_reading', 'xc_september_reading')]

# ---------------------------------------------------------------------------------------------
# independent oracle, from the rule text kept in athlib/uka/agegroups.py and the property statement
# (datetime / integers only; no dateutil, no athlib)

def age_on(b, on):
    """completed years of someone born on `b` at the date `on` = (y, m, d): the number of birthdays
    reached; a 29 February birthday counts on 28 February in common years"""
    n = on[0] - b.year
    bd = b.day
    if b.month == 2 and b.day == 29 and not calendar.isleap(on[0]):
        bd = 28
    return n if (b.month, bd) <= (on[1], on[2]) else n - 1

def _masters(a):
    return 'V%02d' % (5 * (a // 5))

def oracle_tf(b, md, vets, underage):
    """Rule 107, for a meeting on 1 Jan - 30 Sep of year Y: ages on 31 Aug Y, 31 Dec Y and on the day"""
    a8 = age_on(b, (md.year, 8, 31)); a12 = age_on(b, (md.year, 12, 31)); ad = age_on(b, (md.year, md.month, md.day))
    if vets and ad >= 35: return _masters(ad)            # (vi) masters: at least 35 on the day
    if a12 >= 20: return 'SEN'                           # (v) at least 20 on 31 December
    if a8 >= 17: return 'U20'                            # (iv) 17 or over on 31 August, under 20 on 31 December
    if a8 >= 15: return 'U17'
    if a8 >= 13: return 'U15'
    if a8 >= 11: return 'U13'
    return 'U9' if (underage and a8 < 9) else 'U11'      # not catered for by the rule

def oracle_xc(b, md, vets, underage):
    """Rules 207 / 507 with the cut-off the property fixes: the last 31 August on or before the day"""
    cy = md.year if (md.month, md.day) >= (8, 31) else md.year - 1
    a8 = age_on(b, (cy, 8, 31)); ad = age_on(b, (md.year, md.month, md.day))
    if vets and ad >= 35: return _masters(ad)
    if a8 >= 20: return 'SEN'
    if a8 >= 17: return 'U20'
    if a8 >= 15: return 'U17'
    if a8 >= 13: return 'U15'
    if ad >= 11: return 'U13'                            # 11 on the day ... 12 on the cut-off
    return 'U9' if (underage and ad < 9) else 'U11'

def oracle_for(cat, md):
    """the rule oracle where the property asserts rule equality, else None"""
    if cat == 'TF':
        return oracle_tf if md.month <= 9 else None      # Oct-Dec: competition-year reading ambiguous
    return oracle_xc

LABEL = re.compile(r'^(U9|U11|U13|U15|U17|U20|SEN|V(\d\d+))$')

def rank(lab):
    m = LABEL.match(lab)
    if not m: return None
    if m.group(2):
        n = int(m.group(2))
        return 7 + n if (n % 5 == 0 and n >= 35) else None
    return ('U9', 'U11', 'U13', 'U15', 'U17', 'U20', 'SEN').index(lab)

# ---------------------------------------------------------------------------------------------
# runs

def rle(labels):
    return [(k, sum(1 for _ in g)) for k, g in itertools.groupby(labels)]

def rle_str(r):
    return ','.join('%s*%d' % kn for kn in r)

def rle_parse(s):
    out = []
    for t in s.split(','):
        if t:
            k, n = t.rsplit('*', 1); out.append((k, int(n)))
    return out

def rle_map(r, f):
    out = []
    for k, n in r:
        k = f(k)
        if out and out[-1][0] == k: out[-1] = (k, out[-1][1] + n)
        else: out.append((k, n))
    return out

def rle_expand(r):
    out = []
    for k, n in r: out.extend([k] * n)
    return out

def births_of(ranges):
    for o, n in ranges:
        for i in range(n):
            yield date.fromordinal(o + i)

# ---------------------------------------------------------------------------------------------
# worker (forked; athlib already imported from the tree under test)

_calc = None

def _work(job):
    idx, cat, mdo, v, u, form, ranges = job
    md = date.fromordinal(mdo)
    if form == 'age':
        return _work_age(idx, md, ranges)
    orc = oracle_for(cat, md)
    vb, ub = bool(v), bool(u)
    calc = _calc
    impl = []; want = []; cnt = 0; chk = 0
    for b in births_of(ranges):
        cnt += 1; chk += b.year * 10000 + b.month * 100 + b.day
        try:
            if form == 'date':
                r = calc(b, md, cat, vets=vb, underage=ub)
            elif form == 'iso':
                r = calc(b.isoformat(), md, cat, vets=vb, underage=ub)
            else:                                       # 'default': options left to their defaults
                r = calc(b, md, cat)
            if not isinstance(r, str): r = 'NotAString:%r' % (r,)
        except Exception as e:
            r = 'Error:' + type(e).__name__
        impl.append(r)
        if orc is not None:
            want.append(orc(b, md, vb, ub))
    return idx, rle(impl), (rle(want) if orc is not None else None), (cnt, chk % MOD)

def _work_age(idx, on, ranges):
    """dateutil itself: relativedelta(on, birth).years, also for births after `on` (negative, truncated);
    the oracle demands the number of birthdays reached for births up to `on` and nothing after it"""
    from dateutil.relativedelta import relativedelta
    impl = []; want = []; cnt = 0; chk = 0
    ont = (on.year, on.month, on.day)
    for b in births_of(ranges):
        cnt += 1; chk += b.year * 10000 + b.month * 100 + b.day
        r = str(relativedelta(on, b).years)
        impl.append(r)
        want.append(str(age_on(b, ont)) if b <= on else r)
    return idx, rle(impl), rle(want), (cnt, chk % MOD)

# ---------------------------------------------------------------------------------------------
# domains

def safe_date(y, m, d):
    return date(y, m, min(d, calendar.monthrange(y, m)[1]))

def boundary_match_dates(years):
    """+-1 day around 31 Aug / 1 Sep, 30 Sep / 1 Oct, 31 Dec / 1 Jan, 28/29 Feb / 1 Mar in each year"""
    out = set()
    for y in years:
        for (m, d) in ((8, 31), (9, 30), (12, 31), (2, 28)):
            o = date(y, m, d).toordinal()
            last = o + (3 if (m == 2 and calendar.isleap(y)) else 2)
            for k in range(o - 1, last + 1):
                dd = date.fromordinal(k)
                if dd.year == y or (m, d) == (12, 31):
                    out.add(k)
        out.add(date(y, 1, 1).toordinal()); out.add(date(y, 1, 2).toordinal())
    # the first, the 30th/31st and the last day of every month of the first year (day-of-month against day-of-cut-off
    # comparisons go wrong exactly there), and the 15th
    y = years[0]
    for m in range(1, 13):
        last = calendar.monthrange(y, m)[1]
        for d in (1, 15, 30, last):
            if d <= last: out.add(date(y, m, d).toordinal())
    return sorted(o for o in out if date.fromordinal(o).year in years)

def full_range(md, span=110):
    """every birth date from `span` years before the meeting to the day itself"""
    lo = safe_date(md.year - span, md.month, md.day).toordinal()
    return [(lo, md.toordinal() - lo + 1)]

def near_ranges(md, w, span=110):
    """birth dates within +-w days of each anniversary of the meeting day and of each cut-off
    (31 Aug / 1 Sep, 31 Dec / 1 Jan, 28 Feb / 29 Feb / 1 Mar) for every birth year, up to the day itself"""
    hi = md.toordinal()
    lo = safe_date(md.year - span, md.month, md.day).toordinal()
    iv = []
    for y in range(md.year - span - 1, md.year + 1):
        a = safe_date(y, md.month, md.day).toordinal()
        iv.append((a - w, a + w + (1 if (md.month, md.day) == (2, 29) else 0)))
        iv.append((date(y, 8, 31).toordinal() - w, date(y, 9, 1).toordinal() + w))
        iv.append((date(y, 12, 31).toordinal() - w, date(y, 12, 31).toordinal() + 1 + w))
        iv.append((date(y, 2, 28).toordinal() - w, date(y, 3, 1).toordinal() + w))
    iv.sort()
    out = []
    for a, b in iv:
        a = max(a, lo); b = min(b, hi)
        if a > b: continue
        if out and a <= out[-1][1] + 1:
            out[-1][1] = max(out[-1][1], b)
        else:
            out.append([a, b])
    return [(a, b - a + 1) for a, b in out]

def ranges_arg(ranges):
    out = []
    for o, n in ranges:
        d = date.fromordinal(o)
        out.append('%d.%d.%d:%d' % (d.year, d.month, d.day, n))
    return ','.join(out)

# ---------------------------------------------------------------------------------------------

def run(ctx):
    quick = ctx.quick()
    ctx.rule = ('(birth date, meeting date, category, vets, underage). quick: ~66 meeting dates (+-1 day around 31 Aug/1 Sep, '
                '30 Sep/1 Oct, 31 Dec/1 Jan, 28/29 Feb/1 Mar in each year of a seed-chosen four-year cycle, plus the same days of 2000 '
                'and 2100 on the near-birth list) x EVERY birth date from 110 years before to the day x {TF, XC, ROAD (every other date)} with (vets, underage) '
                'rotated, plus birth dates within +-2 days of every anniversary and cut-off of every birth year under all four option '
                'settings as date objects and (one setting, rotated) as ISO strings, plus default options (every third date) and unknown categories; '
                'relativedelta(on, birth).years vs the model on the same meeting dates, births up to 4 years after the date. thorough: '
                'every meeting date of the cycle (1461) x birth dates within +-3 days of each anniversary and cut-off for every birth '
                'year x 3 categories x 4 option settings, ISO strings on every 5th meeting date and all boundary ones, and the quick full '
                'sweeps under all four settings. distinct = label runs seen (each run boundary is a cut-off actually crossed).')
    ctx.trusted += ['dateutil is not verified: relativedelta(a, b).years is modelled by Cal.completedYears (incl. 29 Feb and truncation '
                    'toward zero for a < b) and dateutil ISO parsing is glue; both are confirmed by the correspondence only',
                    'the walk over birth dates in the driver (Date.succ) is confirmed per request by a count + checksum of the dates visited']
    ctx.assumptions += ['years 1..9999 (datetime.date); the theorems hold for all integer years',
                        'rule equality for TF is asserted for meetings on 1 Jan - 30 Sep (for Oct-Dec the module uses the 31 August of '
                        'the calendar year, the rule text the one within the competition year: not demanded either way)',
                        'road / cross-country cut-off = the last 31 August on or before the day of competition (prior_date, the meeting '
                        'day included) for both disciplines; Rule 207 / 507 read to the letter differ for a meeting on 31 August itself and '
                        '(cross country) in September: not demanded either way, see Props/C13.lean road_31aug_reading, xc_september_reading']
    ok, log, failed = ctx.build(['AthlibVerif.Props.C13'])
    if ok:
        ctx.audit(['AthlibVerif.Props.C13'], THEOREMS)
        if not quick:
            ctx.leanchecker(['AthlibVerif.Props.C13'])
    elif all(o['ok'] for o in ctx.obligations):
        # the failure is in a module Props.C13 depends on (Model / Lemmas): still a broken proof
        ctx.oblig('lean-build:' + ','.join(failed), 'lean-module', False, log[-1500:])

    vlib.use_repo()
    import athlib
    global _calc
    _calc = athlib.calc_uka_age_group

    rng = ctx.rng
    y0 = rng.choice(range(2009, 2029))
    years = list(range(y0, y0 + 4))
    ctx.stats['cycle'] = '%d-%d' % (years[0], years[-1])
    bmd = boundary_match_dates(years)
    century = [o for o in boundary_match_dates([2000, 2100]) if date.fromordinal(o).month in (2, 3)]

    # ---- jobs: (idx, cat, match ordinal, vets, underage, form, ranges)
    jobs = []
    def add(cat, mdo, v, u, form, ranges, kind):
        jobs.append([(len(jobs), cat, mdo, v, u, form, ranges), kind])
    rot = rng.randrange(4)
    w = 2 if quick else 3
    near_cache = {}
    def near(mdo):
        if mdo not in near_cache:
            near_cache[mdo] = near_ranges(date.fromordinal(mdo), w)
        return near_cache[mdo]
    # full sweeps on the boundary meeting dates
    for i, mdo in enumerate(bmd):
        fr = full_range(date.fromordinal(mdo))
        for j, cat in enumerate(CATS):
            for k, (v, u) in enumerate(COMBOS):
                if quick and k != (i + j + rot) % 4: continue
                if quick and cat == 'ROAD' and (i + rot) % 2: continue      # ROAD: every other date (near lists: all)
                add(cat, mdo, v, u, 'date', fr, 'full')
    # near-boundary birth lists
    if quick:
        mds = [(o, True) for o in bmd + century]
    else:
        all_days = range(date(years[0], 1, 1).toordinal(), date(years[-1], 12, 31).toordinal() + 1)
        bset = set(bmd)
        mds = [(o, (o in bset) or (n % 5 == rot)) for n, o in enumerate(all_days)] + [(o, True) for o in century]
    for n, (mdo, with_iso) in enumerate(mds):
        nr = near(mdo)
        for cat in CATS:
            for k, (v, u) in enumerate(COMBOS):
                add(cat, mdo, v, u, 'date', nr, 'near')
                if with_iso and (not quick or k == (n + rot) % 4):
                    add(cat, mdo, v, u, 'iso', nr, 'near')
            if with_iso and (not quick or n % 3 == rot % 3):
                add(cat, mdo, 1, 0, 'default', nr, 'near')

    # dateutil's years against Cal.completedYears, births on both sides of the reference date
    for (mdo, _) in mds:
        add('-', mdo, 0, 0, 'age', near(mdo) + [(mdo + 1, 4 * 366)], 'age')

    # ---- implementation + oracle, sharded
    t_a = time.time()
    order = sorted(range(len(jobs)), key=lambda i: -sum(n for _, n in jobs[i][0][6]))
    res_impl = [None] * len(jobs); res_want = [None] * len(jobs); res_chk = [None] * len(jobs)
    mpctx = multiprocessing.get_context('fork')
    with mpctx.Pool(NPROC) as pool:
        for idx, ri, rw, ck in pool.imap_unordered(_work, [jobs[i][0] for i in order], chunksize=1 if quick else 8):
            res_impl[idx] = ri; res_want[idx] = rw; res_chk[idx] = ck

    t_b = time.time()
    # ---- model (and Lean Spec for the oracle), one request per job
    lines = []; spec_lines = {}; spec_of = [None] * len(jobs)
    rk_cache = {}
    for (job, kind) in jobs:
        idx, cat, mdo, v, u, form, ranges = job
        md = date.fromordinal(mdo)
        key = id(ranges)
        if key not in rk_cache:
            rk_cache[key] = ranges_arg(ranges)
        ra = rk_cache[key]
        if form == 'age':
            lines.append('uka\tagesweep\t%d\t%d\t%d\t%s' % (md.year, md.month, md.day, ra))
            continue
        lines.append('uka\tsweep\t%s\t%d\t%d\t%d\t%d\t%d\t%s' % (cat, md.year, md.month, md.day, v, u, ra))
        if res_want[idx] is not None:
            sk = ('@107' if cat == 'TF' else '@507', mdo, v, u, key)
            if sk not in spec_lines:
                spec_lines[sk] = (len(spec_lines), 'uka\tsweep\t%s\t%d\t%d\t%d\t%d\t%d\t%s' % (sk[0], md.year, md.month, md.day, v, u, ra))
            spec_of[idx] = spec_lines[sk][0]
    sl = [l for _, l in sorted(spec_lines.values())]
    per = max(50, (len(lines) + len(sl)) // (NPROC * 2) + 1)
    replies = vlib.driver_parallel(lines + sl, nproc=NPROC, chunk=per)
    model = replies[:len(lines)]; spec = replies[len(lines):]

    t_c = time.time()
    # ---- compare
    nfail = [0]
    def report(job, i_birth, expected, got, note):
        idx, cat, mdo, v, u, form, ranges = job
        nfail[0] += 1
        if nfail[0] > 60: return
        b = next(itertools.islice(births_of(ranges), i_birth, None))
        md = date.fromordinal(mdo)
        barg = repr(b.isoformat()) if form == 'iso' else 'date(%d, %d, %d)' % (b.year, b.month, b.day)
        opts = '' if form == 'default' else ', vets=%r, underage=%r' % (bool(v), bool(u))
        ctx.fail(FN, [b.isoformat() + ('' if form != 'iso' else ' (str)'), md.isoformat(), cat, bool(v), bool(u), form],
                 expected, got, note=note,
                 replay_py='from datetime import date\nresult = athlib.calc_uka_age_group(%s, date(%d, %d, %d), %r%s)' % (
                     barg, md.year, md.month, md.day, cat, opts))

    def first_diffs(ra, rb, limit=3):
        a = rle_expand(ra); b = rle_expand(rb)
        out = [i for i in range(min(len(a), len(b))) if a[i] != b[i]][:limit]
        return [(i, a[i], b[i]) for i in out]

    n_model_dis = 0; n_oracle_dis = 0; runs = 0; calls = {'date': 0, 'iso': 0, 'default': 0, 'age': 0}
    model_bad = []; spec_bad = []; age_bad = []; neg_runs = 0
    groups = {}
    for (job, kind), mrep in zip(jobs, model):
        idx, cat, mdo, v, u, form, ranges = job
        md = date.fromordinal(mdo)
        cnt, chk = res_chk[idx]
        head, _, body = mrep.partition('|')
        if head != '%d %d' % (cnt, chk):
            raise vlib.InternalError('driver walked different birth dates: %r vs %r for %r' % (head, (cnt, chk), lines[idx][:120]))
        ri = res_impl[idx]; rw = res_want[idx]; rm = rle_parse(body)
        calls[form] += cnt; runs += len(ri)
        ctx.count(cnt, 'calls_%s_%s' % (kind, form))
        if form == 'age':
            neg_runs += sum(1 for k, _ in ri if k.startswith('-'))
            if ri != rm:
                age_bad.append('%s: dateutil/model %s' % (lines[idx][:60], first_diffs(ri, rm, 2)))
            if ri != rw:
                age_bad.append('%s: dateutil/birthdays reached %s' % (lines[idx][:60], first_diffs(ri, rw, 2)))
            continue
        groups.setdefault((mdo, id(ranges)), {})[(cat, v, u, form)] = idx
        # (1) totality / label shape
        for k, n in ri:
            if rank(k) is None:
                i = rle_expand(ri).index(k)
                report(job, i, 'one of U9 U11 U13 U15 U17 U20 SEN V35 V40 ...', k, 'not a label / raised')
                break
        # (2) rule equality, where asserted
        if rw is not None and ri != rw:
            n_oracle_dis += 1
            for i, a, b in first_diffs(ri, rw):
                report(job, i, b, a, 'differs from the rule text (%s)' % ('Rule 107' if cat == 'TF' else 'Rules 207/507, last 31 Aug on or before the day'))
        # (3) an earlier birth date never gives a younger group (births ascend along the runs)
        rks = [rank(k) for k, _ in ri]
        pos = 0
        for j in range(len(ri) - 1):
            pos += ri[j][1]
            if rks[j] is not None and rks[j + 1] is not None and rks[j + 1] > rks[j]:
                report(job, pos, '<= %s (group of the birth date just before)' % ri[j][0], ri[j + 1][0], 'older group for a later birth date')
                break
        # (4) correspondence with the model
        if ri != rm:
            n_model_dis += 1
            expl = (rw is not None and ri != rw) or any(rank(k) is None for k, _ in ri)
            if not expl:
                model_bad.append('%s: implementation %s / model %s' % (lines[idx][:80], first_diffs(ri, rm, 2), 'agrees with oracle' if rw is not None else 'no rule oracle here'))
        # (5) oracle vs Lean Spec
        if rw is not None:
            sh, _, sb = spec[spec_of[idx]].partition('|')
            if rle_parse(sb) != rw:
                spec_bad.append('%s: oracle/spec %s' % (sl[spec_of[idx]][:80], first_diffs(rw, rle_parse(sb), 2)))
    # (6) relations between the answers for the same pairs
    def deV(k): return 'SEN' if k.startswith('V') else k
    def deU9(k): return 'U11' if k == 'U9' else k
    for (mdo, _), g in groups.items():
        for (cat, v, u, form), idx in g.items():
            job = jobs[idx][0]; ri = res_impl[idx]
            def cmp(other, f, note):
                j = g.get(other)
                if j is None: return
                want = rle_map(res_impl[j], f) if f else res_impl[j]
                if ri != want:
                    for i, a, b in first_diffs(ri, want):
                        report(job, i, b, a, note)
            if v == 0: cmp((cat, 1, u, form), deV, 'vets=False is not vets=True with masters read as SEN')
            if u == 0: cmp((cat, v, 1, form), deU9, 'underage=False is not underage=True with U9 read as U11')
            if form == 'iso': cmp((cat, v, u, 'date'), None, 'ISO string and date object give different groups')
            if form == 'default': cmp((cat, 1, 0, 'date'), None, 'default options are not vets=True, underage=False')
            if cat == 'ROAD': cmp(('XC', v, u, form), None, 'ROAD and XC differ')

    # ---- category dispatch glue
    glue = []
    for cat in ('ESAA', 'FOO', 'tf', '', 'XC ', 'TF', 'XC', 'ROAD'):
        for (b, md) in ((date(2000, 2, 29), date(2015, 2, 28)), (date(1966, 3, 21), date(2015, 1, 3))):
            try:
                r = _calc(b, md, cat, vets=True, underage=False)
            except Exception as e:
                r = type(e).__name__
            glue.append((cat, b, md, r))
    gl = vlib.driver(['uka\tgroup\t%s\t%d\t%d\t%d\t%d\t%d\t%d\t1\t0' % (c, b.year, b.month, b.day, m.year, m.month, m.day) for c, b, m, _ in glue])
    for (c, b, m, r), mo in zip(glue, gl):
        ctx.count(1, 'calls_dispatch')
        if r != mo:
            if c in CATS:
                model_bad.append('group %s %s %s: implementation %s / model %s' % (c, b, m, r, mo))
            else:
                ctx.fail(FN, [b.isoformat(), m.isoformat(), c, True, False, 'date'], mo, r, note='category dispatch',
                         replay_py='from datetime import date\nresult = athlib.calc_uka_age_group(date(%d,%d,%d), date(%d,%d,%d), %r)' % (
                             b.year, b.month, b.day, m.year, m.month, m.day, c))

    ctx.stats['seconds'] = {'lean_build_audit': round(t_a - ctx.t0, 1), 'implementation_sweep': round(t_b - t_a, 1), 'lean_driver': round(t_c - t_b, 1), 'compare': round(time.time() - t_c, 1)}
    ctx.stats.update({'jobs': len(jobs), 'meeting_dates_full_sweep': len(bmd), 'meeting_dates_near': len(mds),
                      'calls_date': calls['date'], 'calls_iso': calls['iso'], 'calls_default': calls['default'],
                      'jobs_differing_from_model': n_model_dis, 'jobs_differing_from_rule_oracle': n_oracle_dis,
                      'failing_inputs_found': nfail[0], 'label_runs': runs, 'lean_spec_lines': len(sl)})
    ctx.distinct = set(range(runs))
    ctx.oblig('correspondence:calc_uka_age_group vs Lean Uka.calcGroup', 'correspondence', not model_bad and (n_model_dis == 0 or nfail[0] > 0),
              '; '.join(model_bad[:4]))
    ctx.oblig('correspondence:Python rule oracle vs Lean Uka.Spec', 'correspondence', not spec_bad, '; '.join(spec_bad[:4]))
    ctx.oblig('correspondence:dateutil relativedelta(on, birth).years vs Lean Cal.completedYears (births before and after the date)',
              'correspondence', not age_bad, '; '.join(age_bad[:4]))
    ctx.stats['dateutil_years_calls'] = calls['age']; ctx.stats['dateutil_negative_runs'] = neg_runs
    for i in (0, len(jobs) // 3, len(jobs) // 2, len(jobs) - 2, len(jobs) - 1):
        job = jobs[i][0]
        ctx.sample({'request': lines[i][:100], 'implementation': rle_str(res_impl[i])[:160], 'model': model[i][:160]})
    ctx.exhaustive = False
