"""C08 — High jump: replaying the log or the card, in any jumping order, rebuilds it.
Lean: Props/C08.lean (log replay reproduces the whole state, for every history; refused calls are noise);
tie: the C02 correspondence (same model) + on the real object, for every explored prefix: from_actions()
snapshot equality, to_matrix()/from_matrix() round trip, and per-height interleavings (all when few,
seeded sample otherwise), the same interleavings being replayed on the Lean model too."""
import collections, itertools
import vlib
import hj_common as H

THEOREMS = ['C08_replay', 'C08_replay_of_run', 'C08_log_is_accepted_calls', 'C08_refused_calls_are_noise', 'accepted_eq_iff',
            'C08_ranked_order_unobservable', 'C08_ranked_order_unobservable_obs', 'C08_interleaving', 'cardLog_reachable',
            'C08_cards_are_the_log', 'C08_log_bibs_registered', 'C08_round_robin_import', 'freshOrRanked_reachable',
            'C08_pass_is_only_a_mark', 'C08_passes_can_be_dropped', 'C08_card_import', 'C08_cells_are_the_log', 'C08_cell']

def obs(c, passes_aside=False):
    """state and standings: state, heights, (bib, place, best, card); optionally explicit pass marks and trailing blanks aside"""
    def norm(a):
        if not passes_aside: return tuple(a)
        a = [x.replace('-', '') for x in a]
        while a and a[-1] == '': a.pop()
        return tuple(a)
    return (c.state, tuple(int(round(h * 100)) for h in c.heights),
            tuple(sorted((j.bib, j.place, int(round(j.highest_cleared * 100)), norm(j.attempts_by_height)) for j in c.jumpers)))

def accepted_ops(c):
    ops = []
    for a, v in c.actions:
        if a == 'add_jumper': ops.append(('add', int(v.get('bib', 0))))          # entered without a bib: the default bib '0'
        elif a == 'set_bar_height': ops.append(('bar', int(round(v * 100))))
        else: ops.append(('trial', int(v), {'cleared': 'o', 'failed': 'x', 'passed': 'p', 'retired': 'r'}[a]))
    return ops

def show_op(op):
    if op[0] == 'add': return 'a%d' % op[1]
    if op[0] == 'bar': return 'b%d' % op[1]
    return '%s%d' % ('-' if op[2] == 'p' else op[2], op[1])

def merges(seqs, rng, limit):
    """interleavings of the per-athlete sequences (all if at most `limit`, else a seeded sample)"""
    import math
    total = math.factorial(sum(len(s) for s in seqs))
    for s in seqs: total //= math.factorial(len(s))
    if total <= limit:
        def rec(rem):
            if all(not s for s in rem): yield []; return
            for i, s in enumerate(rem):
                if s:
                    for tail in rec(rem[:i] + [s[1:]] + rem[i + 1:]):
                        yield [s[0]] + tail
        yield from rec([list(s) for s in seqs])
    else:
        for _ in range(limit):
            rem = [list(s) for s in seqs]; out = []
            while any(rem):
                i = rng.choice([k for k, s in enumerate(rem) if s])
                out.append(rem[i].pop(0))
            yield out

def run(ctx):
    ctx.rule = ('competition prefixes from structured complete competitions and seeded random walks (2-4 athletes); for each: action-log replay, '
                'card export/import, and for one seed-chosen bar height all (<= 60, quick; <= 1680 thorough) or a seeded sample of the interleavings that keep '
                'each athlete\'s own order; distinct = distinct (history, interleaving) pairs; non-trivial = at least two athletes have trials at the chosen height')
    ctx.trusted += ['tools/hj_common.py snapshot; "explicit pass marks aside" is read as: cards compared with "-" removed and trailing blank cells dropped']
    ctx.assumptions += ['interleaving and card round trip are asserted for histories without a pass inside a jump-off only where noted in DESIGN.md (none excluded at present)']
    ok, log, failed = ctx.build(['AthlibVerif.Props.C08'])
    if ok:
        P = 'AthlibVerif.Props.C08.'
        ctx.audit(['AthlibVerif.Props.C08'], [P + n for n in THEOREMS])
        if not ctx.quick():
            ctx.leanchecker(['AthlibVerif.Props.C08'])
    vlib.use_repo()
    import athlib
    rng = ctx.rng
    stats = collections.Counter()
    lines = []; expect = []
    n = 6000 if ctx.quick() else 40000
    lim = 60 if ctx.quick() else 1680
    for i in range(n):
        if i % 2 == 0:
            ops, c, r = H.gen_competition(rng, athlib, att_choice=(lambda g: g.choice(['o', 'o', 'xo', 'xxx', 'xxx', 'x-', '-'])) if i % 4 == 0 else None,
                                          jo_heights=4, jo_letters=('oxrp', [4, 5, 1, 2]))
            # cut at a random prefix
            cut = rng.randint(1, len(ops))
            c = H.new_comp(athlib)
            for op in ops[:cut]: H.apply_op(athlib, c, op)
        else:
            fl = (i % 6 == 1)                         # bar heights as Python floats, from anywhere between 1.00 and 2.60
            c = H.new_comp(athlib, float_heights=fl); nb = rng.randint(2, 4); h = rng.randint(100, 260) if fl else 100
            first = 0 if rng.random() < 0.15 else 1          # one athlete entered with no arguments at all (default bib '0'; logged with empty keywords)
            for b in range(first, first + nb): H.apply_op(athlib, c, ('add', b))
            for k in range(rng.randint(3, 50)):
                x = rng.random()
                if x < 0.2: op = ('bar', h + rng.choice([3, 2, 5, 1, 1, 0, -2]))
                else: op = ('trial', rng.randint(first, first + nb - 1), rng.choice('oxxxpr'))
                if H.apply_op(athlib, c, op) == 'ok' and op[0] == 'bar': h = op[1]
        hist = accepted_ops(c)
        stats['prefixes'] += 1
        def fail(expected, got, note, ops_=hist):
            ctx.fail('HighJumpCompetition', H.fmt_ops(ops_), expected, got, note=note, replay_py=H.replay_py(ops_))
        # 1. action-log replay
        try:
            before = H.snap(c)
            c2 = c.from_actions()
            if H.snap(c2) != H.snap(c):
                fail('from_actions() reproduces ' + H.snap(c), H.snap(c2), 'log replay differs')
            elif i % 3 == 0:
                # the copy is a competition of its own: going on with it must not reach back into the original
                hh = int(round(c2.heights[-1] * 100)) if c2.heights else 100
                for op in (('bar', hh + 3), ('trial', 1, 'x'), ('trial', 2, 'o')):
                    H.apply_op(athlib, c2, op)
                if H.snap(c) != before:
                    fail('the original is untouched by calls on the competition rebuilt from its log: ' + before, H.snap(c), 'log replay shares state with the original')
                c2 = c.from_actions()
                if H.snap(c2) != before:
                    fail('from_actions() reproduces ' + before + ' (second replay)', H.snap(c2), 'second log replay differs')
            if i % 4 == 1:
                # the log handed over explicitly, in the forms a caller has it in: a tuple, a one-shot iterator, a generator (a lazy reader)
                for form, mk in (('tuple', lambda a: tuple(a)), ('iterator', lambda a: iter(list(a))), ('generator', lambda a: (x for x in list(a)))):
                    c4 = c.from_actions(mk(c.actions))
                    stats['replays_from_other_iterables'] = stats.get('replays_from_other_iterables', 0) + 1
                    if H.snap(c4) != before:
                        fail('from_actions(the log as a %s) reproduces %s' % (form, before), H.snap(c4), 'log replay differs when the log is handed over as a ' + form)
                        break
        except Exception as e:
            fail('from_actions() reproduces ' + H.snap(c), '%s: %s' % (type(e).__name__, e), 'log replay raised')
        # 2. card export / import
        try:
            m = c.to_matrix()
            c3 = athlib.HighJumpCompetition.from_matrix(m)
            if obs(c3, True) != obs(c, True):
                fail('from_matrix(to_matrix()) reproduces %r' % (obs(c, True),), repr(obs(c3, True)), 'card round trip differs; card %r' % (m,))
            if i % 3 != 2:
                # the calls the import made (its own log) against the model of the import loop (`imported`, the subject of C08_card_import)
                hdr = list(m[0]); bi = hdr.index('bib')               # no 'order' column in the export: the import takes the rows in card order
                rows = sorted(m[1:], key=lambda r: r[hdr.index('order')]) if 'order' in hdr else m[1:]
                order = [int(r[bi]) for r in rows]
                lines.append('hj\tnew'); expect.append(None)
                for op in hist: lines.append(H.op_line(op)); expect.append(None)
                lines.append('hj\timport\t' + ','.join(map(str, order)))
                expect.append(('imp', ' '.join(show_op(op) for op in accepted_ops(c3)), H.fmt_ops(hist)))
        except Exception as e:
            fail('from_matrix(to_matrix()) succeeds', '%s: %s' % (type(e).__name__, e), 'card round trip raised')
        stats['roundtrips'] += 1
        # 3. interleavings at one bar height
        bars = [k for k, op in enumerate(hist) if op[0] == 'bar']
        if not bars: continue
        for k in sorted({bars[-1], rng.choice(bars)}):          # the last height (where jump-offs are decided) and a seeded one
            end = next((x for x in bars if x > k), len(hist))
            seg = hist[k + 1:end]
            by = collections.OrderedDict()
            for op in seg: by.setdefault(op[1], []).append(op)
            if len(by) < 2: continue
            ref_end = None
            for perm in merges(list(by.values()), rng, lim):
                if perm == seg: continue
                alt = hist[:k + 1] + perm + hist[end:]
                ca = H.new_comp(athlib); okall = True
                for j, op in enumerate(alt):
                    if H.apply_op(athlib, ca, op) != 'ok':
                        okall = False
                        if j < end:
                            fail('every interleaving that keeps each athlete\'s own order is accepted', 'call %d (%s) refused' % (j, H.fmt_ops([op])[0]), 'interleaving refused', alt[:j + 1])
                        break
                    if j == end - 1:
                        # end of the permuted height: cards, state, places must already agree with the original order
                        if ref_end is None:
                            cr = H.new_comp(athlib)
                            for op2 in hist[:end]: H.apply_op(athlib, cr, op2)
                            ref_end = obs(cr)
                        if obs(ca) != ref_end:
                            fail('same cards, state and places as the recorded order %r' % (ref_end,), repr(obs(ca)), 'interleaving changes the outcome', alt[:end])
                            okall = False; break
                stats['interleavings'] += 1
                ctx.seen((tuple(hist[:k + 1]), tuple(perm)))
                if okall and obs(ca) != obs(c):
                    fail('same final cards, state and places %r' % (obs(c),), repr(obs(ca)), 'interleaving changes the final outcome', alt)
                # the model on the same interleaving (last reply only)
                if stats['interleavings'] % 5 == 0:
                    lines.append('hj\tnew'); expect.append(None)
                    cm = H.new_comp(athlib)
                    for op in alt[:-1]:
                        lines.append(H.op_line(op)); expect.append(None); H.apply_op(athlib, cm, op)
                    out = H.apply_op(athlib, cm, alt[-1])
                    lines.append(H.op_line(alt[-1])); expect.append(out + '|' + H.snap(cm))
            if i < 3: ctx.sample({'history': H.fmt_ops(hist), 'height_permuted': hist[k], 'athletes_at_height': len(by)})
    got = vlib.driver(lines)
    nd = 0; ni = 0
    for e, g in zip(expect, got):
        if e is None: continue
        if isinstance(e, tuple):
            ctx.count(1, 'imports_compared_with_model')
            if e[1] != g:
                ni += 1
                if ni <= 3: ctx.oblig('correspondence:calls made by from_matrix vs Lean `imported`', 'correspondence', False,
                                      'history %s: from_matrix(to_matrix()) called %s | model %s' % (e[2], e[1], g))
            continue
        ctx.count(1, 'interleavings_compared_with_model')
        if e != g:
            nd += 1
            if nd <= 3: ctx.oblig('correspondence:interleaved history vs Lean HJ model', 'correspondence', False, 'implementation %s | model %s' % (e, g))
    if nd == 0: ctx.oblig('correspondence:interleaved history vs Lean HJ model', 'correspondence', True)
    if ni == 0: ctx.oblig('correspondence:calls made by from_matrix vs Lean `imported`', 'correspondence', True)
    ctx.stats.update(stats)
    ctx.count(stats['prefixes'] + stats['roundtrips'] + stats['interleavings'], 'replays_roundtrips_interleavings_on_implementation')
