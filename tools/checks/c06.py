"""C06 — times are never rounded down: decimal rounding, formatting and parsing agree.
Lean: Model/Digits.lean, Model/Times.lean (string-level transcriptions), Props/C06.lean (ceiling, well-formedness,
round trip, exact parsing — digit strings of any length, every precision); tie: correspondence (C) of
round_up_str_num / format_seconds_as_time / parse_hms with the model on the domains of DESIGN.md C06, each
implementation result also judged directly by an oracle written from the property text (integers / Fraction)."""
import os, sys, re, math
from fractions import Fraction
import vlib
import times_common as TC

THEOREMS = ['C06_roundup', 'C06_roundup_nodot', 'C06_format_wellformed', 'C06_roundtrip', 'C06_parse_exact',
            'C06_parse_hms_ints', 'C06_parse_total', 'C06_pinned_exponent_witness']


def lean_step(ctx):
    ok, log, failed = ctx.build(['AthlibVerif.Props.C06'])
    if ok:
        P = 'AthlibVerif.Props.C06.'
        ctx.audit(['AthlibVerif.Props.C06'], [P + t for t in THEOREMS])
        if not ctx.quick():
            ctx.leanchecker(['AthlibVerif.Props.C06'])
    return ok


def stream_rus(ctx, athlib):
    reqs = TC.rus_requests(ctx, ctx.quick())
    lines = [TC.line_rus(*r) for r in reqs]
    model = vlib.driver_parallel(lines)
    f = athlib.round_up_str_num
    nd = 0; bad_model = 0; raw_diff = 0
    for (s, p, m), mo in zip(reqs, model):
        im = TC.call(f, s, p, m) if m != 5 else TC.call(f, s, p)      # the default maxDP is part of the property
        mo = TC.model_str(mo)
        if im[0] == 'exc':
            ctx.fail('athlib.round_up_str_num', [s, p, m], 'ceiling at %d decimals' % p, 'raises ' + im[1], note='raises',
                     replay_py='result = athlib.round_up_str_num(%r, %r, %r)' % (s, p, m))
            continue
        prob = TC.check_rus(s, p, m, im[1])
        if prob:
            ctx.fail('athlib.round_up_str_num', [s, p, m], 'ceiling of the 5-decimal truncation = %s / 10^%d' % (TC.oracle_rus(s, p, m), p),
                     im[1], note=prob, replay_py='result = athlib.round_up_str_num(%r, %r, %r)' % (s, p, m))
        if im[1] != mo[1]:
            raw_diff += 1
            if mo[0] != 's' or TC.canon_dec(im[1]) != TC.canon_dec(mo[1]):
                nd += 1
                if mo[0] != 's' or TC.check_rus(s, p, m, mo[1]):
                    bad_model += 1
                    if bad_model <= 3:
                        ctx.oblig('correspondence:Lean roundUpStr vs integer oracle', 'correspondence', False,
                                  '%r: model %r, implementation %r' % ((s, p, m), mo, im))
                elif not prob and nd <= 3:
                    ctx.oblig('correspondence:round_up_str_num vs Lean roundUpStr', 'correspondence', False,
                              '%r: model %r, implementation %r (both satisfy the oracle?)' % ((s, p, m), mo, im))
    ctx.count(len(reqs), 'rus_lines')
    ctx.stats['rus_disagreements'] = nd
    ctx.stats['rus_spelling_only_differences'] = raw_diff - nd
    if nd == 0:
        ctx.oblig('correspondence:round_up_str_num vs Lean roundUpStr', 'correspondence', True)
    if bad_model == 0:
        ctx.oblig('correspondence:Lean roundUpStr vs integer oracle', 'correspondence', True)
    for i in (7, 2000, 300000):
        if i < len(reqs):
            ctx.sample({'request': ['round_up_str_num'] + list(reqs[i]), 'model': TC.model_str(model[i])[1]})
    return len({r for r in reqs})


ALT_FORMATS = ['%.5f', '%.6f', '%.7f', '%.8f', '%.10f', '%.11f', '%.12f', '%.13f', '%.14f', '%.15f', '%.16f', '%.17f']

def stream_fmt(ctx, athlib):
    reqs = TC.fmt_requests(ctx, ctx.quick())
    f = athlib.format_seconds_as_time
    hints = []; lines = []; inexact = 0; badhint = 0
    for x, p in reqs:
        whole, frac, exact = TC.residue_texts(x)
        if not exact: inexact += 1
        t0 = '%.9f' % (frac + 0.0)      # the residue as a decimal number: a zero has no sign
        hints.append((whole, frac, t0))
        lines.append(TC.line_fmt(whole, t0, p))
    # the hint is checked on its own: fixed notation and within 5e-10 of the exact residue
    seen = set()
    for (whole, frac, t0) in hints:
        if frac in seen: continue
        seen.add(frac)
        if not TC.text_is_rendering(t0, frac, Fraction(5, 10 ** 10)):
            badhint += 1
    ctx.oblig("hint: '%.9f' % residue is fixed notation within 5e-10 of the exact residue; seconds - int(seconds) is exact",
              'hint-validation', badhint == 0 and inexact == 0, 'bad hints %d, inexact residues %d' % (badhint, inexact))
    model = vlib.driver_parallel(lines)
    nd = 0; via_alt = 0; unexplained = 0; refused = 0; rt_bad = 0
    for (x, p), (whole, frac, t0), mo in zip(reqs, hints, model):
        im = TC.call(f, x, p)
        mo = TC.model_str(mo)
        rp = 'result = athlib.format_seconds_as_time(%r, %r)' % (x, p)
        if p > 3:
            refused += 1
            if im != ('exc', 'ValueError'):
                ctx.fail('athlib.format_seconds_as_time', [x, p], 'ValueError (precision outside 0..3)', repr(im), note='precision', replay_py=rp)
            if mo != ('exc', 'ValueError'):
                ctx.oblig('correspondence:format_seconds_as_time vs Lean formatSeconds', 'correspondence', False, 'model accepts prec %d' % p)
            continue
        if im[0] == 'exc':
            ctx.fail('athlib.format_seconds_as_time', [x, p], 'h:mm:ss text', 'raises ' + im[1], note='raises', replay_py=rp)
            continue
        prob, v = TC.check_fmt(x, p, im[1])
        if prob:
            ctx.fail('athlib.format_seconds_as_time', [x, p], 'well-formed text with %d decimals, value in [trunc5(x), x + 10^-%d)' % (p, p),
                     im[1], note=prob, replay_py=rp)
        else:
            # "parses back": the real parser on the real output
            back = TC.canon_num(TC.call(athlib.parse_hms, im[1]))
            want = ('i', int(v)) if p == 0 else ('f', v)
            if not TC.num_agree(back, want):
                rt_bad += 1
                ctx.fail('athlib.parse_hms', [im[1]], '%s (the value just formatted from %r)' % (v, x), repr(back), note='round trip',
                         replay_py='result = athlib.parse_hms(athlib.format_seconds_as_time(%r, %r))' % (x, p))
        if mo[0] == 's' and im[1] == mo[1]:
            continue
        # the model with the '%.9f' text does not reproduce the implementation: another correct rendering?
        alts = [fm % frac for fm in ALT_FORMATS] + [repr(frac)]
        alts = [t for t in dict.fromkeys(alts) if TC.text_is_rendering(t, frac)]
        got = [TC.model_str(r) for r in vlib.driver([TC.line_fmt(whole, t, p) for t in alts])] if nd + via_alt < 25 else []
        if ('s', im[1]) in got:
            via_alt += 1
            continue
        nd += 1
        if not prob:
            unexplained += 1
            if unexplained <= 3:
                ctx.oblig('correspondence:format_seconds_as_time vs Lean formatSeconds', 'correspondence', False,
                          '%r: implementation %r satisfies the oracle but no fixed-notation residue text makes the model produce it (model with %%.9f text: %r)' % ((x, p), im, mo))
    ctx.count(len(reqs), 'fmt_lines')
    ctx.stats['fmt_disagreements'] = nd
    ctx.stats['fmt_agree_via_other_residue_text'] = via_alt
    ctx.stats['fmt_refused_precisions'] = refused
    if nd == 0:
        ctx.oblig('correspondence:format_seconds_as_time vs Lean formatSeconds', 'correspondence', True)
    for i in (5, 8004, 100003):
        if i < len(reqs):
            ctx.sample({'request': ['format_seconds_as_time'] + list(reqs[i]), 'residue_text': hints[i][2], 'model': TC.model_str(model[i])[1]})
    return len(set(reqs))


def stream_hms(ctx, athlib):
    texts = list(dict.fromkeys(TC.hms_requests(ctx, ctx.quick())))
    strict = [t for t in texts if TC.hms_in_model(t)]
    model = dict(zip(strict, vlib.driver_parallel([TC.line_hms(t) for t in strict])))
    f = athlib.parse_hms
    nd = 0; kinds = {}
    for t in texts:
        im = TC.canon_num(TC.call(f, t))
        kinds[im[0] if im[0] != 'exc' else im[1]] = kinds.get(im[0] if im[0] != 'exc' else im[1], 0) + 1
        rp = 'result = athlib.parse_hms(%r)' % (t,)
        # totality, for any text whatsoever
        if not (im[0] in ('i', 'f', 'special') or im == ('exc', 'ValueError')):
            ctx.fail('athlib.parse_hms', [t if len(t) < 80 else t[:40] + '...(%d chars)' % len(t)], 'a number or ValueError',
                     'raises ' + im[1] if im[0] == 'exc' else repr(im), note='totality', replay_py=rp)
            continue
        if t not in model:
            continue
        mo = TC.model_num(model[t])
        sc = TC.hms_scale(t)
        if TC.num_agree(im, mo, sc):
            continue
        nd += 1
        want = TC.oracle_hms(t)
        if TC.num_agree(im, want, sc):
            ctx.oblig('correspondence:Lean parseHms vs Fraction oracle', 'correspondence', False, '%r: model %r, oracle %r' % (t, mo, want))
        else:
            ctx.fail('athlib.parse_hms', [t], 'exact sexagesimal value %r' % (want,), repr(im), note='value', replay_py=rp)
    # model vs oracle on everything strict
    bad = 0
    for t in strict:
        if not TC.num_agree(TC.oracle_hms(t), TC.model_num(model[t])) or TC.oracle_hms(t)[0] != TC.model_num(model[t])[0]:
            bad += 1
            if bad <= 3:
                ctx.oblig('correspondence:Lean parseHms vs Fraction oracle', 'correspondence', False, '%r: model %r oracle %r' % (t, model[t], TC.oracle_hms(t)))
    if bad == 0:
        ctx.oblig('correspondence:Lean parseHms vs Fraction oracle', 'correspondence', True)
    ctx.count(len(texts), 'hms_texts')
    ctx.count(len(strict), 'hms_lines_compared_with_model')
    ctx.stats['hms_disagreements'] = nd
    ctx.stats['hms_result_kinds'] = kinds
    if nd == 0:
        ctx.oblig('correspondence:parse_hms vs Lean parseHms', 'correspondence', True)
    for t in strict[1000:1003]:
        ctx.sample({'request': ['parse_hms', t], 'model': model[t]})
    return len(texts)


def stream_wrapper(ctx, athlib):
    """the same formatter reached through the validator: `check_performance_for_discipline(event, text, prec=k)` prints a
    typed time with k decimals — that text must not be below the typed time either (and less than one unit above)"""
    from fractions import Fraction
    class EK(Exception): pass
    n = 0
    cases = [('100', ['10.234', '10.001', '11.999', '10.5', '12']), ('200', ['21.234', '23.991']), ('400', ['59.991', '48.123', '59.999']),
             ('800', ['1:59.991', '2:00.001', '1:45.678']), ('1500', ['3:59.999', '4:10.121']), ('5000', ['15:23.456', '14:59.991', '13:00.001']),
             ('10000', ['29:59.991', '31:02.203']), ('HM', ['1:10:00.001', '1:05:59.991', '59:59.991']), ('MAR', ['2:59:59.991', '2:10:10.101']),
             ('3000SC', ['9:59.991', '8:30.004']), ('MILE', ['3:59.401', '4:30.009'])]
    for ev, texts in cases:
        for t in texts:
            parts = t.split(':'); val = Fraction(0)
            for p_ in parts: val = val * 60 + Fraction(p_)
            for prec in (0, 1, 2, 3):
                n += 1
                try:
                    r = athlib.check_performance_for_discipline(ev, t, errorKlass=EK, prec=prec)
                except EK:
                    continue
                except Exception as e:
                    ctx.fail('athlib.check_performance_for_discipline', [ev, t, prec], 'a time text or the caller\'s error', type(e).__name__, note='validator with a precision raises',
                             replay_py='result = athlib.check_performance_for_discipline(%r, %r, prec=%r)' % (ev, t, prec)); continue
                try:
                    back = Fraction(0)
                    for p_ in r.split(':'): back = back * 60 + Fraction(p_)
                except Exception:
                    continue
                unit = Fraction(1, 10 ** prec)
                if back < val or back >= val + unit:
                    ctx.fail('athlib.check_performance_for_discipline', [ev, t, prec], 'the typed time rounded UP to %d decimals: not below %s, less than %s above' % (prec, t, float(unit)), r,
                             note='a time printed through the validator is rounded down' if back < val else 'a time printed through the validator is too high',
                             replay_py='result = athlib.check_performance_for_discipline(%r, %r, prec=%r)' % (ev, t, prec))
    ctx.count(n, 'validator_with_precision_calls')
    return n


def run(ctx):
    ctx.rule = ('round_up_str_num: 24 integer parts (empty, zeros, all-nines, leading zeros, 1-4 digits) x every fraction of 0-7 digits over {0,5,9} '
                'x precision 0..5 (exhaustive over that alphabet) + dot-less forms + 200 k seeded strings (long integer parts, other maxDP, precision to 9); '
                'format_seconds_as_time: every ms within 1 s of 20 minute/hour carries up to 100 h x precision 0..3, residues n*10^-e (e = 4..16) above 8 integers, '
                'seeded sums/products/quotients of grid values, precisions 4, 5 refused; parse_hms: every 1-3 field text over 24 field spellings with either separator, '
                'mixed separators, 4 fields, exotic int()/float() syntax and junk (totality only); thorough adds the full decimal alphabet (0-2 digit integer parts x 0-3 digit fractions, 3 x 0-2, four integer parts x every 4-5 digit fraction), the whole ms grid to 2 h and every 997th ms to 100 h; '
                'distinct = distinct requests; non-trivial = all of them (every request exercises the function under test)')
    ctx.trusted += ['binary floating point is NOT modelled: the model receives int(seconds) and the text of the residue; the harness checks that '
                    "seconds - int(seconds) is exact and that '%.9f' renders it within 5e-10 in fixed notation",
                    'parse_hms float results are compared with the exact rational within relative 2^-50 (one float() and one multiply-add rounding per field)',
                    'tools/times_common.py (domains, canonical forms, integer/Fraction oracles)']
    ctx.assumptions += ['modelled int()/float() field grammar: optional sign, ASCII digits, at most one "." with a digit on one side; underscores, exponents, inf/nan, '
                        'Unicode digits and surrounding white space are checked for totality (number or ValueError) only',
                        'fields longer than 300 characters (float overflow, the 4300-digit int limit) are checked for totality only',
                        'float("inf"), float("nan") and overflowing decimals (results inf/nan) count as numbers for the totality clause',
                        'round_up_str_num results are compared up to leading zeros of the integer part (value and number of decimals are what the property fixes)',
                        'formatted durations may exceed the duration by up to 10^-prec + 10^-9 (the 10^-9 is the rounding of the residue text)']
    import time
    t0 = time.time(); lean_step(ctx); ctx.stats['seconds_lean'] = round(time.time() - t0, 1)
    vlib.use_repo()
    import athlib
    n = 0
    for st in (stream_rus, stream_fmt, stream_hms, stream_wrapper):
        t0 = time.time(); n += st(ctx, athlib); ctx.stats['seconds_' + st.__name__] = round(time.time() - t0, 1)
    ctx.distinct = set(range(n))
    ctx.exhaustive = False
    diversify(ctx)


def diversify(ctx):
    """put a few failing inputs of every (function, kind) class first: the replay file keeps the first 40"""
    seen = {}; first = []; rest = []
    for f in ctx.failing:
        k = (f['fn'], re.split(r'[(;:]', f['note'])[0])
        seen[k] = seen.get(k, 0) + 1
        (first if seen[k] <= 5 else rest).append(f)
    ctx.failing = first + rest
