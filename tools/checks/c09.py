"""C09 — performance-needed is the exact inverse of the combined-events score.
Lean: Props/C09.lean (Galois inverse for every positive-exponent row and every target >= 1);
tie: table regenerated (T) + correspondence of athlon_performance_needed with Athlon.needed and of the
property itself on the implementation's own pair of functions, exhaustive over 52 rows x targets -10..1500."""
import vlib
import athlon_common as AC
from checks import c01

def run(ctx):
    ctx.rule = ('all (gender, event) rows x every integer target -10..1500 (exhaustive in both tiers) + unknown pairs; '
                'non-trivial = target >= 1 on a tabulated pair')
    ctx.trusted += ['tools/gen_tables.py', 'float -> hundredths conversion of the returned performance (round(100*perf), checked to be within 1e-6 of an integer)']
    side = c01.gen_step(ctx)
    if side is None: return
    import gen
    gen.regex(ctx, ['PAT_JUMPS', 'PAT_THROWS'])
    ok, log, failed = ctx.build(['AthlibVerif.Oblig.C01.Table', 'AthlibVerif.Props.C09'])
    if ok:
        P = 'AthlibVerif.Props.C09.'
        ctx.audit(['AthlibVerif.Props.C09'], [P + 'C09_galois', P + 'C09_negative_as_zero', P + 'C09_zero', P + 'C09_unknown_none',
                                               P + 'remap_id_on_table', P + 'score_eq_points'])
        if not ctx.quick():
            ctx.leanchecker(['AthlibVerif.Props.C09'])
    vlib.use_repo()
    import athlib
    from athlib import codes
    rows = [AC.Row(dict(gender=r['gender'], event_code=r['event_code'], A=r['A'], Z=r['Z'], X=r['X'])) for r in side['table']]
    pairs = [(r.gender, r.event) for r in rows] + [('X', '100'), ('M', 'XYZ'), ('F', '110H'), ('M', '80H'), ('m', '100'), ('f', 'lj'), ('M', '300'), ('F', '2000SC')]
    # stir: every pair — the unknown ones too — is scored once before its inverse is asked for (a refused or answered
    # score() must leave nothing behind that changes what performance() answers)
    for g_, e_ in pairs:
        for v_ in (12.34, 1.0):
            try: athlib.athlon_score(g_, e_, v_)
            except Exception: pass
    # stir first: the boys' 800 m marks that the sweep below will score are scored with the English Schools option
    # beforehand — the answers of the plain calls must not depend on that (they are judged in the sweep)
    for s_ in range(1, 1501, 3):
        try:
            p_ = athlib.athlon_performance_needed('M', '800', s_)
            for q_ in (p_, round(p_ + 0.01, 2)):
                athlib.athlon_score('M', '800', q_, esaa=True)
        except Exception:
            pass
    lines = []; impl = []; reqs = []
    for g, e in pairs:
        for s in range(-10, 1501):
            reqs.append((g, e, s))
            lines.append('ath\tneeded\t%s\t%s\t%d' % (g, e, s))
            try:
                p = athlib.athlon_performance_needed(g, e, s)
                if p is None: impl.append('none')
                else:
                    k = round(p * 100)
                    impl.append('k %d' % k if abs(p * 100 - k) < 1e-6 and k >= 0 else 'offgrid %r' % p)
            except Exception as ex:
                impl.append('Error:' + type(ex).__name__)
    model = vlib.driver(lines)
    ctx.count(len(lines), 'needed_lines')
    nd = 0; nont = 0
    for rq, im, mo in zip(reqs, impl, model):
        g, e, s = rq
        if im.startswith('k ') and s >= 1: nont += 1
        # the property on the implementation's own pair of functions
        viol = None
        if im.startswith('k '):
            k = int(im[2:])
            kind = AC.kind_of(codes, e)
            sc = athlib.athlon_score(g, e, k / 100.0)
            worse = (k + 1) if kind == 'track' else (k - 1)
            if sc is None or sc < max(s, 0):
                viol = 'needed mark %.2f scores %r < target %d' % (k / 100.0, sc, s)
            elif s >= 1 and worse >= 0:
                sw = athlib.athlon_score(g, e, worse / 100.0)
                if sw is None or sw >= s:
                    viol = 'next-worse mark %.2f still scores %r >= target %d (needed %.2f)' % (worse / 100.0, sw, s, k / 100.0)
        elif im.startswith('Error') or im.startswith('offgrid'):
            if mo != 'unreachable':
                viol = 'returned %s' % im
        if im != mo and not (mo == 'unreachable' and not im.startswith('k ')):
            nd += 1
            if viol is None:
                viol = 'differs from the exact inverse'
        if viol:
            ctx.fail('athlib.athlon_performance_needed', [g, e, s], mo, im, note=viol + ' (athlon_score had been called for this pair earlier in the process)',
                     replay_py='athlib.athlon_score(%r, %r, 12.34)\np = athlib.athlon_performance_needed(%r, %r, %r)\nresult = (p, athlib.athlon_score(%r, %r, p))' % (g, e, g, e, s, g, e))
    # ---- the same targets in another numeric form, and the boys' 800 m after calls with the English Schools option
    nform = 0
    by = {rq: im for rq, im in zip(reqs, impl)}
    from fractions import Fraction
    for g, e in pairs:
        for s in list(range(-3, 1501, 7)) + [1, 2, 999, 1000, 1284]:
            want = by.get((g, e, s))
            if want is None: continue
            for form, t in (('float', float(s)), ('Fraction', Fraction(s))):
                try:
                    p = athlib.athlon_performance_needed(g, e, t)
                    got = 'none' if p is None else 'k %d' % round(p * 100) if abs(p * 100 - round(p * 100)) < 1e-6 and round(p * 100) >= 0 else 'offgrid %r' % p
                except Exception as ex:
                    got = 'Error:' + type(ex).__name__
                nform += 1
                if got != want and not (form == 'Fraction' and got.startswith('Error') and want != 'none' and False):
                    ctx.fail('athlib.athlon_performance_needed', [g, e, repr(t)], want + ' (the answer for the int target %d)' % s, got,
                             note='target given as %s' % form,
                             replay_py='from fractions import Fraction\nresult = (athlib.athlon_performance_needed(%r, %r, %r), athlib.athlon_performance_needed(%r, %r, %r))' % (g, e, s, g, e, t))
    ctx.count(nform, 'target_form_calls')
    nh = 0
    for s in range(1, 1501, 3):
        im = by.get(('M', '800', s))
        if not im or not im.startswith('k '): continue
        k = int(im[2:])
        for kk in (k, k + 1):
            athlib.athlon_score('M', '800', kk / 100.0, esaa=True)          # stir: the other option, same mark
        sc = athlib.athlon_score('M', '800', k / 100.0); sw = athlib.athlon_score('M', '800', (k + 1) / 100.0); nh += 2
        if sc is None or sc < s or sw is None or sw >= s:
            ctx.fail('athlib.athlon_performance_needed', ['M', '800', s, 'scored after esaa=True calls for the same marks'],
                     'needed mark %.2f scores >= %d and %.2f scores less' % (k / 100.0, s, (k + 1) / 100.0), '%r and %r' % (sc, sw),
                     note='history: the score of the needed mark depends on earlier calls with the English Schools option',
                     replay_py='p = athlib.athlon_performance_needed("M", "800", %d)\nathlib.athlon_score("M", "800", p, esaa=True)\nresult = (p, athlib.athlon_score("M", "800", p))' % s)
    ctx.count(nh, 'history_calls')
    # glue: a pair that is unknown because the event is not a text at all (nothing read, a byte string, a number that
    # names no row, a tuple): no answer, never an error
    ng = 0
    for g in ('M', 'F'):
        for e in (None, b'100', 5.0, ('LJ',), b'', 0):
            for s in (0, 1, 500, 1000):
                ng += 1
                try: got = athlib.athlon_performance_needed(g, e, s)
                except Exception as ex: got = 'raises ' + type(ex).__name__
                if got is not None:
                    ctx.fail('athlib.athlon_performance_needed', [g, repr(e), s], 'None (no such pair)', repr(got), note='unknown pair: the event is not a text',
                             replay_py='result = athlib.athlon_performance_needed(%r, %r, %r)' % (g, e, s))
    ctx.count(ng, 'glue_calls')
    ctx.stats['disagreements'] = nd
    ctx.distinct = set(range(nont))
    if nd == 0:
        ctx.oblig('correspondence:athlon_performance_needed vs Lean Athlon.needed', 'correspondence', True)
    for i in (15, 700, 1200, 40000, 60000):
        if i < len(reqs):
            ctx.sample({'request': list(reqs[i]), 'implementation': impl[i], 'model': model[i]})
    ctx.exhaustive = True
