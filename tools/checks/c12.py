"""C12 — performance validation returns plausible, well-formed marks or the given error.
Lean: Props/C12.lean over Model/Perf.lean (dispatch of the validation cascade; multi-event and field branches
exactly; the timed branch in exact decimal arithmetic for texts with at most two decimals); tie: regenerated
patterns + correspondence on a grammar of texts, and the property itself on the implementation (error class,
well-formedness, speed window, record window, idempotence)."""
import re, collections
from fractions import Fraction
import vlib, gen, strgen
import codes_common as CC

THEOREMS = ['C12_dispatch_total', 'C12_error_class', 'C12_multi_range', 'C12_int_str_roundtrip', 'C12_multi_idempotent', 'C12_field_idempotent',
            'C12_field_format', 'C12_field_window', 'timedGuards_time', 'C12_timed_fields_below_60', 'timedCore_time',
            'timedGuards_speed', 'C12_timed_speed_window',
            'timedDecide_plain_lt', 'C12_plain_seconds_idempotent_partial', 'C12_plain_seconds_returned_unchanged',
            'timedDecide_again', 'C12_no_hours_below_800', 'C12_mss_idempotent_partial', 'C12_mss_returned_unchanged',
            'timedDecide_again_h', 'C12_hmmss_idempotent_partial', 'C12_hmmss_returned_unchanged',
            'timedDecide_nodist', 'timedDecide_again_nodist', 'C12_mss_idempotent_nodist', 'C12_hmmss_idempotent_nodist']

class EK(Exception):
    pass

SPEC_MULTI = ('BI', 'TRI', 'QUAD', 'PEN', 'HEX', 'HEP', 'OCT', 'ENN', 'DEC', 'HEN', 'DOD', 'ICO', 'PENI', 'PENWT')

LOOSE = ['100m', '60m', '400m', '800m', '3000m', 'HM road', 'Mar', 'xc', '3000mW', '100M']

def field(rng):
    return str(rng.choice([0, 1, 2, 5, 9, 10, 12, 30, 45, 59, 60, 61, 75, 99, 100, 123, 1234]) if rng.random() < 0.5 else rng.randint(0, 99)).zfill(rng.choice([1, 1, 2]))

def gen_text(rng):
    n = rng.choice([1, 1, 1, 2, 2, 3])
    sep = rng.choice([':', ':', ';'])
    s = sep.join(field(rng) for _ in range(n))
    r = rng.random()
    if r < 0.5: s += rng.choice(['.', ',']) + ''.join(rng.choice('0123456789') for _ in range(rng.choice([1, 2, 2, 3])))
    elif r < 0.55: s += '.'
    if rng.random() < 0.04:
        s = rng.choice(['', 'abc', '1:2:3:4', '-1', '1e3', ' 12.5 ', '12..5', '::', '5.', '.5', '1:60', '99:99:99', '0:59.5', '00:12.3', '9.73w',
                        '٣:٢٠', '1_0', '1,2,3', '12,5.1', 'DNF', '1:2.', 'inf', 'nan', '0x10'])
    return s

def run(ctx):
    ctx.rule = ('event codes: a stratified sample of the language of PAT_EVENT_CODE enumerated from its syntax tree + customary loose names x texts from a grammar '
                '(1-3 colon/semicolon fields, comma or dot decimals, 0-3 decimals, leading zeros, over-range fields, junk) x gender x precision {None,0,1,2,3} x a custom error class; '
                'distinct = distinct (event, text, precision) triples; non-trivial = accepted by the validator')
    ctx.trusted += ['tools/gen_regex.py (patterns, code tuples) validated against re', 'float arithmetic / %-formatting of the timed branch are outside the model: the model covers texts with at most two decimals exactly']
    g = gen.regex(ctx, ['PAT_EVENT_CODE', 'PAT_PERF', 'PAT_RACES_FOR_DISTANCE', 'PAT_RELAYS'])
    if g is None: return
    side, alpha, trees, mod, changed = g
    ok, log, failed = ctx.build(['AthlibVerif.Props.C12'])
    if ok:
        ctx.audit(['AthlibVerif.Props.C12'], ['AthlibVerif.Props.C12.' + n for n in THEOREMS])
        if not ctx.quick(): ctx.leanchecker(['AthlibVerif.Props.C12'])
    vlib.use_repo()
    import athlib
    from athlib import codes
    from athlib.utils import field_event_record
    from athlib.utils import FIELD_EVENT_RECORDS_BY_GENDER as LIVE_RECS
    # specification-side copy of the records (the same figures as Model/Perf.lean fieldRecords): the window is judged
    # against these, never against the library's own table object (which a change may rewrite while the process runs)
    RECS = {'m': dict(HJ=2.45, LJ=8.95, TJ=18.29, PV=6.16, HT=86.74, DT=74.08, WT=24.57, SP=23.12, JT=104.80),
            'f': dict(HJ=2.09, LJ=7.52, TJ=15.50, PV=5.06, HT=82.98, DT=76.80, WT=22.50, SP=22.63, JT=72.28)}
    RECS['all'] = {k: max(RECS['m'][k], RECS['f'][k]) for k in RECS['m']}
    live_now = {g_: dict(t) for g_, t in LIVE_RECS.items()}
    ctx.oblig('spec:field records of the specification side = the library table at start', 'correspondence', live_now == RECS,
              '' if live_now == RECS else 'library table %r' % (live_now,))
    def record_of(ev, g_):
        # the property's reading: the record of the athlete's gender (any letter case), else the better of the two
        # — of the generic event when the code carries an implement weight ('SP7.26K', 'jt 800'): its leading letters
        t = RECS.get(g_.lower()) or RECS['all']
        u = ev.upper()
        return t.get(u) if u in t else t.get(re.match(r'[A-Z]*', u).group())
    rng = ctx.rng
    lang = CC.enumerate_codes(ctx, trees, alpha, codes, per_alt=2, extra=1500)
    lang = [s for s in lang if s.strip() == s and s and s.isascii()]
    events = ['100', '200', '400', '800', '1500', '3000', '5000', '10000', 'MAR', 'HM', 'XC', '5K', '10K', '110H', '400H', '3000SC', '4x100', '4x400',
              'MILE', '60', '60H', 'HJ', 'PV', 'LJ', 'TJ', 'SP', 'DT', 'HT', 'JT', 'WT', 'DEC', 'HEP', 'PEN', '24HR', 'T30', 'H1', 'L3', 'BAL', '5M', '2MT',
              'BI', 'TRI', 'QUAD', 'HEX', 'OCT', 'ENN', 'HEN', 'DOD', 'ICO', 'PENI', 'PENWT',          # every multi-event code (spec-side list)
              '110H106.7cm9.14m13.72m', '100H84cm', '100H33', '300LH', '110SH', 'mar', 'hm', 'mile', 'MARW', 'HMW', 'MILEW', '2MILE', '2mt', '5MW',
              '20KW', 'SLJ', 'OT', 'DT1.5K', '4xSSMR', '4xSMR', '4xSWR', '4xDMR', '4x1500', '3x800', '4x200', '4x1.5K', '2MILE', '1.5M', '3000W', '2000SC'] + LOOSE + rng.sample(lang, min(len(lang), 250 if ctx.quick() else 600))
    n = 400000 if ctx.quick() else 3000000
    # the event's distance from the model (Model/Codes.getDistance: MAR 42195, HM 21098, MILE 1609, SMR 1600, SSMR 800, SWR 1000,
    # legs x leg, K = 1000 x, M = 1609 x, yards), not from the library under test
    mdist = {}
    for ev, rep in zip(events, vlib.driver(['cd\tdist\t%s' % CC.cps((ev.split() or [ev])[0]) for ev in events])):
        f = rep.split()
        mdist[ev] = int(f[1]) if len(f) == 2 and f[0] == 'ok' and f[1].isdigit() else None
    def spec_dist(ev):
        # the distance a code states, read by the specification side for the spellings the library's estimator does not know
        e = (ev.split() or [ev])[0]
        m = re.match(r'^(\d{2,4})[lLsS]?[hH]', e) or re.match(r'^(\d{2,4})[sS][cC]', e)
        if m: return int(m.group(1))
        u = e.upper()
        if u in ('MAR', 'MARW'): return 42195
        if u in ('HM', 'HMW'): return 21098
        if u in ('MILE', 'MILEW'): return 1609
        m = re.match(r'^(\d)MILE$', u) or re.match(r'^([2345])MT$', u) or re.match(r'^(\d{1,3})MW$', u)
        if m: return int(m.group(1)) * 1609
        return None
    class EK2(Exception):
        pass
    stats = collections.Counter()
    lines = []; expect = []
    def chk(ev, t, g_, prec):
        try:
            return 'ok', athlib.check_performance_for_discipline(ev, t, gender=g_, errorKlass=EK, prec=prec)
        except EK: return 'refused', None
        except Exception as e: return 'leak:' + type(e).__name__, None
    def all_requests():
        for _ in range(n):
            yield rng.choice(events), gen_text(rng), rng.choice(['all', 'm', 'f', 'M']), rng.choice([None, None, None, 0, 1, 2, 3])
        # seams: texts just below the points where the printed form changes (10 s, 60 s, 100 s, an hour, ten hours), for every event and precision
        SEAMS = ['9.994', '9.995', '9.996', '9.9999', '59.994', '59.995', '59.996', '59.999', '99.99', '99.994', '99.995', '99.996', '99.999', '99,9999',
                 '0:59.995', '0:59.999', '1:39.996', '1:39.999', '9:59.995', '9:59.999', '59:59.99', '59:59.995', '59:59.996', '59:59.999',
                 '0:59:59.996', '1:59:59.995', '1:59:59.999', '9:59:59.996', '9:59:59.999', '2:16:39.99', '2:16:40.01']
        for ev in events:
            for t in SEAMS:
                for prec in (None, 0, 1, 2, 3):
                    yield ev, t, 'all', prec
        # long road times with decimals and a precision option (h:mm:ss.xx of two hours and more)
        for _ in range(6000 if ctx.quick() else 60000):
            ev = rng.choice(['MAR', 'HM', '50K', '100K', '20KW', '10K', '5M', '10M', '30K', '24HR'])
            t = '%d:%02d:%02d.%s' % (rng.randint(1, 11), rng.randint(0, 59), rng.randint(0, 59), ''.join(rng.choice('0123456789') for _ in range(rng.choice([1, 2, 2, 3]))))
            yield ev, t, 'all', rng.choice([1, 2, 2, 3, None])
        # field marks of hundreds of digits (float() gives inf): a two-decimal number or a refusal, never 'inf'
        for ev in ['SHJ', 'SLJ', 'BT', 'OT', 'HJ', 'JT800']:
            for t in ('9' * 320, '9' * 309, '1' + '0' * 308, '9' * 400 + '.5'):
                yield ev, t, 'all', None
        # multi-event totals around the ceiling, for every multi-event code (spec-side list) in three spellings
        for ev in ['BI', 'TRI', 'QUAD', 'PEN', 'HEX', 'HEP', 'OCT', 'ENN', 'DEC', 'HEN', 'DOD', 'ICO', 'PENI', 'PENWT']:
            for sp in (ev, ev.lower(), ev.title()):
                for t in ('9999', '10000', '10001', '14571', '19999', '20000', '0019999', ' 10000 ', '09999', '99999', '1e4', '9999.0'):
                    yield sp, t, 'all', None
        # slow but admissible track results of an hour and more whose decimals are all zero (the printed form drops them): h:mm:ss.00
        for ev in ['3000', '5000', '10000', '3000SC', '2MILE', '3000W', '5K', '10K', '3000m', '1500', '800']:
            for (h_, m_, s_) in [(1, 0, 0), (1, 2, 3), (1, 39, 59), (1, 40, 0), (1, 20, 30), (2, 0, 0), (1, 0, 1), (2, 46, 39)]:
                for tail in ('.00', '.0', '', '.50'):
                    yield ev, '%d:%02d:%02d%s' % (h_, m_, s_, tail), 'all', None
    for i, (ev, t, g_, prec) in enumerate(all_requests()):
        st, r = chk(ev, t, g_, prec)
        stats[st.split(':')[0]] += 1
        args = [ev, t, g_, prec]
        def fail(expected, got, note):
            ctx.fail('athlib.check_performance_for_discipline', args, expected, got, note=note,
                     replay_py='class EK(Exception): pass\ntry:\n    result = athlib.check_performance_for_discipline(%r, %r, gender=%r, errorKlass=EK, prec=%r)\nexcept EK:\n    result = "refused (errorKlass)"' % (ev, t, g_, prec))
        if st.startswith('leak'):
            fail('the caller\'s error class or a string', st, 'another exception escapes'); continue
        # model line (only the fully modelled sub-domain is compared: see Model/Perf.lean)
        if prec is None and i % 3 == 0 and len(t) < 250:      # hundreds of digits: float overflow is not modelled (exact decimals there)
            lines.append('pf\tcheck\t%s\t%s\t%s' % (CC.cps(ev), CC.cps(t), CC.cps(g_)))
            expect.append(('ok ' + CC.cps(r)).strip() if st == 'ok' else 'refused')
        if i % 11 == 0:
            # the documented positional order (discipline, textvalue, gender, ulpc, errorKlass, prec)
            try:
                r3 = athlib.check_performance_for_discipline(ev, t, g_, 1.2, EK, prec); st3 = 'ok'
            except EK: r3 = None; st3 = 'refused'
            except Exception as e: r3 = None; st3 = 'leak:' + type(e).__name__
            stats['positional_calls'] += 1
            if (st3, r3) != (st, r):
                ctx.fail('athlib.check_performance_for_discipline', args + ['positional'], 'the answer of the keyword form: %s' % (r if st == 'ok' else st), r3 if st3 == 'ok' else st3,
                         note='all arguments given positionally (discipline, text, gender, ulpc, errorKlass, prec)',
                         replay_py='class EK(Exception): pass\ntry:\n    result = athlib.check_performance_for_discipline(%r, %r, %r, 1.2, EK, %r)\nexcept EK:\n    result = "refused (errorKlass)"' % (ev, t, g_, prec))
        if i % 5 == 0:
            # the same entry from another caller: another error class, then the default (ValueError)
            for klass in (EK2, ValueError):
                try:
                    r2_ = athlib.check_performance_for_discipline(ev, t, gender=g_, errorKlass=klass, prec=prec); st2_ = 'ok'
                except klass: r2_ = None; st2_ = 'refused'
                except Exception as e: r2_ = None; st2_ = 'leak:' + type(e).__name__
                stats['repeat_with_other_class'] += 1
                if (st2_, r2_) != (st, r):
                    ctx.fail('athlib.check_performance_for_discipline', args + [klass.__name__],
                             ('refused with the class this caller supplied (%s)' % klass.__name__) if st == 'refused' else 'accepted as %r' % r,
                             st2_ if st2_ != 'ok' else repr(r2_), note='the same entry validated again with another error class',
                             replay_py='class EK(Exception): pass\nclass EK2(Exception): pass\nout = []\nfor k in (EK, %s):\n    try: out.append(athlib.check_performance_for_discipline(%r, %r, gender=%r, errorKlass=k, prec=%r))\n    except k: out.append("refused with " + k.__name__)\n    except Exception as e: out.append("other exception: " + type(e).__name__)\nresult = out' % ('EK2' if klass is EK2 else 'ValueError', ev, t, g_, prec))
        if st != 'ok': continue
        ctx.seen((ev, t, prec))
        if not isinstance(r, str): fail('a string', repr(r), 'result is not a string'); continue
        evc = ev.split()[0] if ev.split() else ev
        if codes.PAT_RACES_FOR_DISTANCE.match(ev) or ev.upper() in codes.CUSTOM_EVENTS or (ev.lower() == 'xc' and r == ''):
            stats['other_kind'] += 1
        elif ev in codes.FIELD_EVENTS or codes.PAT_FIELD.match(ev):
            stats['field'] += 1
            if not re.match(r'^\d+\.\d\d$', r): fail('a two-decimal number', r, 'field result malformed')
            else:
                rec = record_of(ev, g_)
                if rec and float(r) > rec * 1.2 + 0.005: fail('not absurdly beyond the record %.2f' % rec, r, 'field result beyond the record window')
        elif ev.upper() in SPEC_MULTI or ev.upper() in codes.MULTI_EVENTS:
            stats['multi'] += 1
            if not re.match(r'^\d+$', r) or int(r) > 9999: fail('an integer below 10000', r, 'multi-event result out of range')
        else:
            stats['timed'] += 1
            m = re.match(r'^(?:(\d+):)?(?:(\d+):)?(\d+)(\.\d+)?$', r)
            if not m: fail('h:mm:ss.xx', r, 'timed result malformed')
            else:
                parts = r.split(':')
                sec = float(parts[-1])
                if sec >= 60:
                    fail('seconds below 60', r, 'seconds >= 60 without a minutes field (plain seconds up to 99.99)' if len(parts) == 1 and sec < 100 else 'seconds >= 60')
                if len(parts) == 3 and int(parts[1]) >= 60: fail('minutes below 60 under hours', r, 'minutes >= 60 under hours')
                dist = mdist.get(ev)
                dur = athlib.parse_hms(r)
                if not dist and spec_dist(ev) and dur is not None:
                    # the library's distance estimator knows no distance for this valid code, so nothing was checked: judge
                    # the returned time against the distance the code itself states (specification side)
                    d2 = spec_dist(ev); lim2 = 11.0 if d2 <= 400 else 10.0
                    if dur == 0 or d2 / dur > lim2 * 1.01 or d2 / dur < 0.5 * 0.99:
                        fail('speed within 0.5 .. %.0f m/s for %d m' % (lim2, d2), '%s = %s' % (r, 'zero seconds' if dur == 0 else '%.3f m/s' % (d2 / dur)),
                             'no speed check: the library has no distance for this valid code')
                if dist and not dur:
                    fail('speed within 0.5 .. %.0f m/s for %d m' % (11.0 if dist <= 400 else 10.0, dist), '%s = zero seconds' % r, 'speed outside the sanity window')
                if dist and dur:
                    v = dist / dur
                    lim = 11.0 if dist <= 400 else 10.0
                    if v > lim * 1.0001 + 0.01 or v < 0.5 * 0.9999 - 0.001:
                        fail('speed within 0.5 .. %.0f m/s for %d m' % (lim, dist), '%s = %.3f m/s' % (r, v), 'speed outside the sanity window')
        # idempotence
        st2, r2 = chk(ev, r, g_, prec)
        if st2 != 'ok' or r2 != r:
            dist = None
            try: dist = athlib.get_distance(ev)
            except Exception: pass
            timed = not (ev in codes.FIELD_EVENTS or codes.PAT_FIELD.match(ev) or ev.upper() in codes.MULTI_EVENTS)
            why = 'returned value not accepted unchanged'
            if timed and prec is not None and '.' not in r and st2 != 'ok': why += ' (formatted with a precision option)'
            elif timed and dist and dist >= 800 and ':' not in r: why += ' (plain seconds for a distance of 800 m or more are re-read as minutes)'
            elif timed and dist and dist <= 200 and ':' in r and '.' not in r: why += ' (m:ss for a sprint is re-read as seconds.hundredths)'
            elif timed and prec is None and ev in ('800', '1500', '3000') and re.match(r'^\d+:\d\d:\d\d$', r): why += ' (h:mm:ss without decimals for 800 / 1500 / 3000 is re-read as mm:ss.cc)'
            elif not timed and re.match(r'^\d{3,}\.\d\d$', r): why += ' (field result of 100 m or more: PAT_PERF admits two integer digits)'
            fail('validating %r again returns it unchanged' % r, r2 if st2 == 'ok' else st2, why)
    # ---- the record window for every record event x gender spelling, marks around 1.2 x the record
    nwin = 0
    for ev in sorted(RECS['m']) + ['SP7.26K', 'SP4K', 'DT2K', 'DT1K', 'JT800', 'JT600', 'HT7.26K', 'HT4K', 'WT15.88K', 'WT9.08K', 'sp 4kg', 'dt1.5k']:
        for g_ in ['m', 'f', 'M', 'F', 'all', 'ALL', 'x']:
            rec = record_of(ev, g_)
            lim = int(round(rec * 120))            # hundredths
            for c in list(range(lim - 6, lim + 7)) + [int(rec * 100), lim + 50, lim + 400]:
                t = '%d.%02d' % (c // 100, c % 100)
                if c // 100 > 99: continue           # three-digit metres: PAT_PERF (known finding)
                st, r = chk(ev, t, g_, None)
                nwin += 1
                want_ok = c * 5 <= int(round(rec * 100)) * 6
                if c in (lim, lim - 1, lim + 1): continue      # record * 1.2 is a float product: do not judge the boundary itself
                if (st == 'ok') != want_ok:
                    ctx.fail('athlib.check_performance_for_discipline', [ev, t, g_, None],
                             ('accepted' if want_ok else 'refused') + ' (record %.2f for %r, window 1.2 x)' % (rec, g_), r if st == 'ok' else st,
                             note='field record window',
                             replay_py='class EK(Exception): pass\ntry:\n    result = athlib.check_performance_for_discipline(%r, %r, gender=%r, errorKlass=EK)\nexcept EK:\n    result = "refused (errorKlass)"' % (ev, t, g_))
                if i % 1 == 0:
                    lines.append('pf\tcheck\t%s\t%s\t%s' % (CC.cps(ev), CC.cps(t), CC.cps(g_)))
                    expect.append(('ok ' + CC.cps(r)).strip() if st == 'ok' else 'refused')
    ctx.count(nwin, 'record_window_calls')
    ctx.count(n, 'validation_calls')
    ctx.stats.update(stats)
    got = vlib.driver_parallel(lines)
    nd = 0; ncmp = 0
    for l, e, gl in zip(lines, expect, got):
        if gl.startswith('skip'): continue
        ncmp += 1
        if e != gl.strip():
            nd += 1
            if nd <= 3:
                f = l.split('\t')
                ctx.oblig('correspondence:check_performance_for_discipline vs Lean Perf.check', 'correspondence', False,
                          '(%r, %r, %r): implementation %r, model %r' % (CC.uncps(f[2]), CC.uncps(f[3]), CC.uncps(f[4]), CC.uncps(e[3:]) if e.startswith('ok') else e, CC.uncps(gl[3:]) if gl.startswith('ok') else gl))
    ctx.count(ncmp, 'lines_compared_with_model')
    ctx.stats['model_skipped_outside_domain'] = len(lines) - ncmp
    if nd == 0: ctx.oblig('correspondence:check_performance_for_discipline vs Lean Perf.check', 'correspondence', True)
    ctx.sample({'call': ['800', '2.33'], 'result': chk('800', '2.33', 'all', None)[1]})
    ctx.sample({'call': ['100', '4:05:33'], 'result': chk('100', '4:05:33', 'all', None)[0]})
