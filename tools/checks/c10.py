"""C10 — every valid event code can be sorted, measured and classified without error.
Lean: Props/C10.lean over Model/Codes.lean (categories, field order, text key isomorphism, relay distance, sorter);
tie: regenerated patterns + correspondence of the six functions with the model over the enumerated language,
and the property itself on the implementation."""
import re, itertools
import vlib, gen, strgen
import codes_common as CC

THEOREMS = ['C10_category_range', 'C10_category_of_family', 'C10_field_order', 'C10_pad5_iso', 'C10_text_key_shape',
            'C10_relay_distance', 'C10_sort_length', 'C10_fieldOrder_total_generic',
            'pyMatch_eq_language', 'C10_category_by_language', 'C10_hurdles_total', 'C10_duration_total',
            'C10_throws_total', 'C10_jumps_total', 'C10_track_metres_total', 'C10_sortKey_fails_only_through_getDistance',
            'C10_sortKey_total', 'C10_textKey_total', 'C10_sortBy_total', 'C10_getDistance_total_nonrelay', 'C10_total_partial',
            'C10_getDistance_total', 'C10_total']
LEAN_MODULES = ['AthlibVerif.Oblig.C07.Tie', 'AthlibVerif.Oblig.C10.Groups', 'AthlibVerif.Props.C10']

def call(f, *a, **kw):
    try: return 'ok', f(*a, **kw)
    except Exception as e: return type(e).__name__, None

def run(ctx):
    ctx.rule = ('the language of PAT_EVENT_CODE enumerated from its syntax tree (as C07) for the totality clauses; seeded pairs of codes for the ordering clauses; '
                'lists with repeated and missing disciplines for the sorter; distinct = distinct codes / pairs / lists; non-trivial = accepted codes')
    ctx.trusted += ['tools/gen_regex.py (patterns, groups, FIELD_SORT_ORDER) validated each run against re.match group spans']
    ctx.assumptions += ['get_distance values for non-integral quantities (1.5K, yards) are compared as "a value, within 1 of the exact floor": int(1000*float) truncates in binary',
                        'AgeGrader.event_code_to_kind raises ValueError for codes outside its four kinds (relays, multi-events, duration races): recorded as the known finding C10-kind-classifier-raises (it had been filed here as observed, not demanded)']
    g = gen.regex(ctx, ['PAT_EVENT_CODE', 'PAT_RELAYS', 'PAT_THROWS', 'PAT_JUMPS', 'PAT_HURDLES', 'PAT_TRACK', 'PAT_RACES_FOR_DISTANCE'])
    if g is None: return
    side, alpha, trees, mod, changed = g
    ok, log, failed = ctx.build(LEAN_MODULES)
    if ok:
        ctx.audit(['AthlibVerif.Props.C10'], ['AthlibVerif.Props.C10.' + n for n in THEOREMS])
        if not ctx.quick(): ctx.leanchecker(['AthlibVerif.Props.C10', 'AthlibVerif.Lemmas.MatchSound', 'AthlibVerif.Lemmas.MatchCodes', 'AthlibVerif.Lemmas.DistToken', 'AthlibVerif.Lemmas.RelayLeg', 'AthlibVerif.Lemmas.Greedy', 'AthlibVerif.Lemmas.DistRelay'])
    vlib.use_repo()
    import athlib
    from athlib import codes
    from athlib.utils import get_duration_event_time
    from athlib.athlon_score import unit_name
    rng = ctx.rng
    base = CC.enumerate_codes(ctx, trees, alpha, codes, per_alt=8 if ctx.quick() else 16, extra=20000 if ctx.quick() else 150000)
    base = [s for s in base if s.strip() == s and s] + ['MAR', 'HM', 'XC', 'MILE', 'CHUNDER-MILE'.replace('CHUNDER-', '')]
    base = sorted(set(base))
    fns = [('discipline_sort_key', athlib.discipline_sort_key, 'key'), ('text_discipline_sort_key', athlib.text_discipline_sort_key, 'text'),
           ('get_distance', athlib.get_distance, 'dist'), ('get_duration_event_time', get_duration_event_time, 'dur'), ('unit_name', unit_name, 'unit')]
    # ---- the kind classifier of the age grader (anchored beside unit_name): a value, not an exception, for every accepted code;
    # ---- and spellings of one code (white space inside, letter case) must not land in different families of the programme order
    from athlib.wma.agegrader import AgeGrader
    nk = 0; kind_raises = 0
    for s_ in base:
        nk += 1
        try: AgeGrader.event_code_to_kind(s_)
        except Exception as e_:
            kind_raises += 1
            if kind_raises <= 40:
                ctx.fail('athlib.wma.agegrader.AgeGrader.event_code_to_kind', [s_], 'a kind (the code is accepted by check_event_code)', type(e_).__name__,
                         note='the kind classifier raises for a valid event code',
                         replay_py='from athlib.wma.agegrader import AgeGrader\nresult = AgeGrader.event_code_to_kind(%r)' % s_)
    ctx.count(nk, 'kind_classifier_calls'); ctx.stats['kind_classifier_raises'] = kind_raises
    nsp = 0
    for s_ in base:
        try: n_ = athlib.normalize_event_code(s_)
        except Exception: continue
        if n_ == s_: continue
        try: k1 = athlib.discipline_sort_key(s_); k2 = athlib.discipline_sort_key(n_)
        except Exception: continue
        nsp += 1
        if k1[0] != k2[0]:
            ctx.fail('athlib.discipline_sort_key', [s_], 'family %r, as for the normalised spelling %r' % (k2[0], n_), repr(k1[:2]),
                     note='a spelling of the code (white space inside / letter case) is sorted in another family than the code',
                     replay_py='result = (athlib.discipline_sort_key(%r), athlib.discipline_sort_key(%r))' % (s_, n_))
    ctx.count(nsp, 'spelling_family_pairs')
    reqs = []; exp = []; meta = []
    keys = {}
    for s in base:
        ctx.seen(s)
        for name, f, cmd in fns:
            st, v = call(f, s)
            if st != 'ok':
                ctx.fail('athlib.' + name, [s], 'a value (the code is accepted by check_event_code)', st, note='raises for a valid event code',
                         replay_py='import athlib.utils, athlib.athlon_score\nresult = %s(%r)' % ({'get_duration_event_time': 'athlib.utils.get_duration_event_time', 'unit_name': 'athlib.athlon_score.unit_name'}.get(name, 'athlib.' + name), s))
            if cmd == 'key':
                if st == 'ok' and not (isinstance(v, tuple) and len(v) == 3 and all(isinstance(x, int) and not isinstance(x, bool) for x in v[:2])):
                    ctx.fail('athlib.discipline_sort_key', [s], 'a key (family number, distance / order number, discipline) that sorts against every other key', repr(v),
                             note='key malformed: a component that is not a number',
                             replay_py='result = (athlib.discipline_sort_key(%r), sorted([athlib.discipline_sort_key(%r), athlib.discipline_sort_key("110H")]))' % (s, s))
                    st = 'malformed'
                e = 'ok %d %d' % (v[0], v[1]) if st == 'ok' else st
                if st == 'ok':
                    keys[s] = v
                    if v[2] != s: ctx.fail('athlib.discipline_sort_key', [s], 'third component is the discipline', repr(v), note='key malformed')
            elif cmd == 'text': e = ('ok ' + CC.cps(v)) if st == 'ok' else st
            elif cmd in ('dist', 'dur'): e = ('ok %s' % ('none' if v is None else v)) if st == 'ok' else st
            else: e = v if st == 'ok' else st
            reqs.append('cd\t%s\t%s' % (cmd, CC.cps(s))); exp.append(e); meta.append((name, s))
    got = vlib.driver_parallel(reqs)
    nd = 0
    for (name, s), e, gl in zip(meta, exp, got):
        if e.strip() == gl.strip(): continue
        if name in ('get_distance', 'discipline_sort_key', 'text_discipline_sort_key') and e.startswith('ok') and gl.startswith('ok') \
                and re.search(r'\.|[yY]', s) and ('none' in e) == ('none' in gl):
            # non-integral quantity: int(1000*float) truncates in binary, at most 1 m per leg (<= 99 legs) below the exact floor
            def num(line, which):
                if which == 'text_discipline_sort_key':
                    t = CC.uncps(line[3:]); parts = t.split('_')
                    return int(parts[1]) if len(parts) > 2 and parts[1].isdigit() else None
                f = line.split()
                return int(f[-1]) if f[-1].isdigit() else None
            a, b = num(e, name), num(gl, name)
            if a is None or b is None or abs(a - b) <= 100: continue
        nd += 1
        if nd <= 3: ctx.oblig('correspondence:sort key / distance / duration / unit vs Lean Codes', 'correspondence', False, '%s(%r): implementation %r, model %r' % (name, s, e, gl))
    ctx.count(len(reqs), 'function_lines')
    if nd == 0: ctx.oblig('correspondence:sort key / distance / duration / unit vs Lean Codes', 'correspondence', True)
    # ---- ordering clauses on the implementation
    P = codes
    def fam(s):
        if P.PAT_THROWS.match(s): return 'throws'
        if P.PAT_HURDLES.match(s): return 'hurdles'
        if P.PAT_JUMPS.match(s): return 'jumps'
        if P.PAT_RELAYS.match(s): return 'relays'
        if P.PAT_TRACK.match(s): return 'track'
        return 'other'
    ORDER = {'track': 1, 'hurdles': 2, 'jumps': 3, 'throws': 4, 'relays': 5, 'other': 6}
    for s, k in keys.items():
        if k[0] != ORDER[fam(s)]:
            ctx.fail('athlib.discipline_sort_key', [s], 'category %d (%s)' % (ORDER[fam(s)], fam(s)), repr(k), note='wrong programme category')
        m = re.match(r'^(\d+)$', s)
        if m and s.isascii() and k[:2] != (1, int(s)):
            ctx.fail('athlib.discipline_sort_key', [s], 'track, ordered by distance %d' % int(s), repr(k), note='track not ordered by distance')
        m = re.match(r'^(\d{2,4})[hH]$', s)
        if m and s.isascii() and k[:2] != (2, int(m.group(1))):
            ctx.fail('athlib.discipline_sort_key', [s], 'hurdles, ordered by distance', repr(k), note='hurdles not ordered by distance')
        m = re.match(r'^(\d{1,2})[xX](\d+)$', s)
        if m and s.isascii():
            if k[:2] != (5, int(m.group(2))):
                ctx.fail('athlib.discipline_sort_key', [s], 'relay, ordered by leg distance', repr(k), note='relays not ordered by distance')
            d = athlib.get_distance(s)
            if d != int(m.group(1)) * int(m.group(2)):
                ctx.fail('athlib.get_distance', [s], 'legs x leg distance = %d' % (int(m.group(1)) * int(m.group(2))), repr(d), note='relay distance')
        # kilometre codes with a decimal quantity: the distance is 1000 x the quantity (int(1000*float) may land 1 m below)
        m = re.match(r'^(?:(\d{1,2})[xX])?(\d+)(?:\.(\d+))?(?:k|K|km)$', s)
        if m and s.isascii():
            from fractions import Fraction
            q = Fraction(int(m.group(2) + (m.group(3) or '')), 10 ** len(m.group(3) or ''))
            exact = int(1000 * q); legs = int(m.group(1)) if m.group(1) else 1
            if not m.group(1) and fam(s) == 'track' and not (k[0] == 1 and exact - 1 <= k[1] <= exact):
                ctx.fail('athlib.discipline_sort_key', [s], 'track, ordered by distance %d m' % exact, repr(k), note='track not ordered by distance')
            if m.group(1) and not (k[0] == 5 and exact - 1 <= k[1] <= exact):
                ctx.fail('athlib.discipline_sort_key', [s], 'relay, ordered by its leg distance %d m' % exact, repr(k), note='relays not ordered by distance')
            d = athlib.get_distance(s)
            if d is None or not (legs * (exact - 1) <= d <= legs * exact):
                ctx.fail('athlib.get_distance', [s], ('legs x leg distance = %d' if m.group(1) else 'distance %d m') % (legs * exact), repr(d), note='relay distance' if m.group(1) else 'kilometre distance')
    # relays whose leg carries a unit or a hurdles mark: ordered by the leg's distance in metres (spec-side list)
    for s, legm in [('4x1K', 1000), ('6x5K', 5000), ('4x1.5K', 1500), ('3x2K', 2000), ('4x1M', 1609), ('6x3M', 4827), ('4x100H', 100), ('4x400h', 400),
                    ('4x60', 60), ('4x1500', 1500), ('12x10K', 10000), ('4X2.5K', 2500)]:
        if not codes.PAT_EVENT_CODE.match(s): continue
        st, k = call(athlib.discipline_sort_key, s)
        ctx.count(1, 'relay_unit_legs')
        if st != 'ok' or not (k[0] == 5 and legm - 1 <= k[1] <= legm):
            ctx.fail('athlib.discipline_sort_key', [s], 'relay, ordered by its leg distance %d m: (5, %d, ...)' % (legm, legm), repr(k) if st == 'ok' else st, note='relays not ordered by distance',
                     replay_py='result = athlib.discipline_sort_key(%r)' % s)
    conv = ['HJ', 'PV', 'LJ', 'TJ', 'SP', 'DT', 'HT', 'JT']
    ck = [athlib.discipline_sort_key(c) for c in conv]
    # jumps (3) before throws (4); within each, the conventional order
    if not all(ck[i] < ck[i + 1] for i in range(len(ck) - 1)):
        ctx.fail('athlib.discipline_sort_key', conv, 'HJ < PV < LJ < TJ < SP < DT < HT < JT', repr(ck), note='field events not in the conventional order')
    ks = list(keys.items())
    npairs = 20000 if ctx.quick() else 300000
    for _ in range(npairs):
        (a, ka), (b, kb) = rng.choice(ks), rng.choice(ks)
        if ka[1] >= 100000 or kb[1] >= 100000: continue
        ta = athlib.text_discipline_sort_key(a); tb = athlib.text_discipline_sort_key(b)
        ctx.seen((a, b))
        if (ta < tb) != (ka < kb) or (ta == tb) != (ka == kb):
            ctx.fail('athlib.text_discipline_sort_key', [a, b], 'text keys sort like the tuple keys %r %r' % (ka, kb), '%r %r' % (ta, tb), note='text key order differs from tuple key order')
    ctx.count(npairs, 'text_key_pairs')
    # the text key is a function of the code: "<category>_<order, five digits>_<code>", whatever was keyed before — codes
    # of 100 km and more are keyed in between
    long_codes = [c for c in ['100000', '160900', '4x100K', '4x100M', '200K', '1000000'] if codes.PAT_EVENT_CODE.match(c)]
    tk_sample = [a for a, ka in rng.sample(ks, min(len(ks), 400)) if ka[1] < 100000]
    for rnd in range(2):
        for a in tk_sample:
            ka = keys[a]
            st, ta = call(athlib.text_discipline_sort_key, a)
            want = '%d_%05d_%s' % (ka[0], ka[1], a)
            ctx.count(1, 'text_key_format')
            if st != 'ok' or ta != want:
                ctx.fail('athlib.text_discipline_sort_key', [a], want, ta if st == 'ok' else st,
                         note='text key is not "<category>_<five-digit order>_<code>"' + (' (after keying codes of 100 km and more)' if rnd else ''),
                         replay_py='for c in %r: athlib.text_discipline_sort_key(c)\nresult = athlib.text_discipline_sort_key(%r)' % (long_codes if rnd else [], a))
        for c in long_codes:
            call(athlib.text_discipline_sort_key, c)
    # ---- the sorter
    lists = []
    nl = 300 if ctx.quick() else 5000
    # events of 100 km and more next to shorter ones (the five-digit field of the text key overflows there: the sorter
    # must go by the tuple key)
    LONG = [c for c in ['100000', '20000', '99999', '120000', '25000', '100K', '50K', '150K', '30K', '4x100K', '4x50K', '4x25K', '100M', '50M', '200K', '1000000', '3000', '4x400']
            if codes.PAT_EVENT_CODE.match(c)]
    for _ in range(nl):
        l = [rng.choice(base) for _ in range(rng.randint(0, 9))]
        if l and rng.random() < 0.5: l += [rng.choice(l)]
        if rng.random() < 0.3:
            l += rng.sample(LONG, min(len(LONG), rng.randint(2, 5))); rng.shuffle(l)
        lists.append(l)
    sreq = []; sexp = []
    for l in lists:
        stuff = [dict(discipline=c, n=i) for i, c in enumerate(l)]
        # a missing discipline, in the forms it arrives in: no key, JSON null, empty text
        extra = rng.choice([[dict(n=-1)], [dict(discipline=None, n=-2)], [dict(discipline='', n=-3)], [dict(n=-1), dict(discipline=None, n=-2)]]) if rng.random() < 0.4 else []
        form = rng.random()
        if form < 0.2:
            # the documented attr= option: the discipline under another name, in dicts ...
            stuff = [dict(e=c, n=i) for i, c in enumerate(l)]; extra = [dict(n=-1)] if extra else []
            st, res = call(athlib.sort_by_discipline, stuff + extra, 'e')
            get = lambda d: d.get('e')
        elif form < 0.4:
            # ... and in objects, under the default name or another one
            import types
            nm = rng.choice(['discipline', 'event', 'e'])
            stuff = [types.SimpleNamespace(**{nm: c, 'n': i}) for i, c in enumerate(l)]; extra = [types.SimpleNamespace(n=-1)] if extra else []
            st, res = (call(athlib.sort_by_discipline, stuff + extra) if nm == 'discipline' and rng.random() < 0.5 else call(athlib.sort_by_discipline, stuff + extra, attr=nm))
            get = lambda d, nm=nm: getattr(d, nm, None)
        else:
            st, res = call(athlib.sort_by_discipline, stuff + extra)
            get = lambda d: d.get('discipline')
        if st != 'ok':
            ctx.fail('athlib.sort_by_discipline', [l], 'a sorted list', st, note='sorter raises'); continue
        if sorted(map(repr, res)) != sorted(map(repr, stuff + extra)):
            ctx.fail('athlib.sort_by_discipline', [l], 'a permutation of the input', repr(res), note='sorter loses or invents entries')
        kk = [athlib.discipline_sort_key(get(d)) for d in res]
        if any(kk[i] > kk[i + 1] for i in range(len(kk) - 1)):
            ctx.fail('athlib.sort_by_discipline', [l], 'sorted by discipline_sort_key', repr(kk), note='sorter output not sorted')
        if not extra and l:
            sreq.append('cd\tsort\t' + '|'.join(CC.cps(c) for c in l)); sexp.append('ok ' + '|'.join(CC.cps(get(d)) for d in res))
    sg = vlib.driver(sreq)
    nd2 = sum(1 for e, g_ in zip(sexp, sg) if e.strip() != g_.strip())
    ctx.count(len(lists), 'sorter_lists')
    ctx.oblig('correspondence:sort_by_discipline vs Lean Codes.sortBy', 'correspondence', nd2 == 0,
              '' if nd2 == 0 else next('%r vs %r' % (e, g_) for e, g_ in zip(sexp, sg) if e.strip() != g_.strip()))
    ctx.stats['codes'] = len(base)
    for s in base[:3] + base[len(base) // 2:len(base) // 2 + 3]:
        ctx.sample({'code': s, 'key': keys.get(s), 'distance': call(athlib.get_distance, s)[1]})
