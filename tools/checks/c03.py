"""C03 — High jump: final placings follow the countback rule and the jump-off result.
Lean: Props/C03.lean (places are a function of the ranking keys: 1 + number of strictly better keys, shared
for equal keys; a clearance never lowers the best; ...) over the transcription Model/HJ.lean;
tie: the C02 correspondence (same model) + structured enumeration of complete competitions on the real
object judged by the referee of tools/hj_common.py (places from the cards alone)."""
import collections, itertools
import vlib
import hj_common as H

THEOREMS = ['keyLt_strictTotal', 'C03_places_from_keys', 'C03_equal_keys_share', 'C03_first_place_exists',
            'C03_sortRanked_is_key_sort', 'C03_best_never_decreases', 'C03_best_is_a_cleared_height',
            'C03_unplaced_iff_no_clearance', 'placesInv_reachable', 'C03_ranked_is_permutation',
            'C03_places_every_decided_state', 'C03', 'C03_ties_and_order', 'allBest_reachable',
            'C03_best_is_greatest_cleared', 'C03_best_column_unique', 'C03_card_within_heights', 'decided_reachable',
            'C03_one_winner', 'C03_winner_still_in', 'C03_draw_is_a_tie']

def judge_final(ctx, athlib, ops, c, r, stats):
    """at a terminal state compare state, places and bests with the referee"""
    if r.fuzzy: stats['abstained'] += 1; return
    hist = H.fmt_ops(ops)
    def fail(expected, got, note):
        fl = getattr(c, '_verif_float', False)
        ctx.fail('HighJumpCompetition', hist + (['(bar heights passed as float)'] if fl else []), expected, got, note=note + (' [float heights]' if fl else ''), replay_py=H.replay_py(ops, fl))
    if c.state != r.phase:
        fail('state %s' % r.phase, c.state, 'wrong final state'); return
    bests = {int(j.bib): int(round(j.highest_cleared * 100)) for j in c.jumpers}
    rb = {b: (r.best(b) or 0) for b in r.bibs}
    if bests != rb:
        fail('best = greatest height ever cleared %r' % rb, repr(bests), 'best is not the greatest height cleared')
    if c.state in ('finished', 'won', 'drawn'):
        stats['terminal'] += 1
        pl = r.places()
        got = {int(j.bib): (j.place if j.place != '' else None) for j in c.jumpers}
        if pl != got:
            fail('places from the cards %r' % pl, repr(got), 'places differ from countback / jump-off result')
        firsts = [b for b, p in got.items() if p == 1]
        if c.state == 'finished' and len(firsts) > 1:
            fail('a tie for first is never left standing in a finished competition', repr(got), 'tie for first left standing')
        # competition ranking: places are 1 + number of athletes strictly ahead
        vals = sorted(p for p in got.values() if p is not None)
        for p in vals:
            if p != 1 + sum(1 for q in vals if q < p):
                fail('standard competition ranking (1,2,2,4...)', repr(got), 'not a competition ranking'); break

def run(ctx):
    ctx.rule = ('complete competitions: 2-4 athletes x per-height attempt strings over {o, xo, xxo, xxx, x-, xx-, -, r, xr, xxr, blank} for 1-4 regular heights, '
                'followed by jump-off continuations of up to 3 (quick) / 5 (thorough) heights (raised / repeated / lowered) in which every participant attempts or retires; '
                'quick: exhaustive for 2 athletes x 2 heights + seeded structured sample; thorough: exhaustive 2 athletes x 3 heights and 3 athletes x 2 heights + larger sample; '
                'distinct = distinct final cards; non-trivial = competition reached finished / won / drawn')
    ctx.trusted += ['tools/hj_common.py referee: countback key from the cards (greatest height, failures at its first column, failures up to it), jump-off group order']
    ok, log, failed = ctx.build(['AthlibVerif.Props.C03'])
    if ok:
        P = 'AthlibVerif.Props.C03.'
        ctx.audit(['AthlibVerif.Props.C03'], [P + n for n in THEOREMS])
        if not ctx.quick():
            ctx.leanchecker(['AthlibVerif.Props.C03'])
    vlib.use_repo()
    import athlib
    rng = ctx.rng
    stats = collections.Counter()
    lines = []; expect = []
    def run_one(ops, c, r):
        stats['competitions'] += 1
        stats['state_' + c.state] += 1
        judge_final(ctx, athlib, ops, c, r, stats)
        ctx.seen(H.snap(c).split('|')[2])
        lines.append('hj\tnew'); expect.append(None)
        ops = [op for op in ops if op[0] != 'peek']                 # the model has no read-only views
        for op in ops[:-1]:
            lines.append(H.op_line(op)); expect.append(None)
        # the model must end in the same observable state (only the last reply is compared: outcome + snapshot)
        c2 = H.new_comp(athlib, getattr(c, '_verif_float', False))
        for op in ops[:-1]: H.apply_op(athlib, c2, op)
        out = H.apply_op(athlib, c2, ops[-1]) if ops else 'ok'
        if ops:
            lines.append(H.op_line(ops[-1])); expect.append(out + '|' + H.snap(c2))
    # ---- exhaustive small configurations: every assignment of attempt strings
    configs = [(2, 2)] if ctx.quick() else [(2, 3), (3, 2)]
    for nath, nh in configs:
        for assign in itertools.product(range(len(H.ATT)), repeat=nath * nh):
            it = iter(assign)
            plan = [[H.ATT[next(it)] for _ in range(nath)] for _ in range(nh)]
            seq = iter([x for row in plan for x in row])
            ops, c, r = H.gen_competition(rng, athlib, nath=nath, nheights=nh, jo_heights=3, att_choice=lambda g: next(seq))
            run_one(ops, c, r)
    stats['exhaustive_configs'] = len(configs)
    # ---- seeded structured sample (incl. tie-heavy plans that force multi-round jump-offs)
    n = 12000 if ctx.quick() else 120000
    for i in range(n):
        if i % 12 == 0:
            # long jump-offs of three or four athletes level on clean cards: bars at or below the tied best, mostly cleared
            na_ = rng.randint(3, 4); nh_ = rng.randint(2, 3)
            plan_ = iter([x for hh in range(nh_) for x in (['xxx'] * na_ if hh == nh_ - 1 else [rng.choice(['o', 'o', 'xo'])] * na_)])
            ops, c, r = H.gen_competition(rng, athlib, nath=na_, nheights=nh_, jo_heights=7,
                                          att_choice=lambda g: next(plan_), jo_letters=('oxr', [6, 4, 1]) if i % 24 == 0 else ('ox', [3, 2]), peek=(i % 24 == 12))
        elif i % 3 != 2:
            ops, c, r = H.gen_competition(rng, athlib, nath=rng.randint(2, 4), nheights=rng.randint(1, 3), jo_heights=3 if ctx.quick() else 5,
                                          att_choice=lambda g: g.choice(['o', 'o', 'o', 'xo', 'xo', 'xxx', 'xxx']), peek=(i % 6 == 1))
        elif i % 2:
            # bar heights as Python floats (as the unit tests pass them), from anywhere between 1.00 and 2.60, 1-5 cm steps
            ops, c, r = H.gen_competition(rng, athlib, float_heights=True, h0=rng.randint(100, 260), steps=(1, 1, 2, 3, 5),
                                          att_choice=(lambda g: g.choice(['o', 'o', 'o', 'xo', 'xo', 'xxx', 'xxx'])) if i % 4 == 1 else None)
        else:
            ops, c, r = H.gen_competition(rng, athlib, peek=(i % 4 == 2), jo_heights=3 if ctx.quick() else 5, probes=(i % 12 < 6))
        run_one(ops, c, r)
        if i < 3: ctx.sample({'calls': H.fmt_ops(ops), 'state': c.state, 'places': {j.bib: j.place for j in c.jumpers}})
    got = vlib.driver(lines)
    nd = 0
    for e, g in zip(expect, got):
        if e is None: continue
        ctx.count(1, 'final_states_compared_with_model')
        if e != g:
            nd += 1
            if nd <= 3:
                ctx.oblig('correspondence:final state vs Lean HJ model', 'correspondence', False, 'implementation %s | model %s' % (e, g))
    if nd == 0:
        ctx.oblig('correspondence:final state vs Lean HJ model', 'correspondence', True)
    ctx.stats.update(stats)
    ctx.count(stats['competitions'], 'competitions_judged_by_referee')
