"""C01 — combined-events points equal the official formula on the decimal mark.
Lean: Props/C01.lean (exact model = the formula over Real.rpow; rounding; young athletes; unknown pairs);
tie: coefficients and age table regenerated from source (T) + correspondence of athlon_score with the model (C),
exhaustive over the 0.01 grid in the thorough tier."""
import os, sys, json
from fractions import Fraction
import vlib, gen_tables
import athlon_common as AC

AGES_Q = [1, 29, 34, 35, 39, 40, 67, 100, 110, 111, 115]

def gen_step(ctx):
    try:
        files, side = gen_tables.gen_athlon(vlib.REPO, vlib.GEN)
    except Exception as e:
        ctx.oblig('translate:athlon tables', 'translator', False, repr(e))
        return None
    ch = [p for p, t in files.items() if vlib.write_if_changed(p, t)]
    if ch: ctx.notes.append('regenerated: ' + ', '.join(os.path.basename(p) for p in ch))
    return side

def requests(ctx, side, codes):
    """yield (gender, event, k, age, esaa, value) tuples"""
    rng = ctx.rng
    ag = json_ages(); ages_tab = {'m': ag['m'], 'f': ag['f']}; ages_list = ag['ages']
    rows = [AC.Row(o) for o in [dict(gender=r['gender'], event_code=r['event_code'], A=r['A'], Z=r['Z'], X=r['X']) for r in side['table']]]
    out = []
    quick = ctx.quick()
    for row in rows:
        kind = AC.kind_of(codes, row.event)
        km = AC.kmax(row, kind)
        zk = row.z100 // 100 if kind == 'jump' else row.z100
        if quick:
            ks = set(range(0, km + 1, 41))
            ks |= {k for k in range(0, km + 1) if AC.hazard(k)} if km < 60000 else {k for k in range(0, km + 1, 7) if AC.hazard(k)}
            ks |= set(range(max(0, zk - 5), zk + 6)) | set(range(0, 4))
            for _ in range(150):
                c = rng.randrange(0, km + 1); ks |= {c, min(km, c + 1)}
        else:
            ks = range(0, km + 1)
        for k in ks:
            v = k / 100.0
            out.append((row.gender, row.event, k, None, False, v))
            if k % 100 == 0 and (quick or k % 500 == 0):
                out.append((row.gender, row.event, k, None, False, k // 100))     # int form
        # ages
        ages = AGES_Q if quick else list(range(1, 121))
        aks = sorted(rng.sample(range(0, km + 1), 60 if quick else 400)) + [zk - 1, zk, zk + 1]
        for k in aks:
            if k < 0: continue
            for a in ages:
                out.append((row.gender, row.event, k, a, False, k / 100.0))
        for k in rng.sample(range(0, km + 1, 100), min(12 if quick else 60, len(range(0, km + 1, 100)))):
            for a in ages:
                out.append((row.gender, row.event, k, a, False, k // 100))      # int form with an age
        if not quick:
            # whole grid for two seed-chosen masters bands
            for a in rng.sample([35, 40, 45, 50, 55, 60, 65, 70, 75, 80], 2):
                for k in range(0, km + 1, 1 if km < 60000 else 16):
                    out.append((row.gender, row.event, k, a, False, k / 100.0))
        # exact-product hazard: marks whose age-adjusted value k*f is a whole number of hundredths
        for g_tab in (ages_tab.get(row.gender.lower(), {}),):
            fr = athlon_row_for(g_tab, row.event)
            if fr is None: continue
            for bi, f in enumerate(fr):
                fN = int(Fraction(f) * 10000)
                if fN <= 0: continue
                import math as _m
                step = 10000 // _m.gcd(fN, 10000)
                cand = list(range(step, km + 1, step))
                if len(cand) > 400: cand = rng.sample(cand, 400)
                age = ages_list[bi + 1] if bi + 1 < len(ages_list) else None
                if age is None: continue
                for k in cand:
                    out.append((row.gender, row.event, k, age + rng.randrange(0, 5), False, k / 100.0))
                # the same hazard with the mark handed over as an int (whole metres / seconds)
                lcm100 = step * 100 // _m.gcd(step, 100)
                candw = list(range(lcm100, km + 1, lcm100))
                if len(candw) > 40: candw = rng.sample(candw, 40)
                for k in candw:
                    out.append((row.gender, row.event, k, age + rng.randrange(0, 5), False, k // 100))
        else_k = [k for k in aks if k >= 0][:12]
        if row.key() != 'M-800':
            # the English Schools option concerns the boys' 800 m only: every other row scores as without it
            for k in else_k:
                out.append((row.gender, row.event, k, None, True, k / 100.0))
                out.append((row.gender, row.event, k, 52, True, k / 100.0))
        if row.key() == 'M-800':
            for k in (ks if quick else range(0, km + 1)):
                out.append((row.gender, row.event, k, None, True, k / 100.0))
            for k in aks:
                if k >= 0:
                    for a in (35, 52):
                        out.append((row.gender, row.event, k, a, True, k / 100.0))
    # glue: spellings, veterans' hurdles remap, unknown pairs
    for g, e in [('m', '100'), ('f', 'lj'), ('M', '80H'), ('F', '80H'), ('M', '100H'), ('F', '100H'), ('m', '80H'),
                 ('X', '100'), ('M', 'XYZ'), ('M', ''), ('F', '110H'), ('M', 'DT1.5K'), ('F', 'HEP'), ('M', '4x100')]:
        for k in (0, 900, 1234, 1501, 2000, 650):
            for a in (None, 20, 40):
                out.append((g, e, k, a, False, k / 100.0))
    rng.shuffle(out)          # history independence: option / age / plain calls interleave in a seeded order
    return rows, out

def athlon_row_for(tab, event):
    ev = event.upper()
    if ev.endswith('H') and ev not in ('LH', 'SH', '60H'):
        try: n = int(ev[:-1])
        except ValueError: return None
        ev = 'SH' if n <= 110 else 'LH' if n >= 200 else None
    return tab.get(ev) if ev else None

def run(ctx):
    ctx.rule = ('(gender, event, mark k/100, age, esaa) over the 52 table rows: quick = every float-hazard mark (100*(k/100) != k), '
                'every 41st other mark, +-5 around the zero point, random marks, ages {1,29,34,35,39,40,67,100,110,111,115}; '
                'thorough = the whole 0.01 grid with no age, two whole bands, ages 1..120 on 400 marks per row; '
                'distinct = distinct request tuples; non-trivial = the row exists and the mark is on the scoring side of Z')
    ctx.trusted += ['tools/gen_tables.py (decimal text of every coefficient -> scaled integers; ast of athlon_score.py)',
                    'binary floating point is NOT modelled: the model takes the decimal mark; float behaviour is observed through the correspondence only']
    ctx.assumptions += ['gender/event strings are ASCII (str.upper modelled as ASCII upper-casing)',
                        'events that have a scoring row but no WMA combined-events factor (60, 600, 3000, 5000, 10000, 3000SC) with a masters age: the grader raises ValueError — recorded as the known finding C01-scored-row-without-age-factor (the exact formula has no factor to apply there, so the correspondence itself does not judge these calls)']
    side = gen_step(ctx)
    if side is None: return
    import gen
    g = gen.regex(ctx, ['PAT_JUMPS', 'PAT_THROWS'])
    # ---- Lean: theorems + obligations over the regenerated table
    ok, log, failed = ctx.build(['AthlibVerif.Oblig.C01.Table', 'AthlibVerif.Props.C01'])
    if ok:
        ctx.audit(['AthlibVerif.Props.C01'], ['AthlibVerif.Props.C01.C01_formula', 'AthlibVerif.Props.C01.C01_rounding',
                                               'AthlibVerif.Props.C01.C01_young_unadjusted', 'AthlibVerif.Props.C01.C01_unknown_none',
                                               'AthlibVerif.Props.C01.C01_table_wellformed', 'AthlibVerif.Props.C01.C01_points_are_formula', 'AthlibVerif.Props.C01.C01_rounding_real'])
        if not ctx.quick():
            ctx.leanchecker(['AthlibVerif.Props.C01'])
    # ---- correspondence
    vlib.use_repo()
    import athlib
    from athlib import codes
    rows, reqs = requests(ctx, side, codes)
    rowmap = {r.key(): r for r in rows}
    lines = []; impl = []
    # calls that fail part-way (a mark that is no number) are made in between: whatever they raise, they must not
    # change what later calls answer (an option applied to shared rows and not undone when the call raises)
    BAD = ['x', None, float('nan'), [], '12,5']
    faults = {}; nfault = 0
    for i, (g_, e, k, a, esaa, v) in enumerate(reqs):
        if i % 389 == 0:
            for fg, fe, fa, fes in (('M', '800', None, True), ('M', '800', a, True), (g_, e, a, True), (g_, e, a, esaa)):
                bad = BAD[(i // 389 + nfault) % len(BAD)]; nfault += 1
                try: athlib.athlon_score(fg, fe, bad, age=fa, esaa=fes)
                except Exception: pass
                faults[i] = 'athlib.athlon_score(%r, %r, %r, age=%r, esaa=%r)' % (fg, fe, bad, fa, fes)
        lines.append('ath\tscore\t%s\t%s\t%d\t%s\t%d' % (g_, e, k, '-' if a is None else a, 1 if esaa else 0))
        impl.append(AC.canon(lambda: athlib.athlon_score(g_, e, v, age=a, esaa=esaa)))
    ctx.count(nfault, 'failing_calls_in_between')
    fault_idx = sorted(faults)
    model = vlib.driver_parallel(lines)
    ctx.count(len(lines), 'score_lines')
    ages = json.load(open(os.path.join(vlib.GEN, 'athlon.json')))
    nd = 0; nont = 0
    esaa_row = AC.Row(dict(gender='M', event_code='800', **{k: side['esaa'][k] for k in 'AZX'})) if side.get('esaa') else None
    for i, (rq, im, mo) in enumerate(zip(reqs, impl, model)):
        im2 = 'OtherError' if im.startswith('OtherError') else im
        if im.startswith('p ') and im != 'p 0':
            nont += 1
        if im2 == mo:
            continue
        nd += 1
        g_, e, k, a, esaa, v = rq
        # SEARCH: is it the implementation (property oracle, Python integers) or the model?
        want = oracle(rowmap, esaa_row, codes, athlib, g_, e, k, a, esaa)
        if want is not None and want != mo:
            ctx.oblig('correspondence:Lean Athlon.score vs Python exact oracle', 'correspondence', False,
                      '%r: oracle %s, Lean model %s, implementation %s' % (rq[:5], want, mo, im))
        else:
            prev = [list(r[:5]) for r in reqs[max(0, i - 3):i]]
            import bisect
            j = bisect.bisect_right(fault_idx, i) - 1
            lastfault = faults[fault_idx[j]] if j >= 0 else None
            ctx.fail('athlib.athlon_score', [g_, e, v, a, esaa], mo, im,
                     note=('age' if a else ('int-form' if isinstance(v, int) else 'float-form')) + '; preceding calls in this run: %r; last call made with a non-numeric mark before it: %s' % (prev, lastfault),
                     replay_py=('try: %s\nexcept Exception: pass\n' % lastfault if lastfault else '') + 'result = athlib.athlon_score(%r, %r, %r, age=%r, esaa=%r)' % (g_, e, v, a, esaa))
    # ---- scored rows for which the combined-events age table has no factor (60, 600, 3000, 5000, 10000, 3000SC): the property
    # quantifies over every row x every age and promises a non-negative integer; the library raises (recorded as a known finding)
    nnf = 0
    for (g_, ev_) in sorted({(r.gender, r.event) for r in rows}):
        if oracle(rowmap, esaa_row, codes, athlib, g_, ev_, 1000, 50, False) is not None: continue
        for a_ in (35, 50, 110):
            nnf += 1
            got_ = AC.canon(lambda: athlib.athlon_score(g_, ev_, 10.0, age=a_))
            if not got_.startswith('p '):
                ctx.fail('athlib.athlon_score', [g_, ev_, 10.0, a_, False], 'a non-negative integer (a scored row, a masters age)', got_,
                         note='scored row without a combined-events age factor: a masters age raises',
                         replay_py='result = (athlib.athlon_score(%r, %r, 10.0), athlib.athlon_score(%r, %r, 10.0, age=%r))' % (g_, ev_, g_, ev_, a_))
    ctx.count(nnf, 'rows_without_age_factor_calls')
    # ---- the coefficient table against the specification-side copy of the official table (the model is regenerated from
    # the tree's own table, so a mistyped coefficient would move model and implementation together)
    pinned_rows = json.load(open(os.path.join(vlib.VERIF, 'spec', 'athlon_coefficients_pinned.json')))['table']
    pmap = {('%s-%s' % (o['gender'], o['event_code'])).upper(): o for o in pinned_rows}
    lmap = {('%s-%s' % (o['gender'], o['event_code'])).upper(): o for o in side['table']}
    cdiff = [k_ for k_ in sorted(set(pmap) | set(lmap)) if pmap.get(k_) != lmap.get(k_)]
    ctx.oblig('spec:coefficient table of the tree = the pinned copy of the official table', 'correspondence', not cdiff,
              '' if not cdiff else 'rows differ: %r' % [(k_, pmap.get(k_), lmap.get(k_)) for k_ in cdiff[:4]])
    for k_ in cdiff[:12]:
        o_ = pmap.get(k_)
        if o_ is None:
            # a row the official table does not have: the pair must give no score
            l_ = lmap[k_]
            got_ = AC.canon(lambda: athlib.athlon_score(l_['gender'], l_['event_code'], 12.5))
            if got_ != 'none':
                ctx.fail('athlib.athlon_score', [l_['gender'], l_['event_code'], 12.5, None, False], 'none (the official table has no such row)', got_,
                         note='table-row: the coefficient table of the tree has a row the official table lacks',
                         replay_py='result = athlib.athlon_score(%r, %r, 12.5)' % (l_['gender'], l_['event_code']))
            continue
        r_ = AC.Row(dict(gender=o_['gender'], event_code=o_['event_code'], A=o_['A'], Z=o_['Z'], X=o_['X']))
        kind_ = AC.kind_of(codes, r_.event)
        km_ = AC.kmax(r_, kind_)
        for kmark in sorted(set(range(1, km_ + 1, max(1, km_ // 400))) | {km_}):
            want_ = AC.exact_points(r_, kind_, kmark)
            if want_ <= 0: continue
            got_ = AC.canon(lambda: athlib.athlon_score(r_.gender, r_.event, kmark / 100.0))
            if got_ != 'p %d' % want_:
                ctx.fail('athlib.athlon_score', [r_.gender, r_.event, kmark / 100.0, None, False],
                         'p %d: the official formula with A=%s Z=%s X=%s (the tree has %r)' % (want_, o_['A'], o_['Z'], o_['X'], lmap.get(k_)), got_,
                         note='table-cell: the coefficient table of the tree differs from the official table',
                         replay_py='result = athlib.athlon_score(%r, %r, %r)' % (r_.gender, r_.event, kmark / 100.0))
                break
    # ---- the age-factor table itself against the specification-side copy (the model reads the tree's own JSON)
    import wma_pinned
    dd = [d for d in wma_pinned.diffs(vlib.REPO) if d[0] == 'wma-athlons-data.json']
    ctx.oblig('spec:combined-events age factors of the tree = the pinned copy of the published table', 'correspondence', not dd,
              '' if not dd else '%d cells / rows differ, e.g. %r' % (len(dd), dd[0]))
    if dd:
        pa = wma_pinned.load_pinned()['wma-athlons-data.json']['ages']
        from fractions import Fraction
        for f_, g_, ev_, k_, pv_, lv_ in dd[:40]:
            if g_ is None or ev_ is None or k_ is None or k_ - 1 >= len(pa) or isinstance(pv_, str) or pv_ is None: continue
            age_ = pa[k_ - 1]
            if age_ < 35: continue
            r_ = rowmap.get(('%s-%s' % (g_, ev_)).upper())
            if r_ is None: continue
            kind_ = AC.kind_of(codes, ev_)
            # a mark on the scoring side, scored in exact arithmetic with the PUBLISHED factor
            for kmark in ([r_.z100 * 7 // 10, r_.z100 * 9 // 10] if kind_ == 'track' else [r_.z100 * 3 // 100, r_.z100 * 2 // 100] if kind_ == 'jump' else [r_.z100 * 4, r_.z100 * 8]):
                want_ = AC.exact_points(r_, kind_, AC.exact_adjust(kind_, kmark, Fraction(str(pv_))))
                if want_ <= 0: continue
                got_ = AC.canon(lambda: athlib.athlon_score(g_.upper(), ev_, kmark / 100.0, age=age_))
                if got_ != 'p %d' % want_:
                    ctx.fail('athlib.athlon_score', [g_.upper(), ev_, kmark / 100.0, age_, False],
                             'p %d: the score with the published age factor %r for age %d (table row %s, column %d; the tree has %r)' % (want_, pv_, age_, ev_, k_, lv_),
                             got_, note='table-cell: the age-factor table of the tree differs from the published table',
                             replay_py='result = (athlib.wma_athlon_age_factor(%r, %r, %r), athlib.athlon_score(%r, %r, %r, age=%r))' % (g_, age_, ev_, g_.upper(), ev_, kmark / 100.0, age_))
                break
    ctx.stats['disagreements'] = nd
    ctx.stats['nontrivial_lines'] = nont
    ctx.distinct = set(range(nont))
    if nd == 0:
        ctx.oblig('correspondence:athlon_score vs Lean Athlon.score', 'correspondence', True)
    # cross-check the Lean model against the independent Python oracle on a sample
    samp = ctx.rng.sample(range(len(reqs)), min(len(reqs), 4000 if ctx.quick() else 40000))
    bad = 0
    for i in samp:
        g_, e, k, a, esaa, v = reqs[i]
        want = oracle(rowmap, esaa_row, codes, athlib, g_, e, k, a, esaa)
        if want is not None and want != model[i]:
            bad += 1
            if bad <= 3:
                ctx.oblig('correspondence:Lean Athlon.score vs Python exact oracle', 'correspondence', False,
                          '%r: oracle %s, Lean model %s' % (reqs[i][:5], want, model[i]))
    ctx.count(len(samp), 'oracle_crosscheck_lines')
    if bad == 0:
        ctx.oblig('correspondence:Lean Athlon.score vs Python exact oracle', 'correspondence', True)
    for i in samp[:8]:
        ctx.sample({'request': list(reqs[i][:5]), 'implementation': impl[i], 'model': model[i]})
    ctx.exhaustive = not ctx.quick()

def oracle(rowmap, esaa_row, codes, athlib, g, e, k, a, esaa):
    """what C01 demands, computed with Python integers from the live table; None = not demanded"""
    ev = e
    if g == 'F' and e == '80H': ev = '100H'
    elif g == 'M' and e in ('80H', '100H'): ev = '110H'
    key = ('%s-%s' % (g, ev)).upper()
    if key not in rowmap: return 'none'
    ag = json_ages()
    try:
        if a and a >= ag['min_age']:
            f = athlon_factor(ag, g, a, e)
            if f is None: return None        # the grader has no factor: outside the property
        else:
            f = Fraction(1)
    except Exception:
        return None
    row = rowmap[key]
    if key == 'M-800' and esaa and esaa_row is not None: row = esaa_row
    kind = AC.kind_of(codes, ev)
    return 'p %d' % AC.exact_points(row, kind, AC.exact_adjust(kind, k, f))

_ages = None
def json_ages():
    global _ages
    if _ages is None:
        from decimal import Decimal
        d = json.load(open(os.path.join(vlib.REPO, 'athlib', 'wma', 'wma-athlons-data.json')), parse_float=lambda s: Decimal(s))
        side = json.load(open(os.path.join(vlib.GEN, 'athlon.json')))
        _ages = {'min_age': side['min_age'], 'ages': [int(x) for x in d['ages']],
                 'm': {str(r[0]): r[1:] for r in d['m']}, 'f': {str(r[0]): r[1:] for r in d['f']}}
    return _ages

def athlon_factor(ag, g, a, e):
    ev = e.upper()
    if ev.endswith('H') and ev not in ('LH', 'SH', '60H'):
        n = int(ev[:-1])
        if n <= 110: ev = 'SH'
        elif n >= 200: ev = 'LH'
        else: return None
    gg = g.lower()[:1]
    if gg not in ('m', 'f'): return None
    row = ag[gg].get(ev)
    if row is None: return None
    band = a // 5 * 5
    ages = ag['ages']
    i = 0
    while i < len(ages) and ages[i] < band: i += 1
    if i >= len(ages): i = len(ages) - 1
    if i == 0: return None
    return Fraction(row[i - 1])
