"""C17 — implement weights and weight-specific codes stay inside the vocabulary.
Lean: Props/C17.lean over the decision tree regenerated from the Python ast (T) and the table keys read from
the live tables; obligations kernel-decided; exhaustive cross-check of the translation against the live
functions on events x genders x labels, and the property itself on the implementation."""
import os, sys
import vlib, gen, gen_implements

THROWS = ['SP', 'DT', 'HT', 'JT', 'WT']
LIB_LABELS = ['U9', 'U11', 'U13', 'U15', 'U17', 'U20', 'U23', 'SEN'] + ['V%02d' % a for a in range(35, 155, 5)]
OTHER = ['U14', 'U16', 'U18', 'V30', 'XYZ', '', 'v50', 'V5', 'V999', 'V100 ', 'VET', 'V07', 'V', 'V0100', 'W50', 'V9', 'V95', 'V96', 'V099']
THEOREMS = ['C17_leaves', 'C17_passthrough', 'C17_code_shape', 'C17_code_generic_when_no_weight', 'C17_code_total', 'C17_masters_mono', 'C17_codes_valid', 'C17_codes_in_language', 'C17_table_keys']

def cps(s): return ' '.join(str(ord(c)) for c in s)

def run(ctx):
    ctx.rule = ('events {SP, DT, HT, JT, WT} + other valid codes x genders {M, F, m, X} x every label the library produces (U9..U20, U23, SEN, V35..V150) + odd and seeded random labels '
                '(exhaustive over that finite set); all keys of the combined-events, Hungarian, Tyrving, QuadKids, Sportshall, Bulgarian and WMA tables; '
                'distinct = distinct (event, gender, label) triples and keys; non-trivial = a weight is tabulated / the key is a key of a live table')
    ctx.trusted += ['tools/gen_implements.py (Python ast of get_implement_weight -> ordered rules; live table keys), cross-checked exhaustively against the live function on the finite domain']
    ctx.assumptions += ['labels are ASCII (str.isdigit / int() on non-ASCII digits are not modelled)',
                        'where no weight is tabulated (under-13 labels, unknown labels) get_specific_event_code hands back the generic code (repaired: it used to raise ValueError, which this check had recorded as "observed, not demanded")']
    try:
        f1, info = gen_implements.generate(vlib.REPO, vlib.GEN)
        f2, keys = gen_implements.generate_keys(vlib.REPO, vlib.GEN)
        for p, t in list(f1.items()) + list(f2.items()):
            if vlib.write_if_changed(p, t): ctx.notes.append('regenerated ' + os.path.basename(p))
    except Exception as e:
        ctx.oblig('translate:implements/table keys', 'translator', False, repr(e))
        keys = None
    gen.regex(ctx, ['PAT_THROWS', 'PAT_EVENT_CODE'])
    ok, log, failed = ctx.build(['AthlibVerif.Oblig.C17.Keys', 'AthlibVerif.Oblig.C17.Weights', 'AthlibVerif.Props.C17'])
    if ok:
        ctx.audit(['AthlibVerif.Props.C17'], ['AthlibVerif.Props.C17.' + n for n in THEOREMS])
        if not ctx.quick(): ctx.leanchecker(['AthlibVerif.Props.C17'])
    vlib.use_repo()
    import athlib
    rng = ctx.rng
    labels = LIB_LABELS + OTHER + ['V%d' % rng.randint(0, 400) for _ in range(200)] + \
             [''.join(rng.choice('UVSEN0123456789 ') for _ in range(rng.randint(1, 5))) for _ in range(300 if ctx.quick() else 3000)]
    labels = list(dict.fromkeys(labels))
    events = THROWS + ['LJ', '100', 'SP7.26K', 'sp', 'JT800', 'HJ', '4x100', 'DEC', 'XX']
    genders = ['M', 'F', 'm', 'X']
    # stir first: the labels in forms the library does not produce itself (lower case, padded) and lower-case events are asked
    # BEFORE the proper ones — the answers for the proper labels must not depend on that (judged below)
    stir = [f(a) for a in LIB_LABELS[1::2] for f in (str.lower, lambda x: ' ' + x, lambda x: x + ' ')]       # every other label: a poisoned answer then stands out among its neighbours
    for ev in THROWS + [e.lower() for e in THROWS]:
        for g in ('M', 'F', 'm', 'f'):
            for ag in stir:
                try: athlib.get_implement_weight(ev, g, ag)
                except Exception: pass
                try: athlib.get_specific_event_code(ev, g, ag)
                except Exception: pass
    ctx.count(len(stir) * len(THROWS) * 8 * 2, 'stir_calls')
    lines = []; impl = []; reqs = []
    for ev in events:
        for g in genders:
            for ag in labels:
                reqs.append(('weight', ev, g, ag)); lines.append('imp\tweight\t%s\t%s\t%s' % (cps(ev), cps(g), cps(ag)))
                try: impl.append(athlib.get_implement_weight(ev, g, ag))
                except Exception as e: impl.append('Error:' + type(e).__name__)
                reqs.append(('code', ev, g, ag)); lines.append('imp\tcode\t%s\t%s\t%s' % (cps(ev), cps(g), cps(ag)))
                try: impl.append('ok ' + athlib.get_specific_event_code(ev, g, ag))
                except ValueError: impl.append('ValueError')
                except Exception as e: impl.append('Error:' + type(e).__name__)
                ctx.seen((ev, g, ag))
    model = vlib.driver(lines)
    ctx.count(len(lines), 'translation_crosscheck_lines')
    nd = 0
    for rq, im, mo in zip(reqs, impl, model):
        if im != mo:
            nd += 1
            if nd <= 3: ctx.oblig('correspondence:get_implement_weight/get_specific_event_code vs regenerated rules', 'correspondence', False,
                                  '%r: implementation %r, model %r' % (rq, im, mo))
    if nd == 0: ctx.oblig('correspondence:get_implement_weight/get_specific_event_code vs regenerated rules', 'correspondence', True)
    # ---- the property on the implementation
    def fail(fn, args, expected, got, note):
        ctx.fail(fn, args, expected, got, note=note,
                 replay_py='for f in (str.lower, lambda x: " " + x, lambda x: x + " "):\n    for e in (%r, %r):\n        for g in ("M", "F", "m", "f"):\n            try: athlib.get_implement_weight(e, g, f(%r)); athlib.get_specific_event_code(e, g, f(%r))\n            except Exception: pass\nresult = athlib.%s(*%r)'
                           % (args[0], str(args[0]).lower(), args[-1], args[-1], fn.split('.')[-1], tuple(args)))
    nont = 0
    for ev in THROWS:
        for g in ('M', 'F'):
            prev = None
            for ag in LIB_LABELS + [l for l in labels if l not in LIB_LABELS]:      # every label asked above: the code clause holds wherever there is a weight
                try: w = athlib.get_implement_weight(ev, g, ag)
                except Exception as e:
                    fail('athlib.get_implement_weight', [ev, g, ag], 'a weight text (possibly empty)', type(e).__name__, 'the weight look-up raises'); continue
                if ag.startswith('V') and ag in LIB_LABELS:
                    if not w:
                        fail('athlib.get_implement_weight', [ev, g, ag], 'a weight for every masters band (neighbouring bands have one)', repr(w), 'masters band without implement')
                    else:
                        if prev is not None and float(w) > float(prev[1]):
                            fail('athlib.get_implement_weight', [ev, g, ag], 'not heavier than %s for %s' % (prev[1], prev[0]), w, 'masters implement gets heavier with age')
                        prev = (ag, w)
                if not w:
                    # no implement tabulated for this label: the builder still answers — with the generic code (a valid throws code)
                    try: code = athlib.get_specific_event_code(ev, g, ag)
                    except Exception as e: code = 'raises ' + type(e).__name__
                    if code != ev:
                        fail('athlib.get_specific_event_code', [ev, g, ag], '%s (no implement is tabulated for this label: the generic code)' % ev, code, 'no weight tabulated: the builder does not hand back the generic code')
                    continue
                nont += 1
                try:
                    code = athlib.get_specific_event_code(ev, g, ag)
                except Exception as e:
                    fail('athlib.get_specific_event_code', [ev, g, ag], 'a throws code carrying weight %s' % w, type(e).__name__, 'specific code raises'); continue
                good = athlib.codes.PAT_THROWS.match(code) and athlib.check_event_code(code)
                try: norm = athlib.normalize_event_code(code)
                except Exception as e: norm = 'Error:' + type(e).__name__
                num = code[len(ev):].rstrip('Kk')
                try: same = abs(float(num) - float(w)) < 1e-9 and code.startswith(ev)
                except ValueError: same = False
                if not good: fail('athlib.get_specific_event_code', [ev, g, ag], 'a valid throws code', code, 'specific code is not a valid throws code')
                elif norm != code: fail('athlib.get_specific_event_code', [ev, g, ag], 'already normalised', '%s normalises to %s' % (code, norm), 'specific code is not normalised')
                elif not same: fail('athlib.get_specific_event_code', [ev, g, ag], 'weight %s' % w, code, 'specific code carries another weight')
    # ---- the answers must not depend on what was asked before: the same questions in a FRESH interpreter, in the
    # opposite order (falling bands, women first), must get the answers given above
    import subprocess, sys as _sys, json as _json
    first = {}
    for rq, im in zip(reqs, impl):
        first.setdefault(rq, im)                     # what the first sweep above was told
    qs = [(ev, g, ag) for ev in THROWS for g in ('M', 'F') for ag in LIB_LABELS + OTHER]
    orders = {'rising': qs, 'falling': list(reversed(qs))}
    for k in range(2):
        o = list(qs); rng.shuffle(o); orders['shuffled-%d' % k] = o
    answers = {}
    for oname, order in orders.items():
        code_ = ('import sys, json; sys.path.insert(0, %r); import athlib\n'
                 'out = []\n'
                 'for ev, g, ag in json.loads(sys.stdin.read()):\n'
                 '    try: w = athlib.get_implement_weight(ev, g, ag)\n'
                 '    except Exception as e: w = "Error:" + type(e).__name__\n'
                 '    try: c = "ok " + athlib.get_specific_event_code(ev, g, ag)\n'
                 '    except ValueError: c = "ValueError"\n'
                 '    except Exception as e: c = "Error:" + type(e).__name__\n'
                 '    out.append([w, c])\n'
                 'print(json.dumps(out))\n') % (vlib.REPO,)
        pr = subprocess.run([_sys.executable, '-c', code_], input=_json.dumps(order), capture_output=True, text=True, timeout=600)
        try: res = _json.loads(pr.stdout.strip().split('\n')[-1])
        except Exception:
            ctx.oblig('fresh-interpreter sweep of get_implement_weight (%s)' % oname, 'correspondence', False, (pr.stderr or pr.stdout)[-400:]); continue
        for q, r in zip(order, res):
            answers.setdefault(q, []).append((oname + ' order in a fresh interpreter', r))
    nh = 0
    for q in qs:
        ev, g, ag = q
        try: w = athlib.get_implement_weight(ev, g, ag)
        except Exception as e: w = 'Error:' + type(e).__name__
        try: c = 'ok ' + athlib.get_specific_event_code(ev, g, ag)
        except ValueError: c = 'ValueError'
        except Exception as e: c = 'Error:' + type(e).__name__
        got = [('this process, first sweep', [first.get(('weight',) + q), first.get(('code',) + q)]), ('this process, now', [w, c])] + answers.get(q, [])
        nh += len(got)
        if any(x[1] != got[0][1] for x in got):
            ctx.fail('athlib.get_implement_weight', [ev, g, ag], 'one answer, whatever was asked before', '; '.join('%s: %r' % x for x in got),
                     note='the answer depends on what was asked before in the same process',
                     replay_py='first = athlib.get_implement_weight(%r, %r, %r)\nfor g in ("M", "F"):\n    for ag in %r:\n        athlib.get_implement_weight(%r, g, ag)\nresult = (first, athlib.get_implement_weight(%r, %r, %r))' % (ev, g, ag, LIB_LABELS, ev, ev, g, ag))
    ctx.count(nh, 'history_independence_answers')
    # non-throw codes, weight-specific codes, and the generic throws without an implement table (spec-side list): unchanged
    for ev in ['LJ', '100', 'HJ', '4x100', 'DEC', '60H', 'MAR', 'SP7.26K', 'JT800', 'BT1K', 'OT150',
               'BT', 'OT', 'ST', 'SWT', 'GDT', 'CT', 'SSP', 'SDT', 'SJT', 'SBT', 'TART', 'OHT', 'CHT', 'H1', 'L9', 'BAL', 'XC', '5K', '24HR',
               # accepted spellings with white space inside, lower case: handed back as they came (normalising is another function's job)
               '400H 67.2cm 9.5m', '400H 33', 'DT 1.5 Kg', 'JT 800', '4 x 100', '3000 SC', 'lj', '4X100', 'dt1.5k', '1 Mile', 'SP 7.26K']:
        for g in ('M', 'F'):
            for ag in ('U13', 'SEN', 'V50'):
                try: c = athlib.get_specific_event_code(ev, g, ag)
                except Exception as e: c = 'raises ' + type(e).__name__
                ctx.count(1, 'passthrough')
                if c != ev: fail('athlib.get_specific_event_code', [ev, g, ag], ev, c, 'non-throw code not passed through')
    if keys is not None:
        for tab, k in keys:
            ctx.count(1, 'table_keys'); ctx.seen(('key', k))
            if not athlib.check_event_code(k):
                ctx.fail('athlib.check_event_code', [k], 'accepted (key of the %s table)' % tab, 'rejected', note='table key is not a valid event code',
                         replay_py='result = athlib.check_event_code(%r)' % k)
    ctx.stats['throws_with_weight'] = nont
    ctx.stats['rules'] = info['rules'] if keys is not None else None
    ctx.exhaustive = True
    try: ctx.sample({'request': ['SP', 'M', 'V100'], 'weight': athlib.get_implement_weight('SP', 'M', 'V100')})
    except Exception as e: ctx.sample({'request': ['SP', 'M', 'V100'], 'weight': 'raises ' + type(e).__name__})
