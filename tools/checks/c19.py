"""C19 — schema validation answers do not depend on what was validated before.
Lean: Props/C19.lean (history independence for every history / truth / capacity, capacity bound, pinned
counter-witness) over Model/Cache.lean, the transcription of the REPAIRED look-up
(fixes/c19-cached-false-expect-failure.diff).
Tie (C): baseline = every distinct call made first in a fresh interpreter with the network stubbed out;
then in-process call sequences (<= 3 calls sharing a key or a file, and long walks that overflow the
20-entry dicts); every outcome must equal its baseline (that IS the property); the same sequences go through
the Lean driver with truth := baseline and must agree as well (model = code)."""
import os, sys, json, glob, itertools, subprocess
from concurrent.futures import ThreadPoolExecutor
import vlib
import c19_child as CH

CHILD = os.path.join(os.path.dirname(os.path.abspath(CH.__file__)), 'c19_child.py')
VALIDATORS = ['Draft3Validator', 'Draft4Validator']
MORE_VALIDATORS = ['Draft6Validator', 'Draft7Validator']      # the other classes a caller may pass (main schemas only)
EXPECTED_ERR = {'sv': 'SchemaError', 'va': 'ValidationError'}
FN_NAME = {'sv': 'athlib.utils.schema_valid', 'va': 'athlib.utils.valid_against_schema'}
KINDS = ['athlete', 'combined_performance', 'competition', 'event', 'performance']
THEOREMS = ['C19_history_independent', 'C19_first_call', 'C19_history_independent_bool', 'C19_after_any_two_histories',
            'C19_capacity', 'C19_capacity_20', 'C19_entries_equal_truth', 'C19_no_iterator_error',
            'C19_answer_is_cached', 'C19_pinned_two_calls', 'C19_pinned_not_history_independent',
            'C19_pinned_same_first_call']


def rel(paths, root):
    return sorted(os.path.relpath(p, root).replace(os.sep, '/') for p in paths)


def domain(ctx):
    R = vlib.REPO
    main = rel(glob.glob(os.path.join(R, 'json', '*.json')), R)
    defs = rel(glob.glob(os.path.join(R, 'json', 'definitions', '*.json')), R)
    samples = rel(glob.glob(os.path.join(R, 'sample-jsons', '*.json')), R)
    va_schemas = main if ctx.quick() else main + defs
    calls = []
    for s in main + defs:
        for v in VALIDATORS + (MORE_VALIDATORS if s in main else []):
            for ef in (False, True):
                calls.append(('sv', s, v, ef))
    for sch in va_schemas:
        for d in samples:
            for ef in (False, True):
                calls.append(('va', d, sch, ef))
    if ctx.quick():
        # quick: the definition schemas (one of them is itself not a valid schema) with two documents each
        for sch in defs:
            for d in samples[:2]:
                for ef in (False, True):
                    calls.append(('va', d, sch, ef))
    # the schema named in its short forms ('athlete.json', 'json\\athlete.json': resolved through the search list of localpath)
    for k in KINDS:
        for sp in short_forms(k):
            for d in ('sample-jsons/%s.json' % k, 'sample-jsons/%s_invalid.json' % k):
                if d in samples and 'json/%s.json' % k in main:
                    for ef in (False, True):
                        calls.append(('va', d, sp, ef))
            for ef in (False, True):
                calls.append(('sv', sp, 'Draft4Validator', ef))
    return main, defs, samples, calls


def short_forms(k):
    return ['%s.json' % k, 'json\\%s.json' % k]


def expectations(main, samples):
    """what tests/test_json.py expects of the bundled files: (call-key, 'valid' | 'invalid')"""
    ex = []
    S = set(samples); M = set(main)
    def va(d, s, verdict):
        if 'sample-jsons/' + d in S and 'json/' + s in M:
            ex.append((('va', 'sample-jsons/' + d, 'json/' + s), verdict))
    for k in KINDS:
        va(k + '.json', k + '.json', 'valid'); va(k + '_minimal.json', k + '.json', 'valid')
        va(k + '.json', 'metaschema.json', 'valid'); va(k + '_invalid.json', 'metaschema.json', 'invalid')
        for d in samples:
            b = os.path.basename(d)
            if b.startswith(k + '_invalid'):
                va(b, k + '.json', 'invalid')
    for k in KINDS:
        for sp in short_forms(k):
            if 'json/%s.json' % k in M:
                if 'sample-jsons/%s.json' % k in S: ex.append((('va', 'sample-jsons/%s.json' % k, sp), 'valid'))
                if 'sample-jsons/%s_invalid.json' % k in S: ex.append((('va', 'sample-jsons/%s_invalid.json' % k, sp), 'invalid'))
                ex.append((('sv', sp, 'Draft4Validator'), 'valid'))
    for d in samples:
        b = os.path.basename(d)
        if b.startswith('race_invalid'): va(b, 'race.json', 'invalid')
        elif b.startswith('race_'): va(b, 'race.json', 'valid')
    for s in ('metaschema', 'performance', 'race'):
        for v in VALIDATORS:
            if 'json/%s.json' % s in M: ex.append((('sv', 'json/%s.json' % s, v), 'valid'))
    # the schemas under definitions/ (reached through $ref by the main ones), checked as schemas in their own right under
    # draft 4 — a specification-side list of the bundle's state (vertical_jump_performance is itself not a valid schema)
    for s, verdict in (('field_performance', 'valid'), ('horizontal_jump_performance', 'valid'), ('jump_performance', 'valid'),
                       ('throw_performance', 'valid'), ('track_performance', 'valid'), ('vertical_jump_performance', 'invalid')):
        ex.append((('sv', 'json/definitions/%s.json' % s, 'Draft4Validator'), verdict))
    for s in ('athlete', 'combined_performance', 'competition', 'event'):
        if 'json/%s.json' % s in M:
            ex.append((('sv', 'json/%s.json' % s, 'Draft3Validator'), 'invalid'))
            ex.append((('sv', 'json/%s.json' % s, 'Draft4Validator'), 'valid'))
    return ex


def baseline(ctx, calls):
    """each call made first in a fresh interpreter, network stubbed"""
    env = dict(os.environ)
    def one(call):
        p = subprocess.run([sys.executable, CHILD, vlib.REPO, json.dumps(list(call))], capture_output=True, text=True,
                           timeout=600, env=env)
        try:
            return json.loads(p.stdout.strip().split('\n')[-1])
        except Exception:
            raise vlib.InternalError('baseline child failed for %r: rc=%s %s' % (call, p.returncode, p.stderr[-600:]))
    with ThreadPoolExecutor(max_workers=min(16, os.cpu_count() or 4)) as ex:
        res = list(ex.map(one, calls))
    base = {}; net = {}
    for c, r in zip(calls, res):
        if not r['file'].startswith(vlib.REPO):
            raise vlib.InternalError('child imported athlib from %s' % r['file'])
        base[c] = r['outcome']
        if r['net']: net[c] = r['net']
    return base, net


def truth_of(base, key):
    """'1' / '0' / 'e' when the two baselines of a key have the shape the model describes, else None"""
    oF, oT = base[key + (False,)], base[key + (True,)]
    if oF == 'True' and oT == 'True': return '1'
    if oF == 'False' and oT == EXPECTED_ERR[key[0]]: return '0'
    if oF == oT and oF not in ('True', 'False'): return 'e'
    return None


def replay_src(seq):
    return ('import athlib.utils as U, jsonschema, io, contextlib\n'
            'for n, v in vars(U).items():\n'
            '    if "cache" in n.lower() and isinstance(v, dict): v.clear()\n'
            'out = []\n'
            'for fn, a, b, ef in %r:\n'
            '    try:\n'
            '        with contextlib.redirect_stdout(io.StringIO()):\n'
            '            pos = (len(a) + len(b)) %% 2 == 1      # the harness gives half of the calls positionally\n'
            '            if fn == "sv": r = U.schema_valid(a, getattr(jsonschema, b), ef) if pos else U.schema_valid(a, validator=getattr(jsonschema, b), expect_failure=ef)\n'
            '            else: r = U.valid_against_schema(a, b, ef) if pos else U.valid_against_schema(a, b, expect_failure=ef)\n'
            '        out.append(repr(r))\n'
            '    except Exception as e:\n'
            '        out.append(type(e).__name__)\n'
            'result = out\n') % ([list(c) for c in seq],)


def sequences(ctx, main, defs, samples, calls):
    """(label, sequence) pairs"""
    rng = ctx.rng; quick = ctx.quick()
    seqs = []
    by_key = {}
    for c in calls: by_key.setdefault(c[:3], []).append(c)
    sv_by_schema = {}; va_by_doc = {}; va_by_schema = {}
    for c in calls:
        if c[0] == 'sv': sv_by_schema.setdefault(c[1], []).append(c)
        else:
            va_by_doc.setdefault(c[1], []).append(c); va_by_schema.setdefault(c[2], []).append(c)
    # 1. schema_valid: every sequence of length <= 3 over the four calls of one schema file (both validators,
    #    both flags) — covers "same key" and "same file, other validator" exhaustively
    for s, cs in sorted(sv_by_schema.items()):
        old_cs = [c for c in cs if c[2] in VALIDATORS]
        for n in (1, 2, 3):
            # quick: length 3 exhaustively over the two customary validator classes, length <= 2 over all four, and a
            # seeded sample of length-3 sequences that mix them; thorough: everything
            pool = cs if (n <= 2 or not quick) else old_cs
            for t in itertools.product(pool, repeat=n):
                seqs.append(('sv-file', t))
        if quick and len(cs) > len(old_cs):
            for _ in range(40):
                seqs.append(('sv-file', tuple(rng.choice(cs) for _ in range(3))))
    # 2. valid_against_schema: every flag sequence of length <= 3 on one key
    va_keys = sorted(k for k in by_key if k[0] == 'va')
    chosen = va_keys
    if quick and len(va_keys) > 200:
        must = [k for k in va_keys if os.path.basename(k[1]).split('_')[0].split('.')[0] in os.path.basename(k[2])
                or 'metaschema' in k[2]]
        ms = set(must)
        rest = [k for k in va_keys if k not in ms]
        chosen = sorted(ms | set(rng.sample(rest, min(len(rest), 120))))
    for k in chosen:
        for n in (1, 2, 3):
            for fl in itertools.product((False, True), repeat=n):
                seqs.append(('va-key', tuple(k + (ef,) for ef in fl)))
    # 3. calls that share a file but not the key (same document under several schemas, same schema for several
    #    documents, a schema checked and then used): seeded sample
    groups = [cs for cs in va_by_doc.values()] + [cs for cs in va_by_schema.values()]
    for s, cs in va_by_schema.items():
        groups.append(cs + sv_by_schema.get(s, []))
    groups = [g for g in groups if len(g) >= 2]
    groups.sort()
    if not quick:       # every ordered pair of calls on different keys that share a file
        done = set()
        for g in groups:
            for a in g:
                for b in g:
                    if a[:3] != b[:3] and (a, b) not in done:
                        done.add((a, b)); seqs.append(('pair-shared-file', (a, b)))
    for _ in range(600 if quick else 30000):
        g = rng.choice(groups)
        n = rng.choice((2, 3, 3))
        t = [rng.choice(g) for _ in range(n)]
        if n == 3 and rng.random() < 0.5:           # make two of the three hit the same key
            k = t[0][:3]
            t[rng.choice((1, 2))] = k + (rng.random() < 0.5,)
        seqs.append(('shared-file', tuple(t)))
    # 4. long walks that overflow a 20-entry dict: > 20 distinct keys of one helper, revisited, mixed with the other
    sv_keys = sorted(k for k in by_key if k[0] == 'sv')
    for i in range(60 if quick else 500):
        length = rng.randint(25, 60)
        which = 'sv' if (i % 4 == 3 and len(sv_keys) > 20) else 'va'
        pool_src = sv_keys if which == 'sv' else va_keys
        npool = min(len(pool_src), rng.randint(21, 30), length - 2)
        pool = rng.sample(pool_src, npool)
        other = rng.sample(va_keys if which == 'sv' else sv_keys, min(4, len(sv_keys)))
        t = [k + (rng.random() < 0.4,) for k in pool]                       # every pool key once ...
        while len(t) < length:                                              # ... and revisits / the other helper
            k = rng.choice(pool) if rng.random() < 0.85 else rng.choice(other)
            t.insert(rng.randint(0, len(t)), k + (rng.random() < 0.5,))
        seqs.append(('overflow', tuple(t)))
    # 5. structured evictions: a key whose verdict is 'invalid' (A) and one whose verdict is 'valid' (Z) around exactly
    #    twenty entries — A as the oldest and as the newest entry when the twenty-first key arrives, both roles
    def is_bad(k): return '_invalid' in os.path.basename(k[1]) and os.path.basename(k[1]).split('_invalid')[0] in os.path.basename(k[2])
    def is_good(k): return os.path.basename(k[1]) == os.path.basename(k[2])
    bad = [k for k in va_keys if is_bad(k)]; good = [k for k in va_keys if is_good(k)]
    for r in range(6 if quick else 40):
        if not bad or not good or len(va_keys) < 25: break
        A = rng.choice(bad); Z = rng.choice(good)
        for first, last in ((A, Z), (Z, A)):
            fill = [k for k in rng.sample(va_keys, min(len(va_keys), 40)) if k not in (A, Z)][:19]
            f = [k + (False,) for k in fill]
            a, z = first + (False,), last + (False,)
            seqs.append(('overflow', tuple([a] + f + [z, a, z, f[-1], f[0]])))          # `first` is the oldest entry
            seqs.append(('overflow', tuple(f + [a, z, a, z, f[-1], f[0]])))            # `first` is the newest entry
            seqs.append(('overflow', tuple(f[:10] + [a] + f[10:] + [z, a, f[0], z, a]))) # ... and in the middle
    # 6. the flag given as 0 / 1 (what a caller's `int(...)` or a count hands over) instead of False / True: the same answers.
    #    (1 == True and 0 == False also as dictionary keys, so the baselines and the model line of the bool flag apply.)
    sv_keys = sorted(k for k in by_key if k[0] == 'sv')
    for k in (bad[:6] + good[:3] + sv_keys[:6]):
        for fl in ((0, 1), (1, 0, 1), (False, 1), (0, True), (1,), (0, 0, 1)):
            seqs.append(('flag-forms', tuple(k + (ef,) for ef in fl)))
    return seqs


def run_workers(seqs, nworkers=None):
    """shard the sequences over worker interpreters (tools/c19_child.py --batch)"""
    n = nworkers or max(1, min(8, os.cpu_count() or 2, len(seqs) // 200 + 1))
    shards = [seqs[i::n] for i in range(n)]
    def one(shard):
        p = subprocess.run([sys.executable, CHILD, '--batch', vlib.REPO], input=json.dumps([[list(c) for c in s] for _, s in shard]),
                           capture_output=True, text=True, timeout=3000)
        try:
            r = json.loads(p.stdout.strip().split('\n')[-1])
        except Exception:
            raise vlib.InternalError('sequence worker failed: rc=%s %s' % (p.returncode, p.stderr[-600:]))
        if not r['file'].startswith(vlib.REPO) or len(r['results']) != len(shard):
            raise vlib.InternalError('sequence worker: wrong tree or result count (%s)' % r['file'])
        return r
    with ThreadPoolExecutor(max_workers=n) as ex:
        rs = list(ex.map(one, shards))
    results = [None] * len(seqs); attempts = []; ncaches = 0
    for j, (shard, r) in enumerate(zip(shards, rs)):
        attempts += r['net']; ncaches = max(ncaches, r['ncaches'])
        for i, ((label, seq), (outs, sizes)) in enumerate(zip(shard, r['results'])):
            results[j + i * n] = (label, seq, outs, sizes)
    return results, attempts, ncaches


def run(ctx):
    ctx.rule = ('calls = {schema_valid, valid_against_schema} x every bundled schema (json/*.json, json/definitions/*.json) and '
                'sample x expect_failure x {Draft3Validator, Draft4Validator}; baseline of each distinct call in a fresh '
                'interpreter with the network stubbed; all sequences of length <= 3 over the calls of one schema file '
                '(schema_valid) and over one key (valid_against_schema), '
                'thorough: every ordered pair of calls on different keys sharing a file; a seeded sample of pairs/triples sharing a file (600 / 30000); walks of 25-60 calls that overflow the 20-entry dicts '
                '(quick 60, thorough 500); quick validates documents against json/*.json only; '
                'non-trivial = a sequence in which a key recurs')
    ctx.trusted += ['jsonschema and the file system as the parameter `truth` of the model (observed per key through the fresh-interpreter baseline)',
                    'tools/checks/c19.py, tools/c19_child.py (call canonicalisation, network stubs)']
    ctx.assumptions += ['single-threaded callers (concurrent use of the caches is C16)',
                        'the bundled files do not change while a process runs',
                        'outcome = True / False / exception class; the text athlib prints for a failed check is not an outcome']
    # ---- Lean -----------------------------------------------------------
    ok, log, failed = ctx.build(['AthlibVerif.Props.C19'])
    if ok:
        P = 'AthlibVerif.Props.C19.'
        ctx.audit(['AthlibVerif.Props.C19'], [P + t for t in THEOREMS])
        if not ctx.quick():
            ctx.leanchecker(['AthlibVerif.Props.C19'])
    # ---- baseline ---------------------------------------------------------
    main, defs, samples, calls = domain(ctx)
    if not main or not samples:
        ctx.oblig('domain:bundled schemas and samples found', 'correspondence', False, 'json/ or sample-jsons/ is empty in %s' % vlib.REPO)
        return
    base, net = baseline(ctx, calls)
    ctx.count(len(calls), 'baseline_fresh_interpreters')
    for c, attempts in sorted(net.items()):
        ctx.fail(FN_NAME[c[0]], list(c), 'no network access', 'attempted: %s' % attempts[:3], note='offline',
                 replay_py=replay_src([c]))
    for c, o in sorted(base.items()):
        if o == 'NetworkAccess' and c not in net:
            ctx.fail(FN_NAME[c[0]], list(c), 'no network access', o, note='offline', replay_py=replay_src([c]))
    hist = {}
    for o in base.values(): hist[o] = hist.get(o, 0) + 1
    ctx.stats['baseline_outcomes'] = hist
    # ---- bundled valid samples validate, invalid ones do not --------------------
    nexp = 0
    for key, verdict in expectations(main, samples):
        if key + (False,) not in base: continue
        nexp += 1
        got = (base[key + (False,)], base[key + (True,)])
        want = ('True', 'True') if verdict == 'valid' else ('False', EXPECTED_ERR[key[0]])
        if got != want:
            ctx.fail(FN_NAME[key[0]], list(key), 'bundled %s: (expect_failure=False, True) -> %s' % (verdict, want), str(got),
                     note='bundled', replay_py=replay_src([key + (False,), key + (True,)]))
    ctx.count(nexp, 'bundled_expectations')
    # ---- call sequences inside one interpreter (workers; memo dicts emptied between sequences) -----
    seqs = sequences(ctx, main, defs, samples, calls)
    results, attempts, ncaches = run_workers(seqs)
    if ncaches == 0:
        ctx.notes.append('no module-level *cache* dict found in athlib.utils: sequences run without a reset in between '
                         '(the property demands the baseline outcome after ANY history, so this is still sound)')
    for label, seq, outs, sizes in results:
        ctx.count(len(seq), 'calls_' + label); ctx.stats['seqs_' + label] = ctx.stats.get('seqs_' + label, 0) + 1
        if len({c[:3] for c in seq}) < len(seq): ctx.seen(seq)
    if attempts:
        ctx.fail('athlib.utils', ['call sequences'], 'no network access', 'attempted: %s' % attempts[:3], note='offline')
    # ---- the property itself: every outcome equals its baseline ------------------
    bad = {}
    nbad = 0
    for label, seq, outs, sizes in results:
        for i, (c, o) in enumerate(zip(seq, outs)):
            if o != base[c]:
                nbad += 1
                k = (c, o)
                if k not in bad or len(bad[k][1]) > i + 1:
                    bad[k] = (label, seq[:i + 1])
    ctx.stats['outcomes_differing_from_baseline'] = nbad
    # ---- the same sequences through the Lean model, truth := baseline ----------------
    lines = []; meta = []
    shape_bad = sorted({c[:3] for c in calls if truth_of(base, c[:3]) is None})
    for key in shape_bad[:20]:
        ctx.oblig('correspondence:baseline of %s has the shape of the model' % (key,), 'correspondence', False,
                  'fresh outcomes (expect_failure=False, True) = (%s, %s): not (True,True), (False,%s) or the same other error'
                  % (base[key + (False,)], base[key + (True,)], EXPECTED_ERR[key[0]]))
    sb = set(shape_bad)
    for idx, (label, seq, outs, sizes) in enumerate(results):
        if any(c[:3] in sb for c in seq): continue
        ids = {}
        for c in seq:
            if c[:3] not in ids: ids[c[:3]] = '%s%d' % ('s' if c[0] == 'sv' else 'v', len(ids))
        truth = ' '.join('%s=%s' % (n, truth_of(base, k)) for k, n in ids.items())
        cs = ' '.join(ids[c[:3]] + ('+' if c[3] else '-') for c in seq)
        lines.append('cache\trun\t20\t%s\t%s' % (truth, cs)); meta.append(idx)
    replies = vlib.driver(lines)
    ctx.count(len(lines), 'lean_driver_sequences')
    LET = {'T': 'True', 'F': 'False'}
    ndis = 0; nsize = 0; first = None
    model_wrong = []
    for idx, rep in zip(meta, replies):
        label, seq, outs, sizes = results[idx]
        letters, _, msizes = rep.partition('|')
        mouts = []
        for c, l in zip(seq, letters.split()):
            mouts.append(LET.get(l) or (EXPECTED_ERR[c[0]] if l == 'R' else base[c] if l == 'E' else 'iterator-error'))
        if len(mouts) != len(seq):
            raise vlib.InternalError('driver reply %r for %r' % (rep, lines[meta.index(idx)]))
        if sizes and len(sizes) == 2 and sorted(int(x) for x in msizes.split(',')) != sizes:
            nsize += 1
        for i, (c, o, m) in enumerate(zip(seq, outs, mouts)):
            if o != m:
                ndis += 1
                if o == base[c]:        # the code does what the property demands: then the model is wrong
                    model_wrong.append((seq[:i + 1], o, m))
    ctx.stats['model_disagreements'] = ndis
    ctx.stats['dict_size_differs_from_model(diagnostic)'] = nsize
    if model_wrong:
        s, o, m = model_wrong[0]
        ctx.oblig('correspondence:schema caches vs Lean Cache.run', 'correspondence', False,
                  'history %r: code %s (= fresh-process baseline), model %s; %d such calls' % ([list(c) for c in s], o, m, len(model_wrong)))
    elif not shape_bad:
        ctx.oblig('correspondence:schema caches vs Lean Cache.run', 'correspondence', True)
    # ---- report violations (shortest history per (call, outcome)); say whether the pinned model explains them ----
    items = sorted(bad.items(), key=lambda kv: (len(kv[1][1]), str(kv[0])))[:40]
    plines = []
    for (c, o), (label, seq) in items:
        ids = {}
        for x in seq:
            if x[:3] not in ids: ids[x[:3]] = '%s%d' % ('s' if x[0] == 'sv' else 'v', len(ids))
        if any(truth_of(base, k) is None for k in ids): plines.append(None); continue
        plines.append('cache\trunpinned\t20\t%s\t%s' % (' '.join('%s=%s' % (n, truth_of(base, k)) for k, n in ids.items()),
                                                        ' '.join(ids[x[:3]] + ('+' if x[3] else '-') for x in seq)))
    preps = iter(vlib.driver([l for l in plines if l]))
    for ((c, o), (label, seq)), pl in zip(items, plines):
        note = 'history-dependent (%s)' % label
        if pl:
            l = next(preps).partition('|')[0].split()[-1]
            pm = LET.get(l) or (EXPECTED_ERR[c[0]] if l == 'R' else base[c] if l == 'E' else 'iterator-error')
            note += '; the model of the pinned look-up gives %s here' % pm + (' (same defect as C19_pinned_two_calls)' if pm == o else '')
        ctx.fail(FN_NAME[c[0]], {'history': [list(x) for x in seq], 'call': len(seq) - 1}, base[c], o, note=note,
                 replay_py=replay_src(seq))
    if len(bad) > len(items):
        ctx.notes.append('%d distinct (call, outcome) violations, %d reported' % (len(bad), len(items)))
    for label in ('sv-file', 'va-key', 'pair-shared-file', 'shared-file', 'overflow', 'flag-forms'):
        for lb, seq, outs, sizes in results:
            if lb == label and len(seq) > 1:
                ctx.sample({'kind': label, 'history': [list(c) for c in seq][:6], 'outcomes': outs[:6],
                            'baseline': [base[c] for c in seq][:6], 'length': len(seq)})
                break
    ctx.exhaustive = False
