"""shared by checks/c14.py and checks/c15.py: GEN step, request tuples, implementation calls, driver lines,
comparison (floats against exact rationals within 1e-9 relative), sharding over processes."""
import os, sys, math, array, multiprocessing
from fractions import Fraction
import vlib, gen_wma
import wma_common as W

REL = 1e-9          # float (implementation) vs exact rational (model): relative tolerance
TIGHT = 1e-12       # implementation vs implementation (property oracles): float round-off only

OBLIG_C14 = ['AthlibVerif.Oblig.C14.Pos2015', 'AthlibVerif.Oblig.C14.Pos2023', 'AthlibVerif.Oblig.C14.PosAthlons',
             'AthlibVerif.Oblig.C14.Spelling2015M', 'AthlibVerif.Oblig.C14.Spelling2015F',
             'AthlibVerif.Oblig.C14.Spelling2023M', 'AthlibVerif.Oblig.C14.Spelling2023F',
             'AthlibVerif.Oblig.C14.SpellingAthlonsM', 'AthlibVerif.Oblig.C14.SpellingAthlonsF']
OBLIG_C15 = ['AthlibVerif.Oblig.C14.Pos2015', 'AthlibVerif.Oblig.C14.Pos2023',
             'AthlibVerif.Oblig.C15.Dist2015', 'AthlibVerif.Oblig.C15.Dist2023',
             'AthlibVerif.Oblig.C15.Seam2015', 'AthlibVerif.Oblig.C15.Seam2023']


def gen_step(ctx):
    """regenerate Gen/Wma*.lean from the tree under test; returns the side-car dict or None"""
    try:
        files, side = gen_wma.generate(vlib.REPO, vlib.GEN)
    except Exception as e:
        ctx.oblig('translate:athlib/wma/*.json', 'translator', False, repr(e))
        return None
    ch = [p for p, t in files.items() if vlib.write_if_changed(p, t)]
    if ch:
        ctx.notes.append('regenerated: ' + ', '.join(os.path.basename(p) for p in ch))
    import gen
    gen.regex(ctx, ['PAT_THROWS', 'PAT_JUMPS', 'PAT_TRACK', 'PAT_ROAD'])
    return side


# ---------------------------------------------------------------- requests
# a request is a tuple (fn, year, gender, a2, event, k, form, hint)
#   fn    'factor' | 'best' | 'grade'
#   year  '2015' | '2023' (integer year argument) | 's2015' | 's2023' (string argument) | 'dflt' | 'athlons'
#   a2    age in half-years (int), or None for Python None; ignored by 'best'
#   k     performance in hundredths (int) for 'grade'
#   form  how age / performance are passed: '' = ints where integral else floats; 'f' floats;
#         's' performance as '%.2f' text; 'c' performance as m:ss.xx text
#   hint  metres observed from get_distance when float truncation made it differ from the exact floor

def py_year(y):
    return {'2015': 2015, '2023': 2023, 's2015': '2015', 's2023': '2023'}.get(y)

def py_age(a2, form):
    if a2 is None: return None
    if a2 % 2 == 0 and form != 'f': return a2 // 2
    return a2 / 2.0

def py_perf(k, form):
    if form == 's': return '%d.%02d' % (k // 100, k % 100)
    if form == 'c':
        m, s = divmod(k, 6000)
        return '%d:%02d.%02d' % (m, s // 100, s % 100)
    if k % 100 == 0 and form != 'f': return k // 100
    return k / 100.0

def call_py(athlib, rq):
    fn, y, g, a2, ev, k, form, hint = rq
    if y == 'athlons':
        if fn == 'factor': return athlib.wma_athlon_age_factor(g, py_age(a2, form), ev)
        if fn == 'grade': return athlib.wma_athlon_age_grade(g, py_age(a2, form), ev, py_perf(k, form))
        raise ValueError(fn)
    kw = {} if y == 'dflt' else {'year': py_year(y)}
    if fn == 'factor': return athlib.wma_age_factor(g, py_age(a2, form), ev, **kw)
    if fn == 'best': return athlib.wma_world_best(g, ev, **kw)
    if fn == 'grade': return athlib.wma_age_grade(g, py_age(a2, form), ev, py_perf(k, form), **kw)
    raise ValueError(fn)

def replay_py(rq):
    fn, y, g, a2, ev, k, form, hint = rq
    if y == 'athlons':
        if fn == 'factor': return 'result = athlib.wma_athlon_age_factor(%r, %r, %r)' % (g, py_age(a2, form), ev)
        return 'result = athlib.wma_athlon_age_grade(%r, %r, %r, %r)' % (g, py_age(a2, form), ev, py_perf(k, form))
    kw = '' if y == 'dflt' else ', year=%r' % (py_year(y),)
    if fn == 'factor': return 'result = athlib.wma_age_factor(%r, %r, %r%s)' % (g, py_age(a2, form), ev, kw)
    if fn == 'best': return 'result = athlib.wma_world_best(%r, %r%s)' % (g, ev, kw)
    return 'result = athlib.wma_age_grade(%r, %r, %r, %r%s)' % (g, py_age(a2, form), ev, py_perf(k, form), kw)

def human_args(rq):
    """[year argument, gender, age, event(, performance)] as passed to the wrapper"""
    fn, y, g, a2, ev, k, form, hint = rq
    out = [y, g] + ([] if fn == 'best' else [py_age(a2, form)]) + [ev]
    if fn == 'grade': out.append(py_perf(k, form))
    return out

def fn_name(rq):
    fn, y = rq[0], rq[1]
    if y == 'athlons': return 'athlib.wma_athlon_age_' + fn
    return {'factor': 'athlib.wma_age_factor', 'best': 'athlib.wma_world_best', 'grade': 'athlib.wma_age_grade'}[fn]

def age_txt(a2):
    return '-' if a2 is None else '%d/2' % a2

def line(rq):
    fn, y, g, a2, ev, k, form, hint = rq
    h = '-' if hint is None else str(hint)
    if fn == 'factor': return 'wma\tfactor\t%s\t%s\t%s\t%s\t%s' % (y, g, age_txt(a2), ev, h)
    if fn == 'best': return 'wma\tbest\t%s\t%s\t%s\t%s' % (y, g, ev, h)
    return 'wma\tgrade\t%s\t%s\t%s\t%s\t%d/100\t%s' % (y, g, age_txt(a2), ev, k, h)

def table_key(y):
    return {'2015': '2015', 'athlons': 'athlons'}.get(y, '2023')

def oracle(T, codes, rq):
    """what the exact table arithmetic gives: ('v', Fraction) | ('e', word)"""
    fn, y, g, a2, ev, k, form, hint = rq
    t = T[table_key(y)]
    age = Fraction(0) if a2 is None else Fraction(a2, 2)
    try:
        if fn == 'factor': return ('v', W.factor(t, codes, g, age, ev, hint))
        if fn == 'best': return ('v', W.best(t, codes, g, ev, hint))
        return ('v', W.grade(t, codes, g, age, ev, Fraction(k, 100), hint))
    except W.Err as e:
        return ('e', e.kind)

ANY_EXC = ('NoFactor', 'NoDistance', 'NoRunRows')      # outside the tables: the exception class is not compared

def agree(im, mo):
    """implementation canon ('v', float) | ('e', class) | ('x', repr)   vs   model reply text"""
    if im[0] == 'v':
        if '/' not in mo: return False
        n, d = mo.split('/')
        q = int(n) / int(d)                     # correctly rounded quotient of the exact fraction
        x = im[1]
        if x != x or x in (float('inf'), float('-inf')): return False
        return abs(x - q) <= REL * abs(q)
    if im[0] == 'e':
        if '/' in mo: return False
        if mo in ANY_EXC: return True
        return im[1] == mo
    return False


# ---------------------------------------------------------------- sharded execution
_G = {}

def _work(bounds):
    lo, hi = bounds
    reqs = _G['reqs'][lo:hi]
    athlib = _G['athlib']
    vals = array.array('d')
    errs = {}
    for i, rq in enumerate(reqs):
        try:
            r = call_py(athlib, rq)
            if isinstance(r, bool) or not isinstance(r, (int, float)):
                errs[lo + i] = ('x', repr(r)[:60]); vals.append(float('nan'))
            else:
                vals.append(float(r))
        except Exception as e:
            errs[lo + i] = ('e', type(e).__name__); vals.append(float('nan'))
    model = vlib.driver([line(rq) for rq in reqs])
    bad = []
    for i, mo in enumerate(model):
        im = errs.get(lo + i) or ('v', vals[i])
        if not agree(im, mo):
            bad.append((lo + i, mo))
    keep = _G.get('keep_model')
    return lo, vals.tobytes(), errs, bad, (model if keep else None)


def run(reqs, athlib, nproc=None, keep_model=False):
    """returns (vals array('d') of implementation values (nan where it raised), errs {idx: canon},
    bad [(idx, model reply)], model replies or None)"""
    vlib.driver([])                                       # build the driver once, in the parent
    n = len(reqs)
    nproc = nproc or min(16, max(1, os.cpu_count() or 1))
    _G['reqs'] = reqs; _G['athlib'] = athlib; _G['keep_model'] = keep_model
    chunk = max(2000, min(60000, (n + nproc * 4 - 1) // (nproc * 4)))
    bounds = [(i, min(n, i + chunk)) for i in range(0, n, chunk)]
    vals = array.array('d', bytes(8 * n))
    errs = {}; bad = []; model = [None] * n if keep_model else None
    if nproc == 1 or len(bounds) == 1:
        results = map(_work, bounds)
    else:
        ctxm = multiprocessing.get_context('fork')
        pool = ctxm.Pool(nproc)
        results = pool.imap_unordered(_work, bounds)
    for lo, vb, er, bd, mo in results:
        part = array.array('d'); part.frombytes(vb)
        vals[lo:lo + len(part)] = part
        errs.update(er); bad.extend(bd)
        if keep_model: model[lo:lo + len(mo)] = mo
    if nproc != 1 and len(bounds) != 1:
        pool.close(); pool.join()
    bad.sort()
    return vals, errs, bad, model


def impl_of(vals, errs, i):
    return errs.get(i) or ('v', vals[i])


def show(c):
    return ('%r' % c[1]) if c[0] == 'v' else ('raised %s' % c[1] if c[0] == 'e' else 'returned %s' % c[1])


# ---------------------------------------------------------------- translator validation
def check_dump(ctx, T, side):
    """the driver dumps every generated entry back; compare with our own reading of the JSON text"""
    lines = []; keys = []
    for y in ('2015', '2023', 'athlons'):
        for g in 'mf':
            lines.append('wma\tdump\t%s\t%s' % (y, g)); keys.append((y, g))
    out = vlib.driver(lines)
    n = 0; bad = []
    for (y, g), o in zip(keys, out):
        t = T[y]; s = side[y]
        parts = o.split(' ')
        if len(parts) < 4 or [int(parts[0]), int(parts[1]), int(parts[2])] != [s['kmScale'], s['bestScale'], s['facScale']] \
                or [int(a) for a in parts[3].split(',')] != t.ages:
            bad.append('%s/%s header %r' % (y, g, o[:80])); continue
        rows = parts[4:]
        if len(rows) != len(t.rows[g]):
            bad.append('%s/%s: %d rows dumped, %d in the JSON' % (y, g, len(rows), len(t.rows[g]))); continue
        for r, txt in zip(t.rows[g], rows):
            ev, km, best, facs = txt.rsplit(':', 3)
            want_facs = ','.join('n' if f is None else str(int(f * s['facScale'])) for f in r.facs)
            km_w = 0 if r.km is None else r.km * s['kmScale']
            best_w = 0 if r.best is None else r.best * s['bestScale']
            n += 2 + len(r.facs)
            if ev != r.event or Fraction(int(km)) != km_w or Fraction(int(best)) != best_w or facs != want_facs:
                bad.append('%s/%s/%s' % (y, g, r.event))
    ctx.count(n, 'table_entries_dumped_back')
    ctx.oblig('translator:Gen/Wma*.lean equals the JSON text entry by entry', 'translator', not bad, '; '.join(bad[:5]))
    return not bad
