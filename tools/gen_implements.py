"""Translator T3: the decision tree of athlib.implements.get_implement_weight (Python `ast`) -> ordered
rules as Lean data; plus the event-code keys of every scoring / age-grading table of the library.
A return statement fires iff the tests on its path hold (and, for elif/else, the earlier tests of the same
chain fail) and no earlier return fired — so the function is the first rule, in program order, whose path
condition holds.  Grammar: if/elif/else, ==, in (tuple/list of literals), >= on strings, a leading
normalisation of the form `if <cond>: age_group = '<literal>'`, return of a string literal."""
import ast, os, json, sys

class TranslateError(Exception):
    pass

VARS = {'event_code': 'ev', 'gender': 'g', 'age_group': 'ag'}

def lstr(s): return json.dumps(s, ensure_ascii=False)

def cond(node):
    """-> list of atomic conditions (conjunction) as tuples"""
    if isinstance(node, ast.BoolOp) and isinstance(node.op, ast.And):
        out = []
        for v in node.values: out += cond(v)
        return out
    if isinstance(node, ast.Compare) and len(node.ops) == 1:
        l, op, r = node.left, node.ops[0], node.comparators[0]
        if isinstance(l, ast.Name) and l.id in VARS:
            v = VARS[l.id]
            if isinstance(op, ast.Eq) and isinstance(r, ast.Constant) and isinstance(r.value, str):
                return [('eq', v, r.value)]
            if isinstance(op, ast.In) and isinstance(r, (ast.Tuple, ast.List)) and all(isinstance(e, ast.Constant) and isinstance(e.value, str) for e in r.elts):
                return [('in', v, [e.value for e in r.elts])]
            if isinstance(op, ast.GtE) and isinstance(r, ast.Constant) and isinstance(r.value, str):
                return [('ge', v, r.value)]
        # masters clamp: age_group[:1] == 'V' / age_group[1:].isdigit() / int(age_group[1:]) >= N
        src = ast.unparse(node)
        if src in ("age_group[:1] == 'V'", 'age_group[:1] == "V"'): return [('vprefix',)]
        if isinstance(op, ast.GtE) and ast.unparse(l) == 'int(age_group[1:])' and isinstance(r, ast.Constant) and isinstance(r.value, int):
            return [('vnum_ge', r.value)]
    if isinstance(node, ast.Call) and ast.unparse(node) == 'age_group[1:].isdigit()':
        return [('vdigits',)]
    raise TranslateError('unsupported condition: ' + ast.unparse(node))

def walk(stmts, path, rules, renames):
    for st in stmts:
        if isinstance(st, ast.Expr) and isinstance(st.value, ast.Constant):
            continue                                             # docstring
        if isinstance(st, ast.Return):
            if not (isinstance(st.value, ast.Constant) and isinstance(st.value.value, str)):
                raise TranslateError('return of a non-literal')
            rules.append((list(path), st.value.value))
            return True                                          # nothing after an unconditional return is reachable
        if isinstance(st, ast.If):
            # leading normalisation `if cond: age_group = 'lit'`
            if (len(st.body) == 1 and isinstance(st.body[0], ast.Assign) and not st.orelse and not path and not rules
                    and isinstance(st.body[0].targets[0], ast.Name) and st.body[0].targets[0].id == 'age_group'
                    and isinstance(st.body[0].value, ast.Constant)):
                renames.append((cond(st.test), st.body[0].value.value))
                continue
            neg = []
            node = st
            while True:
                c = cond(node.test)
                walk(node.body, path + neg + [(c, True)], rules, renames)
                neg = neg + [(c, False)]
                if len(node.orelse) == 1 and isinstance(node.orelse[0], ast.If):
                    node = node.orelse[0]; continue
                if node.orelse:
                    walk(node.orelse, path + neg, rules, renames)
                break
            continue
        if isinstance(st, (ast.Pass,)):
            continue
        raise TranslateError('unsupported statement: ' + ast.unparse(st)[:80])
    return False

def atom_lean(a):
    k = a[0]
    if k == 'eq': return '.eq .%s %s' % (a[1], lstr(a[2]))
    if k == 'in': return '.mem .%s [%s]' % (a[1], ', '.join(lstr(x) for x in a[2]))
    if k == 'ge': return '.ge .%s %s' % (a[1], lstr(a[2]))
    if k == 'vprefix': return '.vprefix'
    if k == 'vdigits': return '.vdigits'
    if k == 'vnum_ge': return '.vnumGe %d' % a[1]
    raise TranslateError(k)

def generate(repo, outdir):
    src = open(os.path.join(repo, 'athlib', 'implements.py')).read()
    fn = None
    for node in ast.parse(src).body:
        if isinstance(node, ast.FunctionDef) and node.name == 'get_implement_weight':
            fn = node
    if fn is None: raise TranslateError('get_implement_weight not found')
    if [a.arg for a in fn.args.args] != ['event_code', 'gender', 'age_group']:
        raise TranslateError('unexpected signature')
    rules = []; renames = []
    walk(fn.body, [], rules, renames)
    L = ['-- GENERATED by tools/gen_implements.py from athlib/implements.py; do not edit',
         'import AthlibVerif.Model.Implements', 'namespace AthlibVerif.Gen', 'open AthlibVerif.Implements',
         '/-- leading normalisations of the age-group label: (condition, new label) -/',
         'def implementRenames : List (List Atom × String) := [%s]' % ', '.join(
             '([%s], %s)' % (', '.join(atom_lean(a) for a in c), lstr(v)) for c, v in renames),
         '/-- ordered rules: (path condition as a conjunction of (disjunction-free) tests with polarity, weight text) -/',
         'def implementRules : List Rule := [']
    rl = []
    for path, w in rules:
        conj = []
        for c, pol in path:
            conj.append('(%s, [%s])' % ('true' if pol else 'false', ', '.join(atom_lean(a) for a in c)))
        rl.append('  ⟨[%s], %s⟩' % (', '.join(conj), lstr(w)))
    L.append(',\n'.join(rl)); L.append(']'); L.append('end AthlibVerif.Gen')
    return {os.path.join(outdir, 'Implements.lean'): '\n'.join(L) + '\n'}, {'rules': len(rules), 'renames': len(renames)}

def table_keys(repo):
    """event-code keys of the library's own scoring and age-grading tables (live objects)"""
    import vlib
    vlib.use_repo()
    import athlib
    M = sys.modules
    keys = []
    def add(tab, ks):
        for k in sorted(set(map(str, ks))): keys.append((tab, k))
    add('athlon', [o['event_code'] for o in M['athlib.athlon_score']._scoring_table])
    add('hungarian', [f[2] for f in M['athlib.hungarian_score'].FACTORS])
    add('tyrving', [k for t in M['athlib.tyrving_score']._tyrvingTables.values() for k in t])
    add('qkids', [k for t in M['athlib.qkids_score']._qkidsTables.values() for k in t])
    add('sportshall', list(M['athlib.sportshall_score'].load_data()))
    B = M['athlib.bulgarian_score'].scores
    bk = set()
    for k in B:
        # key = age group + gender + event code, e.g. U16F100H
        i = 0
        while i < len(k) and not (k[i] in 'MFX' and i >= 2): i += 1
        bk.add(k[i + 1:])
    add('bulgarian', bk)
    for y in ('2015', '2023'):
        d = json.load(open(os.path.join(repo, 'athlib', 'wma', 'wma-data-%s.json' % y)))
        add('wma-' + y, [r[0] for g in 'mf' for r in d[g]])
    d = json.load(open(os.path.join(repo, 'athlib', 'wma', 'wma-athlons-data.json')))
    add('wma-athlons', [r[0] for g in 'mf' for r in d[g]])
    return keys

def generate_keys(repo, outdir):
    keys = table_keys(repo)
    uniq = sorted(set(k for _, k in keys))
    L = ['-- GENERATED by tools/gen_implements.py from the live tables of athlib; do not edit',
         'namespace AthlibVerif.Gen',
         '/-- every distinct event-code key used by the combined-events, Hungarian, Tyrving, QuadKids, Sportshall, Bulgarian and WMA tables -/',
         'def tableKeys : List String := [', ',\n'.join('  ' + lstr(k) for k in uniq), ']', 'end AthlibVerif.Gen']
    return {os.path.join(outdir, 'TableKeys.lean'): '\n'.join(L) + '\n'}, keys

if __name__ == '__main__':
    sys.path.insert(0, os.path.dirname(os.path.abspath(__file__)))
    repo = os.environ.get('ATHLIB_REPO', '/repo')
    f, info = generate(repo, sys.argv[1]); print(info)
    for p, t in f.items(): open(p, 'w').write(t)
    f, keys = generate_keys(repo, sys.argv[1]); print(len(keys))
    for p, t in f.items(): open(p, 'w').write(t)
